#!/bin/sh
# runs every claimed check (quick by default) — used to refresh evidence/ before committing
tier=${1:-quick}
for p in $(python3 -c "import json;print(' '.join(c['property_id'] for c in json.load(open('MANIFEST.json'))['checks']))"); do
  ./check $p --tier $tier 2>/dev/null | tail -1
done
