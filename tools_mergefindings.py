#!/usr/bin/env python3
"""resolve a merge conflict in known_findings.json by union (ours + entries of theirs whose id we lack;
for ids on both sides keep ours unless theirs is listed in argv[1:] as 'take theirs')"""
import json, subprocess, sys
def blob(stage):
    return json.loads(subprocess.run(["git", "show", f":{stage}:known_findings.json"], capture_output=True, text=True, check=True).stdout)
ours, theirs = blob(2), blob(3)
take = set(sys.argv[1:])
ids = {e.get("id"): i for i, e in enumerate(ours["findings"])}
for e in theirs["findings"]:
    if e.get("id") not in ids:
        ours["findings"].append(e); print("added", e.get("id"))
    elif e.get("id") in take or (e != ours["findings"][ids[e["id"]]] and e.get("property") in take):
        ours["findings"][ids[e["id"]]] = e; print("took theirs", e.get("id"))
json.dump(ours, open("known_findings.json", "w"), indent=1)
