#!/usr/bin/env python3
"""resolve a merge conflict in known_findings.json by union (ours + entries of theirs whose id we lack;
for ids on both sides keep ours unless theirs is listed in argv[1:] as 'take theirs')"""
import json, subprocess, sys
def blob(stage):
    return json.loads(subprocess.run(["git", "show", f":{stage}:known_findings.json"], capture_output=True, text=True, check=True).stdout)
base, ours, theirs = blob(1), blob(2), blob(3)
base_ids = {e.get('id') for e in base['findings']}
take = set(sys.argv[1:])
ids = {e.get("id"): i for i, e in enumerate(ours["findings"])}
for e in theirs["findings"]:
    if e.get("id") not in ids:
        if e.get("id") in base_ids:
            print("not resurrecting", e.get("id")); continue   # deleted on our side since the merge base
        ours["findings"].append(e); print("added", e.get("id"))
    elif e.get("id") in take or (e != ours["findings"][ids[e["id"]]] and e.get("property") in take):
        ours["findings"][ids[e["id"]]] = e; print("took theirs", e.get("id"))
json.dump(ours, open("known_findings.json", "w"), indent=1)
