"""C09 — body decoding is transparent, memory-bounded and always makes progress.

Implementation under test (all real, in-process): aiohttp.client_proto.ResponseHandler (client side:
data_received / pause_reading / resume_reading / connection_lost) or a BaseProtocol stub around
HttpRequestParserPy (server side), HttpPayloadParser, DeflateBuffer, compression_utils
(zlib / brotli / zstd), StreamReader, BaseRequest.read()/post().  Only the socket is replaced
(an in-memory transport that honours pause_reading/resume_reading) and coroutines are stepped
by hand (one `send(None)` = one non-blocking attempt), so no event loop runs.
Model: lean/AioModel/C09.lean; theorems: lean/AioProps/C09.lean.
"""
import asyncio, gzip, json, os, sys, zlib
from .common.codec import hx, unhx

PROPERTY = "C09"
LEAN_MODULES = ["AioProps.C09"]
THEOREMS = [
    "Aio.C09.expand_lawful",
    "Aio.C09.conservation",
    "Aio.C09.payFeed_adds_at_most",
    "Aio.C09.rdFeed_pauses_above_high",
    "Aio.C09.drain_respects_pause",
    "Aio.C09.resident_bounded_partial",
    "Aio.C09.error_is_sticky",
    "Aio.C09.corrupt_is_error",
    "Aio.C09.truncated_clean_eof_counterexample",
    "Aio.C09.read_capped",
    "Aio.C09.progress_counterexample_stale_pause",
    "Aio.C09.progress_counterexample_stale_pause_siblings",
    "Aio.C09.needs_input_clears_pause",
    "Aio.C09.no_stale_pause",
    "Aio.C09.no_stale_pause_current",
    "Aio.C09.stale_pause_scenarios_repaired",
    "Aio.C09.resumed_reader_raises_recorded_exception",
    "Aio.C09.resumed_reader_reparks_unrepaired",
    "Aio.C09.parked_reader_scenario_both_versions",
    "Aio.C09.read_returns_only_with_data_or_eof",
    "Aio.C09.readline_collects_at_most_max_size",
    "Aio.C09.readline_result_bounded",
    "Aio.C09.server_close_fails_parked_handler",
    "Aio.C09.park_raises_recorded_exception",
    "Aio.C09.never_parked_with_exception_recorded",
    "Aio.C09.never_parked_with_exception_recorded_current",
    "Aio.C09.readline_after_own_refill_error_both_versions",
    "Aio.C09.request_read_keeps_decoder_cap",
    "Aio.C09.lost_body_counterexample_peer_close",
    "Aio.C09.lost_body_counterexample_chunked_close",
    "Aio.C09.parked_reader_misses_error_counterexample",
]
RULE = ("a case = (side client|server, encoding identity|gzip|deflate|raw-deflate|br|zstd, framing Content-Length|chunked|"
        "until-EOF, read-buffer limit in {1,2,3,5,16,100,1024,4096,65536}, payload shape random|text|bomb|multi-member|"
        "empty-member|truncated|bit-flipped, segmentation whole|1-byte|random cuts|chunk-aligned, consumer schedule = random "
        "interleaving of deliver / read(n) / readany / set_read_chunk_size / peer-close / BaseRequest.read() followed by a "
        "keep-reading drain phase). Every op is executed on the real objects and on the Lean model (decompressor calls "
        "replayed from a recording of the real zlib/brotli/zstd) and compared after every op: result bytes or blocked or "
        "error class, buffered size, the four pause/pending flags, eof, total_bytes, peak size. non-trivial = at least one "
        "body byte reached the reader or an error was reported; distinct by full case content.")
TRUSTED_BASE = [
    "behaviour flags waitRechecksException (does a reader resumed from _wait() raise a recorded exception) and "
    "contentCodingLowercased are probed on the real classes on every run and written to lean/AioModel/Generated/C09.lean; the "
    "consumer model is parametric in the first (World.waitRechecks), theorems hold for both values",
    "behaviour flag needsInputClearsPause: probed on every run by driving a real HttpPayloadParser + StreamReader through a "
    "feed_data() call that is asked to pause and returns PAYLOAD_NEEDS_INPUT at each of its return sites; written to "
    "lean/AioModel/Generated/C09.lean; the model is parametric in it (World.clearOnNeeds) and the theorems hold for both values "
    "(counterexamples for false, no_stale_pause for true)",
    "zlib / brotli / zstd and aiohttp.compression_utils are NOT modelled: the decompressor is the parameter `Codec` of every "
    "theorem; its laws (Codec.Lawful: output <= max_length, data_available implies non-empty output, concatenated outputs "
    "refine the one-shot decode) are only tested, on every generated payload, against the real ZLibDecompressor / "
    "BrotliDecompressor / ZSTDDecompressor",
    "Brotli (python binding 1.2) honours max_length only up to whole output blocks of doubling size: a call returns up to "
    "2*max_length + 32 KiB (known finding K7); the additive-slack form of Codec.Lawful.bounded fits zlib and zstd (slack 0) and "
    "brotli only for max_length <= 32 KiB",
    "the correspondence run replays recorded decompressor results into the model (scripted codec), so it validates the "
    "pipeline control flow, not the decompressors",
    "in-memory transport: pause_reading/resume_reading honoured exactly; connection_lost(None) is delivered even while "
    "reading is paused (as SSL / proactor transports and write-side failures do)",
    "coroutines stepped by hand: a read that would park is reported `blocked` and abandoned (coro.close()), then re-issued; "
    "BaseRequest.read() is kept parked and resumed when its waiter is done",
    "chunk-size-line / trailer syntax corner cases and line limits are the business of the shared HTTP model (C01/C03/C10); "
    "C09 generates plain chunked framing, extensions and trailer fields, and a few malformed lines",
    "server side: RequestHandler is replaced by a BaseProtocol stub that calls HttpRequestParserPy.feed_data and swallows "
    "HttpProcessingError like web_protocol.data_received; the message-queue pause of web_protocol is not in scope",
    "multipart post() size accounting (BodyPartReader) belongs to C19; post() is exercised for urlencoded bodies only",
]
ASSUMPTIONS = [
    "reference decoding: gzip/zlib/raw-deflate = concatenation of members decoded by zlib.decompressobj until the input is "
    "exhausted, every member complete; `deflate` means zlib-wrapped when the low nibble of the first byte is 8, raw "
    "otherwise; br = brotli.decompress; zstd = multi-frame zstd.decompress",
    "'constant factor of the read-buffer limit' is read as: buffered decoded bytes <= high_water + 2*max(limit, low_water) "
    "where low_water is the larger of the configured limit and the largest read size the consumer asked for, and only "
    "while the consumer has not asked for the whole body at once (read(-1) lifts the cap by design)",
    "server side, request.read()/post()/text()/json() with a client_max_size: decoded bytes resident in the StreamReader must "
    "stay within 3 x max(client_max_size, read_bufsize) (high water 2x + one decode step 1x of the raised limit; brotli: plus "
    "its block overshoot), whatever the compression ratio",
    "'never accumulates more than client_max_size' is read as: read() returns <= client_max_size bytes and holds at most "
    "client_max_size + one readany() result before raising 413 (this is what the code does)",
    "a streaming decoder necessarily delivers the bytes preceding a corruption; 'reported as a payload error instead of "
    "being delivered' is read as: the consumer never observes a clean end-of-body for a body whose reference decode fails",
    "progress is judged for a consumer that keeps reading, with the complete body on the wire",
]
MAXSIZE = sys.maxsize
BROTLI_SLACK = 32768
# Brotli's Decompressor.process(data, limit) fills whole output blocks of doubling size (32 KiB, 64 KiB, 128 KiB, ...) and
# stops only when the total is >= limit: a call returns up to 2*limit + 32 KiB (measured: limit 1 -> 32752, 32753 -> 98272,
# 100000 -> 229328).  That is known finding K7; anything beyond this shape is a different violation.
def brotli_call_max(m):
    return 2 * m + BROTLI_SLACK
LIMITS = [1, 2, 3, 5, 16, 100, 1024, 4096, 4096, 16384, 65536]


# ------------------------------------------------------------------------------------ behaviour flag probed from the source
def probe_needs_input_clears_pause():
    """Behavioural probe (no text matching): a real HttpPayloadParser feeds a real StreamReader (limit 4, high water 8)
    whose protocol forwards pause_reading() to the parser, as BaseProtocol does.  One feed_data() call pushes 9 bytes
    (the reader asks for a pause inside the call) and returns PAYLOAD_NEEDS_INPUT at the site under test; is `_paused`
    still set afterwards?  -> {site: cleared?}"""
    from aiohttp.http_parser import HttpPayloadParser, HeadersParser, PayloadState
    from aiohttp.streams import StreamReader
    from unittest import mock
    loop = asyncio.new_event_loop()
    x9 = b"X" * 9
    sites = [
        ("chunk-boundary", dict(chunked=True), b"9\r\n" + x9 + b"\r\n"),           # loop exit -> final return
        ("before-crlf", dict(chunked=True), b"9\r\n" + x9),                           # chunk-EOF incomplete
        ("mid-size-line", dict(chunked=True), b"9\r\n" + x9 + b"\r\n5"),            # size line incomplete
        ("trailers", dict(chunked=True), b"9\r\n" + x9 + b"\r\n0\r\nX-T: a"),      # trailers incomplete
        ("length", dict(length=20), x9),                                               # final return, PARSE_LENGTH
        ("until-eof", dict(), x9),                                                     # final return, PARSE_UNTIL_EOF
    ]
    res = {}
    try:
        for name, kw, data in sites:
            holder = {}
            proto = mock.Mock()
            proto.pause_reading.side_effect = lambda: holder["pp"].pause_reading()
            sr = StreamReader(proto, 4, loop=loop)
            pp = HttpPayloadParser(sr, headers_parser=HeadersParser(), limit=4, **kw)
            holder["pp"] = pp
            state, _ = pp.feed_data(data)
            if state is not PayloadState.PAYLOAD_NEEDS_INPUT or not proto.pause_reading.called:
                raise RuntimeError(f"probe site {name}: state={state!r} pause requested={proto.pause_reading.called}")
            res[name] = not pp._paused
        # control: the mid-chunk return clears the flag in both versions of the code
        holder = {}
        proto = mock.Mock()
        proto.pause_reading.side_effect = lambda: holder["pp"].pause_reading()
        pp = HttpPayloadParser(StreamReader(proto, 4, loop=loop), chunked=True, headers_parser=HeadersParser(), limit=4)
        holder["pp"] = pp
        pp.feed_data(b"e\r\n" + x9)
        res["mid-chunk(control)"] = not pp._paused
    finally:
        loop.close()
    return res


def probe_content_coding_lowercased():
    """Behavioural probe: parse a response head and a request head carrying `Content-Encoding: GZIP` (and Zstd / BR /
    Deflate) with the real parsers and look at `msg.compression` -- the value DeflateBuffer will compare with
    "gzip"/"deflate"/"br"/"zstd".  -> {spelling: compression as parsed}"""
    from aiohttp.http_parser import HttpRequestParserPy, HttpResponseParserPy
    from aiohttp.base_protocol import BaseProtocol
    loop = asyncio.new_event_loop()
    res = {}
    try:
        for resp in (True, False):
            for val in ("GZIP", "Zstd", "BR", "Deflate"):
                proto = BaseProtocol(loop)
                parser = (HttpResponseParserPy if resp else HttpRequestParserPy)(proto, loop, 2 ** 16)
                start = b"HTTP/1.1 200 OK\r\n" if resp else b"POST / HTTP/1.1\r\nHost: a\r\n"
                msgs, _, _ = parser.feed_data(start + b"Content-Encoding: " + val.encode() + b"\r\nContent-Length: 3\r\n\r\n")
                res[("resp:" if resp else "req:") + val] = msgs[0][0].compression
    finally:
        loop.close()
    return res


def probe_wait_rechecks_exception():
    """Behavioural probe: a real StreamReader.readany() coroutine is parked in _wait(); feed_data() completes its waiter
    normally, then set_exception() records an error (no waiter registered any more); the coroutine is resumed.
    Does it raise the recorded exception (repaired _wait) or return the buffered bytes (code before the repair)?"""
    from aiohttp.streams import StreamReader
    from unittest import mock
    loop = asyncio.new_event_loop()
    try:
        proto = mock.Mock()
        proto.connected = True
        sr = StreamReader(proto, 2 ** 16, loop=loop)
        coro = sr.readany()
        fut = coro.send(None)                    # parked
        sr.feed_data(b"x")
        if not fut.done():
            raise RuntimeError("probe: feed_data did not complete the waiter")
        marker = RuntimeError("probe-marker")
        sr.set_exception(marker)
        try:
            coro.send(None)
        except StopIteration as e:
            if e.value != b"x":
                raise RuntimeError(f"probe: resumed readany returned {e.value!r}")
            return False
        except RuntimeError as e:
            if e is marker:
                return True
            raise
        raise RuntimeError("probe: resumed readany parked again with data buffered")
    finally:
        loop.close()


def probe_wait_checks_exception_at_entry():
    """Behavioural probe: an exception is recorded on a real StreamReader (no waiter registered), then `_wait()` is
    entered the way readuntil() does after taking buffers.  Does it raise the recorded exception (repaired) or park
    on a fresh waiter (code before the repair)?"""
    from aiohttp.streams import StreamReader
    from unittest import mock
    loop = asyncio.new_event_loop()
    try:
        proto = mock.Mock()
        proto.connected = True
        sr = StreamReader(proto, 2 ** 16, loop=loop)
        marker = RuntimeError("probe-marker")
        sr.set_exception(marker)
        coro = sr._wait("probe")
        try:
            coro.send(None)
        except RuntimeError as e:
            if e is marker:
                return True
            raise
        except StopIteration:
            raise RuntimeError("probe: _wait() returned without a wake-up")
        coro.close()          # parked on a new waiter
        return False
    finally:
        loop.close()


def generate(repo):
    we_flag = probe_wait_checks_exception_at_entry()
    wr_flag = probe_wait_rechecks_exception()
    cc = probe_content_coding_lowercased()
    cc_flag = all(v == k.split(":")[1].lower() for k, v in cc.items())
    cc_detail = " ".join(f"{k}->{v}" for k, v in cc.items())
    res = probe_needs_input_clears_pause()
    sites = {k: v for k, v in res.items() if not k.endswith("(control)")}
    flag = all(sites.values())
    detail = " ".join(f"{k}={v}" for k, v in res.items())
    body = (
        "-- GENERATED by harness/c09.py from the imported aiohttp.http_parser — do not edit\n"
        "namespace Aio.Gen.C09\n"
        "/-- probe: a real `HttpPayloadParser` whose reader asks for a pause during a `feed_data` call that\n"
        "returns PAYLOAD_NEEDS_INPUT has `_paused == False` afterwards, at every such return\n"
        f"(sites: {detail}) -/\n"
        f"def needsInputClearsPause : Bool := {'true' if flag else 'false'}\n"
        "/-- probe: `msg.compression` of a head with `Content-Encoding: GZIP` / `Zstd` / `BR` / `Deflate` is the lower-case\n"
        "coding name (content codings are case-insensitive, RFC 9110 8.4.1), so `DeflateBuffer` picks the decoder, the raw-deflate\n"
        "sniff and the deflate eof check of that coding.  Not consulted by the pipeline model (its `sniff`/`checkEof`/decoder\n"
        "columns are taken per run from the compression the real parser reported); recorded so that a change is visible and\n"
        f"rebuilds the proofs.  ({cc_detail}) -/\n"
        f"def contentCodingLowercased : Bool := {'true' if cc_flag else 'false'}\n"
        "/-- probe: a real `StreamReader.readany()` parked in `_wait()`, woken normally by `feed_data`, resumed after\n"
        "`set_exception` recorded an error, raises that error (`_wait` re-checks `_exception` after the wake-up) instead of\n"
        "returning the buffered bytes -/\n"
        f"def waitRechecksException : Bool := {'true' if wr_flag else 'false'}\n"
        "/-- probe: `StreamReader._wait()` entered with an exception already recorded (and no waiter) raises it instead of\n"
        "parking on a fresh waiter -/\n"
        f"def waitChecksExceptionAtEntry : Bool := {'true' if we_flag else 'false'}\n"
        "end Aio.Gen.C09\n")
    return {"AioModel/Generated/C09.lean": body}


# ------------------------------------------------------------------------------------ codecs
def _zstd():
    try:
        if sys.version_info >= (3, 14):
            from compression import zstd
        else:
            from backports import zstd
        return zstd
    except ImportError:
        return None


def _brotli():
    try:
        import brotli
        return brotli
    except ImportError:
        return None


def available_encodings():
    e = ["identity", "gzip", "deflate", "rawdeflate"]
    if _brotli() is not None:
        e.append("br")
    if _zstd() is not None:
        e.append("zstd")
    return e


def header_encoding(enc):
    return {"identity": None, "gzip": "gzip", "deflate": "deflate", "rawdeflate": "deflate", "br": "br", "zstd": "zstd"}[enc]


def compress(enc, data, level=6):
    if enc == "identity":
        return data
    if enc == "gzip":
        return gzip.compress(data, compresslevel=level, mtime=0)
    if enc == "deflate":
        return zlib.compress(data, level)
    if enc == "rawdeflate":
        c = zlib.compressobj(level, zlib.DEFLATED, -15)
        return c.compress(data) + c.flush()
    if enc == "br":
        return _brotli().compress(data, quality=min(level, 5))
    if enc == "zstd":
        return _zstd().compress(data)
    raise ValueError(enc)


def reference_decode(enc, body):
    """one-shot reference decoding -> ("ok", bytes) | ("incomplete", prefix) | ("invalid", None)"""
    if enc == "identity":
        return ("ok", body)
    if enc in ("gzip", "deflate", "rawdeflate"):
        if enc == "gzip":
            wbits = 31
        else:
            wbits = 15 if (body and body[0] & 0xF == 8) else -15
        out, data = bytearray(), body
        if not data:
            return ("incomplete", b"")
        while data:
            d = zlib.decompressobj(wbits)
            try:
                out += d.decompress(data)
            except zlib.error:
                return ("invalid", None)
            if not d.eof:
                return ("incomplete", bytes(out))
            data = d.unused_data
        return ("ok", bytes(out))
    if enc == "br":
        br = _brotli()
        d = br.Decompressor()
        try:
            out = d.process(body)
            # without an output limit the binding still hands out one block per call: drain
            while not d.is_finished():
                more = d.process(b"")
                if not more:
                    break
                out += more
        except br.error:
            return ("invalid", None)
        if not d.is_finished():
            return ("incomplete", out)
        return ("ok", out)
    if enc == "zstd":
        z = _zstd()
        out, data = bytearray(), body
        if not data:
            return ("incomplete", b"")
        while data:
            d = z.ZstdDecompressor()
            try:
                out += d.decompress(data)
            except z.ZstdError:
                return ("invalid", None)
            if not d.eof:
                return ("incomplete", bytes(out))
            data = d.unused_data
        return ("ok", bytes(out))
    raise ValueError(enc)


# ------------------------------------------------------------------------------------ recording the real decompressors
class Runaway(BaseException):
    """a per-scenario guard of the harness tripped (BaseException: must not be swallowed by the `except Exception`
    clauses of the code under test).  kind -> violation signature, see oracle()."""

    def __init__(self, kind, detail):
        super().__init__(kind, detail)
        self.kind, self.detail = kind, detail


class Recorder:
    current = None

    def __init__(self):
        self.calls = []       # (input, max_length, out|None, avail, eof)
        self.peak = 0
        # per-scenario guards (set by run_case from the wire / reference sizes; None = off)
        self.max_calls = None        # decompressor calls
        self.max_out_total = None    # decoded bytes produced, all calls together
        self.max_pending = None      # bytes parked inside the decompressor (_pending_unused_data / unused_data / tail)
        self.out_total = 0

    def after_call(self, dec, out):
        self.out_total += len(out)
        if self.max_calls is not None and len(self.calls) > self.max_calls:
            raise Runaway("decoder-call-budget", f"{len(self.calls)} decompressor calls for this body (budget {self.max_calls})")
        if self.max_out_total is not None and self.out_total > self.max_out_total:
            raise Runaway("decoded-exceeds-reference",
                          f"decoder produced {self.out_total} bytes so far, more than the reference decoding allows ({self.max_out_total})")
        if self.max_pending is not None:
            pend = pending_inside(dec)
            if pend > self.max_pending:
                raise Runaway("pending-input-grows",
                              f"{pend} input bytes parked inside the decompressor, the whole body on the wire is smaller "
                              f"(cap {self.max_pending})")


def pending_inside(dec):
    """input bytes a compression_utils decompressor is holding back (pending members, unconsumed tail, unused data)"""
    n = len(getattr(dec, "_pending_unused_data", None) or b"")
    inner = getattr(dec, "_decompressor", None)
    if inner is not None:
        for attr in ("unconsumed_tail", "unused_data"):
            try:
                n += len(getattr(inner, attr, b"") or b"")
            except Exception:
                pass
    return n


_PATCHED = []


def install_patches():
    if _PATCHED:
        return
    from aiohttp import compression_utils as cu, streams

    def wrap(cls):
        orig = cls.decompress_sync

        def decompress_sync(self, data, max_length=0):
            rec = Recorder.current
            data = bytes(data)
            try:
                out = orig(self, data, max_length)
            except BaseException:
                if rec is not None:
                    rec.calls.append((data, max_length, None, False, False))
                raise
            if rec is not None:
                rec.calls.append((data, max_length, bytes(out), bool(self.data_available), bool(getattr(self, "eof", False))))
                rec.after_call(self, out)
            return out
        cls.decompress_sync = decompress_sync
        _PATCHED.append((cls, "decompress_sync", orig))
    for name in ("ZLibDecompressor", "BrotliDecompressor", "ZSTDDecompressor"):
        wrap(getattr(cu, name))
    orig_feed = streams.StreamReader.feed_data
    streams.StreamReader.feed_data = _peak_feed(orig_feed)
    _PATCHED.append((streams.StreamReader, "feed_data", orig_feed))


def _peak_feed(orig_feed):
    def feed_data(self, data):
        rec = Recorder.current
        if rec is not None and data and not self._eof:
            s = self._size + len(data)
            if s > rec.peak:
                rec.peak = s
        return orig_feed(self, data)
    return feed_data


def remove_patches():
    while _PATCHED:
        cls, name, orig = _PATCHED.pop()
        setattr(cls, name, orig)


# ------------------------------------------------------------------------------------ the real pipeline
class MemTransport:
    def __init__(self):
        self.paused = False
        self.closed = False

    def pause_reading(self):
        self.paused = True

    def resume_reading(self):
        self.paused = False

    def is_closing(self):
        return self.closed

    def close(self):
        self.closed = True

    def abort(self):
        self.closed = True

    def get_extra_info(self, *a, **k):
        return None


def err_name(e):
    from aiohttp import http_exceptions as he
    from aiohttp.client_exceptions import ClientPayloadError
    seen = 0
    while isinstance(e, ClientPayloadError) and e.__cause__ is not None and seen < 4:
        e = e.__cause__
        seen += 1
    try:
        from aiohttp.web_exceptions import HTTPRequestEntityTooLarge
        if isinstance(e, HTTPRequestEntityTooLarge):
            return "E_TOO_LARGE"
    except Exception:
        pass
    table = [(he.ContentEncodingError, "E_CONTENT_ENCODING"), (he.ContentLengthError, "E_CONTENT_LENGTH"),
             (he.TransferEncodingError, "E_TRANSFER_ENCODING"), (he.LineTooLong, "E_LINE_TOO_LONG"),
             (he.InvalidHeader, "E_INVALID_HEADER"), (he.BadHttpMessage, "E_BAD_MESSAGE")]
    for cls, name in table:
        if isinstance(e, cls):
            return name
    if isinstance(e, RuntimeError) and str(e) == "Connection closed.":
        return "E_CONN_CLOSED"
    if isinstance(e, AssertionError):
        return "E_ASSERT"
    return f"E_OTHER({type(e).__name__})"


def align_class(pp):
    """where in the body framing a feed_data() call stopped (used to identify WHICH stale-pause scenario stalls)"""
    from aiohttp.http_parser import ChunkState, ParseState
    if pp._type == ParseState.PARSE_LENGTH:
        return "length"
    if pp._type != ParseState.PARSE_CHUNKED:
        return "until-eof"
    st = pp._chunk
    if st == ChunkState.PARSE_CHUNKED_SIZE:
        return "aligned-after-chunk-crlf" if not pp._chunk_tail else "mid-size-line"
    if st == ChunkState.PARSE_CHUNKED_CHUNK:
        return "mid-chunk-data"
    if st == ChunkState.PARSE_CHUNKED_CHUNK_EOF:
        return "after-chunk-data-before-crlf"
    return "in-trailers"


class Pipeline:
    """one message body on the real objects"""

    def __init__(self, loop, case):
        from aiohttp.base_protocol import BaseProtocol
        from aiohttp.client_proto import ResponseHandler
        from aiohttp.http_parser import HttpRequestParserPy, HttpResponseParserPy
        from aiohttp.http_exceptions import HttpProcessingError
        self.case = case
        self.loop = loop
        self.client = case["side"] == "client"
        self.tr = MemTransport()
        self.up = None
        limit = case["limit"]
        if self.client:
            proto = ResponseHandler(loop)
            proto.transport = self.tr
            proto.set_response_params(read_until_eof=True, read_bufsize=limit, auto_decompress=True)
            assert isinstance(proto._parser, HttpResponseParserPy)
        else:
            outer = self

            class Srv(BaseProtocol):
                def data_received(self, data):
                    if self._parser is None:
                        return
                    body_parser_alive = self._parser._payload_parser is not None
                    try:
                        msgs, _, _ = self._parser.feed_data(data)
                    except HttpProcessingError as e:
                        # only what the body's payload parser re-raised is in the model's scope; an error while parsing
                        # whatever follows the finished / failed body (next message) is not
                        if body_parser_alive or not outer.msgs:
                            outer.up = e
                        return
                    outer.msgs.extend(msgs)
            proto = Srv(loop)
            proto.transport = self.tr
            proto._parser = HttpRequestParserPy(proto, loop, limit)
        self.proto = proto
        self.msgs = []
        self.payload = None
        self.parser = proto._parser
        self.req = None
        self.req_coro = None
        self.req_fut = None
        self.parked_with_exc = None
        self.p_coro = None
        self.p_fut = None

    def start(self, head_and_first):
        """feed the header block (possibly with the first body bytes)"""
        self.proto.data_received(head_and_first)
        if self.client:
            buf = self.proto._buffer
            if not buf:
                return False
            msg, payload = buf[0]
        else:
            if not self.msgs:
                return False    # the first call raised before returning the message (malformed first chunk line)
            msg, payload = self.msgs[0]
        self.msg, self.payload = msg, payload
        return True

    # -- ops ---------------------------------------------------------------------------
    def deliver(self, seg):
        if self.tr.paused or self.proto.transport is None:
            return "skip"
        self.proto.data_received(seg)
        return "-"

    def close(self):
        if self.proto.transport is None:
            return "skip"
        self.proto.connection_lost(None)
        return "-"

    def attempt(self, coro):
        try:
            coro.send(None)
        except StopIteration as e:
            return "d=" + hx(e.value)
        except Exception as e:
            return "e=" + err_name(e)
        coro.close()
        return "blk"

    def read(self, n):
        return self.attempt(self.payload.read(n))

    def readany(self):
        return self.attempt(self.payload.readany())

    def set_chunk(self, n):
        self.payload.set_read_chunk_size(n)
        return "-"

    def req_read(self, cms, use_post, api=None):
        if self.req is None:
            from aiohttp.web_request import BaseRequest
            from unittest import mock
            self.req = BaseRequest(self.msg, self.payload, mock.Mock(), mock.Mock(), mock.Mock(), self.loop,
                                   client_max_size=cms)
        if self.req_coro is None:
            api = api or ("post" if use_post else "read")
            self.req_coro = {"read": self.req.read, "post": self.req.post, "text": self.req.text, "json": self.req.json}[api]()
            self.req_post = api != "read"       # post()/text()/json() go through read(); the bytes are in _read_bytes
        elif self.req_fut is not None and not self.req_fut.done():
            return "blk"
        try:
            self.req_fut = self.req_coro.send(None)
        except StopIteration as e:
            self.req_coro = None
            body = self.req._read_bytes if self.req_post else e.value
            return "d=" + hx(body)
        except Exception as e:
            self.req_coro = None
            return "e=" + err_name(e)
        # parked (again): was the payload exception already set when the new waiter was created?
        self.parked_with_exc = self.payload._exception is not None
        return "blk"

    def pcall(self, kind, n=None):
        """a consumer coroutine that stays parked in StreamReader._wait(): read(n) / readany() / readline().
        Resumed only when its waiter is done; `blk` while it waits."""
        if self.p_coro is None:
            self.p_coro = {"PR": lambda: self.payload.read(n), "PA": self.payload.readany,
                           "PL": self.payload.readline}[kind]()
        elif self.p_fut is not None and not self.p_fut.done():
            return "blk"
        try:
            self.p_fut = self.p_coro.send(None)
        except StopIteration as e:
            self.p_coro = None
            return "d=" + hx(e.value)
        except Exception as e:
            self.p_coro = None
            return "e=" + err_name(e)
        self.parked_with_exc = self.payload._exception is not None
        return "blk"

    def state(self):
        p, proto = self.payload, self.proto
        parser = proto._parser
        pp = parser._payload_parser if parser is not None else None
        b = lambda x: "1" if x else "0"
        return (f"{p._size}/{b(self.tr.paused)}{b(proto._reading_paused)}{b(pp is not None and pp._paused)}"
                f"{b(parser is not None and parser._payload_has_more_data)}{b(p._eof)}{b(pp is not None)}/{p.total_bytes}")


# ------------------------------------------------------------------------------------ cases
def chunk_encode(rng, body, style):
    """plain chunked framing of `body`; returns (wire, boundaries)"""
    out = bytearray()
    i = 0
    n = len(body)
    while i < n:
        if style == "tiny":
            k = rng.choice([1, 1, 2, 3])
        elif style == "one":
            k = n
        else:
            k = rng.choice([1, 2, 5, 17, 64, 300, 5000])
        k = min(k, n - i)
        size = ("%x" % k) if rng.random() < 0.8 else ("%X" % k).rjust(rng.choice([1, 3]), "0")
        ext = b";a=b" if rng.random() < 0.08 else b""
        out += size.encode() + ext + b"\r\n" + body[i:i + k] + b"\r\n"
        i += k
    out += b"0\r\n"
    if rng.random() < 0.15:
        out += b"X-Trailer: v\r\n"
    out += b"\r\n"
    return bytes(out)


def make_payload(rng, limit, shape, quick):
    cap = 280_000 if quick else 1_000_000
    base = max(limit, 4)
    if shape == "bomb":
        n = min(rng.choice([6, 12, 40]) * base + rng.randrange(3), cap)
        b = rng.randrange(255)
        return bytes([b + 1 if b >= 10 else b]) * n      # never b"\n": a bomb of newlines is hundreds of thousands of readline() calls
    mult = rng.choice([0.4, 1.0, 1.9, 2.1, 3.2, 5.5])
    n = min(max(1, int(mult * base) + rng.randrange(-1, 2)), cap // 3)
    if shape == "text":
        words = [b"alpha", b"beta", b"gamma", b"\r\n", b"0\r\n\r\n", b"delta "]
        out = bytearray()
        while len(out) < n:
            out += rng.choice(words)
        return bytes(out[:n])
    return bytes(rng.randrange(256) for _ in range(min(n, 20000))) * (n // 20000 + 1) if n > 20000 else bytes(rng.randrange(256) for _ in range(n))


def make_body(rng, enc, limit, quick):
    """returns (encoded body bytes, shape tag)"""
    r = rng.random()
    if r < 0.25:
        shape = "bomb"
    elif r < 0.55:
        shape = "text"
    else:
        shape = "random"
    data = make_payload(rng, limit, shape, quick)
    if enc == "identity":
        return data, shape
    multi = enc in ("gzip", "deflate", "rawdeflate", "zstd") and rng.random() < 0.3
    if multi:
        parts = []
        if rng.random() < 0.5 and limit <= 16384:
            # member sizes equal to / dividing / multiples of / one off the read-buffer limit: the output budget of one
            # decode step (max(limit, low_water)) runs out exactly at (or right next to) a member boundary
            sizes = [limit, max(1, limit // 2), 2 * limit, limit + 1, max(1, limit - 1)]
            pos = 0
            src = data * (8 * limit // max(1, len(data)) + 2)
            for _ in range(rng.randint(2, 4)):
                n = rng.choice(sizes)
                parts.append(src[pos:pos + n]); pos += n
            shape += "+aligned"
        else:
            k = rng.randint(2, 4)
            cuts = sorted(rng.randrange(len(data) + 1) for _ in range(k - 1))
            prev = 0
            for cpos in cuts + [len(data)]:
                parts.append(data[prev:cpos]); prev = cpos
        if rng.random() < 0.4:
            parts.insert(rng.randrange(len(parts) + 1), b"")      # an empty member
        body = b"".join(compress(enc, p, rng.choice([1, 6, 9])) for p in parts)
        shape += "+multi"
    else:
        body = compress(enc, data, rng.choice([1, 6, 9]))
    r = rng.random()
    if r < 0.10 and len(body) > 2:
        body = body[: rng.randrange(1, len(body))]
        shape += "+trunc"
    elif r < 0.14 and len(body) > 12:
        body = body[: len(body) - rng.choice([1, 4, 8])]
        shape += "+trunc"
    elif r < 0.24:
        i = rng.randrange(len(body))
        body = body[:i] + bytes([body[i] ^ (1 << rng.randrange(8))]) + body[i + 1:]
        shape += "+flip"
    elif r < 0.27:
        body = body + b"\x00garbage"
        shape += "+trailing"
    return body, shape


def segment(rng, wire, style):
    n = len(wire)
    if style == "whole" or n <= 1:
        return [wire]
    if style == "bytes":
        return [wire[i:i + 1] for i in range(n)]
    k = rng.randint(1, min(8, n - 1))
    cuts = sorted(set(rng.randrange(1, n) for _ in range(k)))
    out, prev = [], 0
    for c in cuts + [n]:
        out.append(wire[prev:c]); prev = c
    return out


def gen_case(rng, quick, encs):
    side = "client" if rng.random() < 0.6 else "server"
    enc = rng.choice(encs) if rng.random() < 0.85 else "identity"
    limit = rng.choice(LIMITS)
    framing = rng.choice(["L", "C", "E"] if side == "client" else ["L", "C"])
    body, shape = make_body(rng, enc, limit, quick)
    if not body:
        body = b"x" if enc == "identity" else body
    if framing == "C":
        style = rng.choice(["tiny", "one", "mixed", "mixed"])
        if style == "tiny" and len(body) > 400:
            style = "mixed"
        wire = chunk_encode(rng, body, style)
        if rng.random() < 0.04:
            i = rng.randrange(len(wire))
            wire = wire[:i] + rng.choice([b"\n", b"z", b";"]) + wire[i + 1:]
            shape += "+badchunk"
    else:
        wire = body
    seg_style = rng.choice(["whole", "bytes", "cuts", "cuts", "cuts"]) if len(wire) < 500 else rng.choice(["whole", "cuts", "cuts"])
    if framing == "C" and rng.random() < 0.3:
        # chunk-aligned segmentation (one chunk per write, like aiohttp's own writer)
        segs, cur = [], bytearray()
        for line in wire.split(b"\r\n"):
            cur += line + b"\r\n"
            if len(cur) > 8:
                segs.append(bytes(cur)); cur = bytearray()
        segs.append(bytes(cur))
        joined = b"".join(segs)
        segs = [s for s in segs if s]
        if joined[: len(wire)] == wire:
            extra = len(joined) - len(wire)
            if extra:
                segs[-1] = segs[-1][:-extra] if len(segs[-1]) > extra else segs[-1]
            if b"".join(segs) != wire:
                segs = segment(rng, wire, "cuts")
        else:
            segs = segment(rng, wire, "cuts")
    else:
        segs = segment(rng, wire, seg_style)
    segs = [s for s in segs if s]
    merge_head = rng.random() < 0.5
    # consumer schedule
    sizes = [1, 2, 3, 7, max(1, limit - 1), limit, limit + 1, 2 * limit + 1, 10000]
    ops = []
    mode = rng.choice(["lazy", "eager", "mixed", "mixed", "req"] if side == "server" else ["lazy", "eager", "mixed", "mixed", "readall"])
    nseg = len(segs)
    use_post = False
    cms = 0
    pop = None
    if rng.random() < 0.22:
        # a consumer coroutine that stays parked in _wait() and is resumed when its waiter is done
        mode = "parked"
        psizes = [max(1, limit // 2), max(1, limit - 1), limit, limit + 1, 2 * limit + 1] + ([1, 2, 3] if limit <= 16 else [])
        pop = rng.choice([["PR", rng.choice(psizes)], ["PR", rng.choice(psizes)], ["PA"], ["PL"], ["PL"]])
        if pop == ["PL"] and shape.startswith("text") and limit > 1024:
            pop = ["PA"]          # tens of thousands of short lines: nothing new per line, only slow
    if mode == "req":
        declen = len(body)
        cms = rng.choice([0, 1, max(1, declen // 2), declen, declen + 1, 4 * declen + 5, 1024 ** 2])
        use_post = rng.random() < 0.3 and shape == "text"
    if mode == "readall":
        ops.append(["S", MAXSIZE])
    pd = {"lazy": 0.85, "eager": 0.3, "mixed": 0.55, "req": 0.6, "readall": 0.5, "parked": rng.choice([0.3, 0.6, 0.85])}[mode]
    budget = nseg * 2 + 12
    closed = False
    while budget > 0:
        budget -= 1
        r = rng.random()
        if r < pd:
            ops.append(["D"])
        elif mode == "req":
            ops.append(["Q", cms])
        elif mode == "parked":
            ops.append(pop)
        elif mode == "readall" or r > 0.93:
            ops.append(["A"])
        elif r > 0.9:
            ops.append(["S", rng.choice(sizes)])
        else:
            ops.append(["R", rng.choice(sizes)] if rng.random() < 0.7 else ["A"])
    close_early = side == "client" and rng.random() < 0.12
    ce_variant = "lower"
    if enc != "identity" and "+" not in shape.replace("+multi", "").replace("+aligned", "") and rng.random() < 0.06:
        ce_variant = rng.choice(["upper", "title"])
    return {"pop": pop, "ce_variant": ce_variant, "side": side, "enc": enc, "limit": limit, "framing": framing, "body": hx(body), "wire_segs": [hx(s) for s in segs],
            "merge_head": merge_head, "ops": ops, "shape": shape, "cms": cms, "post": use_post, "mode": mode,
            "close_after_wire": (side == "client" and (framing == "E" or rng.random() < 0.35)), "close_early": close_early}


def coding_value(case):
    """the Content-Encoding value as sent: content codings are case-insensitive (RFC 9110 8.4.1)"""
    he = header_encoding(case["enc"])
    v = case.get("ce_variant", "lower")
    if he is None:
        return None
    return {"lower": he, "upper": he.upper(), "title": he.title(), "ows": " \t" + he + " \t"}[v]


def head_bytes(case, wire_len):
    he = coding_value(case)
    lines = []
    if case["side"] == "client":
        lines.append(b"HTTP/1.1 200 OK")
    else:
        lines.append(b"POST /p HTTP/1.1")
        lines.append(b"Host: a")
        if case.get("post"):
            lines.append(b"Content-Type: application/x-www-form-urlencoded")
        elif case.get("reqapi") == "json":
            lines.append(b"Content-Type: application/json")
    if he:
        lines.append(b"Content-Encoding: " + he.encode())
    if case["framing"] == "L":
        lines.append(b"Content-Length: %d" % wire_len)
    elif case["framing"] == "C":
        lines.append(b"Transfer-Encoding: chunked")
    return b"\r\n".join(lines) + b"\r\n\r\n"


def run_case(case, max_ops=40000):
    """execute the case on the real objects. returns dict(trace, line, info)"""
    install_patches()
    rec = Recorder()
    Recorder.current = rec
    loop = asyncio.new_event_loop()
    try:
        return _run_case(case, loop, rec, max_ops)
    finally:
        Recorder.current = None
        loop.close()


def scenario_budgets(case, wire, body):
    """explicit per-scenario guards: how much the real pipeline may do for this body before the harness stops it"""
    ref = reference_decode(case["enc"], body)
    if ref[0] == "ok":
        ref_len = len(ref[1])
    elif ref[0] == "incomplete":
        ref_len = len(ref[1]) + 65536
    else:
        ref_len = None
    if ref_len is None or "+badchunk" in case.get("shape", ""):
        # corrupt stream (or damaged chunk framing: `body` is then not what the decoder gets): a streaming decoder
        # legitimately delivers what precedes the corruption and a forged zstd/brotli header can announce any size,
        # so only an absolute cap applies (it still stops a runaway)
        ref_len = max(1100 * len(wire) + 65536, 32 << 20)
    slack = 2 * brotli_call_max(max(case["limit"], 65536)) if case["enc"] == "br" else 0
    return {"ref_len": ref_len,
            "max_out_total": 2 * ref_len + slack + 4096,
            "max_pending": 2 * len(wire) + 4096,
            "max_calls": min(4 * ref_len + 8 * len(wire) + 2000, 2_000_000),
            "max_delivered": ref_len + slack + 64,
            "max_ops": min(4 * ref_len + 8 * len(wire) + 4 * len(case["ops"]) + 400, 400_000)}


def _run_case(case, loop, rec, max_ops):
    segs = [unhx(s) for s in case["wire_segs"]]
    wire = b"".join(segs)
    body = unhx(case["body"])
    bud = scenario_budgets(case, wire, body)
    rec.max_calls, rec.max_out_total, rec.max_pending = bud["max_calls"], bud["max_out_total"], bud["max_pending"]
    max_ops = min(max_ops, bud["max_ops"])
    runaway = [None]
    p = Pipeline(loop, case)
    head = head_bytes(case, len(wire))
    queue = list(segs)
    toks, trace = [], []
    if case["merge_head"] and queue:
        first = queue.pop(0)
        if not p.start(head + first):
            return None
        toks.append("D:" + hx(first))
        trace.append("-/" + p.state())
    else:
        if not p.start(head):
            return None
    if p.payload is None or type(p.payload).__name__ != "StreamReader":
        return None
    delivered = bytearray()
    # client: the exception that left feed_data lands in the DataQueue WITHOUT its cause; its kind is visible on
    # the payload, which set_exception() reaches first in the same call.  Track the latest re-raised kind op by op
    # (a later swallowed error, e.g. ContentEncodingError, overwrites the payload exception but is not re-raised).
    upkind, last_pe = ["-"], [None]

    def note_up():
        if not p.client:
            return
        pe = p.payload._exception
        if pe is not None and pe is not last_pe[0]:
            last_pe[0] = pe
            k = err_name(pe)
            if k in ("E_TRANSFER_ENCODING", "E_INVALID_HEADER") and p.proto.exception() is not None:
                upkind[0] = k
    note_up()
    # a pause request that survives the call which received it (parser returned NEEDS_INPUT, nothing pending):
    # remember where in the framing that call stopped -- it identifies the stale-pause scenario if a stall follows
    stale_birth = [None]
    more_at_close = [None]
    line_taken, line_resumed, line_peak = [0], [False], [0]
    # back-pressure: while the body is not over and the protocol still has its transport and parser, a reader above its
    # high-water mark keeps the transport paused (the pause asked for when the mark was crossed stays until a read brings
    # the buffer below low water) -- otherwise nothing stops the peer from growing the buffer
    no_backpressure = [None]

    def note_backpressure(tok):
        pl, proto = p.payload, p.proto
        if (no_backpressure[0] is None and pl._size > pl._high_water and not pl._eof and pl._exception is None
                and proto.transport is not None and proto._parser is not None and not p.tr.paused):
            no_backpressure[0] = (f"after {tok[:24]}: {pl._size} bytes buffered > high water {pl._high_water}, body not finished, "
                                  f"transport NOT paused (protocol._reading_paused={proto._reading_paused}, parser has pending "
                                  f"input={bool(proto._parser._payload_has_more_data)})")
    early_empty = [None]

    def note_stale():
        parser = p.proto._parser
        pp = parser._payload_parser if parser is not None else None
        if pp is not None and pp._paused and not parser._payload_has_more_data:
            stale_birth[0] = align_class(pp)
    note_stale()
    final = None           # ("eof",) | ("err", name) | ("stuck", why)
    closed = False
    req_result = None

    def do(op):
        nonlocal final
        if final is not None:
            return False
        try:
            return do_(op)
        except Runaway as r:
            runaway[0] = (r.kind, r.detail)
            final = ("runaway", r.kind)
            return False

    def do_(op):
        nonlocal closed, final, req_result
        k = op[0]
        if k == "D":
            if not queue:
                return False
            if p.tr.paused or p.proto.transport is None:
                toks.append("D:" + hx(queue[0]))
                out = p.deliver(queue[0])
                assert out == "skip"
            else:
                seg = queue.pop(0)
                toks.append("D:" + hx(seg))
                out = p.deliver(seg)
        elif k == "X":
            parser = p.proto._parser
            more_at_close[0] = bool(parser is not None and parser._payload_has_more_data)
            toks.append("X"); out = p.close(); closed = True
        elif k == "R":
            toks.append(f"R:{op[1]}"); out = p.read(op[1])
        elif k == "A":
            toks.append("A"); out = p.readany()
        elif k == "S":
            toks.append(f"S:{op[1]}"); out = p.set_chunk(op[1])
        elif k == "Q":
            toks.append(f"Q:{op[1]}"); out = p.req_read(op[1], case.get("post", False), case.get("reqapi"))
        elif k in ("PR", "PA", "PL"):
            toks.append(f"PR:{op[1]}" if k == "PR" else k)
            cur0 = p.payload._cursor
            out = p.pcall(k, op[1] if k == "PR" else None)
            if k == "PL":
                # what ONE readline() call took out of the reader (its local `chunk`): the memory it holds
                line_taken[0] = (line_taken[0] if line_resumed[0] else 0) + (p.payload._cursor - cur0)
                line_resumed[0] = out == "blk"
                if line_taken[0] > line_peak[0]:
                    line_peak[0] = line_taken[0]
        else:
            raise ValueError(op)
        trace.append(out + "/" + p.state())
        if k != "X" and not closed:
            note_up()
            note_stale()
        note_backpressure(toks[-1])
        if k in ("R", "A"):
            if out.startswith("d="):
                d = unhx(out[2:])
                delivered.extend(d)
                if not d and (k == "A" or op[1] > 0):
                    final = ("eof",)
            elif out.startswith("e="):
                final = ("err", out[2:])
        if k in ("PR", "PA", "PL"):
            if out.startswith("d="):
                d = unhx(out[2:])
                delivered.extend(d)
                if not d:
                    final = ("eof",)
                    if not p.payload.is_eof():
                        early_empty[0] = f"{toks[-1]} returned b'' after {len(delivered)} bytes although feed_eof() has not happened"
            elif out.startswith("e="):
                final = ("err", out[2:])
        if k == "Q":
            if out.startswith("d="):
                req_result = ("ok", unhx(out[2:])); final = ("eof",)
                delivered[:] = unhx(out[2:])
            elif out.startswith("e="):
                req_result = ("err", out[2:]); final = ("err", out[2:])
        if final is None and len(delivered) > bud["max_delivered"]:
            runaway[0] = ("delivered-exceeds-reference", f"{len(delivered)} bytes delivered, the reference decoding has {bud['ref_len']}")
            final = ("runaway", "delivered-exceeds-reference")
        return True

    for op in case["ops"]:
        if final is not None:
            break
        if case.get("close_early") and not queue and not closed:
            do(["X"])
        do(op)
    # drain phase: the consumer keeps reading, the peer has sent everything
    reader = ["Q", case["cms"]] if case["mode"] == "req" else (case["pop"] if case["mode"] == "parked" else ["A"])
    idle = 0
    n_ops = 0
    while final is None and n_ops < max_ops:
        n_ops += 1
        progressed = False
        if queue and not p.tr.paused and p.proto.transport is not None:
            do(["D"]); progressed = True
        elif not queue and case.get("close_after_wire") and not closed:
            do(["X"]); progressed = True
        do(reader)
        if final is not None:
            break
        out = trace[-1].split("/")[0] if trace else "blk"
        if out != "blk":
            progressed = True
        if not progressed:
            idle += 1
            if idle >= 2:
                final = ("stuck", "queue" if queue else "blocked")
                break
        else:
            idle = 0
    if final is None:
        final = ("runaway", "op-budget")
        runaway[0] = ("op-budget", f"{len(trace)} operations without reaching end-of-body or an error (budget {max_ops})")
    # oracle columns of the model: what the code under test decided -- DeflateBuffer compares `msg.compression` (as the real
    # parser reported it for this very message) with "deflate" for the raw-deflate sniff and the eof check
    he = getattr(p.msg, "compression", None)
    fr = {"L": f"L{len(wire)}", "C": "C", "E": "E"}[case["framing"]]
    lax = 1 if (case["side"] == "client") else 0
    ks = []
    for (i, m, o, a, e) in rec.calls:
        ks.append(f"K:{hx(i)}:{m}:{'!' if o is None else hx(o)}:{1 if a else 0}:{1 if e else 0}")
    mt = 128 - 2 - (1 if he else 0) - (0 if case["framing"] == "E" else 1)
    if case["side"] == "server":
        mt = 128 - 4 - (1 if he else 0) - (1 if (case.get("post") or case.get("reqapi") == "json") else 0)
    line = (f"run {lax} {case['limit']} {fr} {1 if he else 0} {1 if he == 'deflate' else 0} {1 if he == 'deflate' else 0} {mt} "
            + " ".join(ks + toks))
    pstate = p.payload
    upname = upkind[0]
    if not p.client and p.up is not None:
        k = err_name(p.up)
        upname = k if k in ("E_TRANSFER_ENCODING", "E_INVALID_HEADER") else "-"
    left = 1 if (rec.calls and rec.calls[-1][2] is None) else 0
    impl = " ".join(trace) + f" peak={rec.peak} up={upname} left={left}"
    info = {"final": final, "delivered": bytes(delivered), "peak": rec.peak, "low": pstate._low_water, "high": pstate._high_water,
            "wire_left": len(queue), "closed": closed, "req": req_result, "calls": rec.calls,
            "has_more": bool(p.parser._payload_has_more_data) if p.proto._parser is not None else None,
            "tr_paused": p.tr.paused, "size": pstate._size, "n_ops": len(trace),
            "exc_pending": None if pstate._exception is None else err_name(pstate._exception),
            "stale_class": stale_birth[0] or "no-surviving-pause-flag-seen", "more_at_close": more_at_close[0],
            "parked_with_exc": p.parked_with_exc, "runaway": runaway[0], "compression": getattr(p.msg, "compression", None),
            "line_peak": line_peak[0], "early_empty": early_empty[0], "no_backpressure": no_backpressure[0]}
    return {"line": line, "impl": impl, "info": info}


# ------------------------------------------------------------------------------------ direct oracle
def oracle(ctx, case, info):
    """the property, judged on the implementation's observable behaviour alone"""
    enc = case["enc"]
    body = unhx(case["body"])
    ref = reference_decode(enc, body)
    final = info["final"]
    delivered = info["delivered"]
    wire_ok = "+badchunk" not in case["shape"]
    complete_on_wire = info["wire_left"] == 0 or final[0] != "stuck"
    limit = case["limit"]
    c = {k: case[k] for k in case}
    # --- content codings are case-insensitive: `Content-Encoding: GZIP` must decode like `gzip`
    if case.get("ce_variant", "lower") != "lower" and info.get("compression") != header_encoding(enc):
        # the parser handed the spelling as sent to DeflateBuffer (code before the repair): wrong decoder
        fam = header_encoding(enc)
        good = ref[0] == "ok" and ((final == ("eof",) and delivered == ref[1]) or
                                   (final[0] == "stuck" and case["framing"] == "E" and not info["closed"]))
        if ref[0] == "ok" and not good and case["mode"] != "req":
            ctx.violation("C09/valid-body-rejected/content-coding-not-lowercase", c,
                          f"Content-Encoding: {coding_value(case)} ({fam} body, valid): {final!r} after {len(delivered)} of "
                          f"{len(ref[1])} bytes -- the value is matched case-insensitively but the decoder is chosen by exact "
                          f"comparison, so the zlib decoder is used")
        return
    # --- per-scenario guards of the harness (the pipeline was stopped instead of being allowed to run away)
    if info.get("runaway"):
        kind, detail = info["runaway"]
        sig = {"pending-input-grows": "C09/memory/pending-input-grows",
               "decoded-exceeds-reference": "C09/not-transparent/decoded-output-exceeds-reference",
               "delivered-exceeds-reference": "C09/not-transparent/delivered-exceeds-reference",
               "decoder-call-budget": "C09/no-progress/decoder-call-budget-exhausted",
               "op-budget": "C09/no-progress/op-budget-exhausted"}.get(kind, "C09/no-progress/" + kind)
        ctx.violation(sig, c, detail)
        return
    # --- b"" from read(n) / readany() / readline() means end-of-body and nothing else
    if info.get("early_empty"):
        ctx.violation("C09/not-transparent/read-returned-empty-before-end-of-body", c, info["early_empty"])
    # --- transparency / corrupt-is-error
    if wire_ok and case["mode"] != "req":
        if ref[0] == "ok":
            if not ref[1].startswith(delivered):
                ctx.violation("C09/not-transparent/delivered-bytes-differ", c,
                              f"delivered {len(delivered)} bytes are not a prefix of the reference decode ({len(ref[1])} bytes)")
            elif final == ("eof",) and delivered != ref[1]:
                ctx.violation("C09/not-transparent/short-body-clean-eof", c,
                              f"clean end-of-body after {len(delivered)} of {len(ref[1])} bytes")
        else:
            if final == ("eof",):
                fam = header_encoding(enc)
                kind = f"incomplete-{fam}-stream-clean-eof" if ref[0] == "incomplete" else f"invalid-{fam}-stream-clean-eof"
                if fam == "zstd" and ref[0] == "invalid" and zstd_library_accepts_bytewise(body):
                    # not aiohttp's doing: the zstd library itself accepts this corrupt stream when it is fed in pieces
                    kind = "invalid-zstd-stream-accepted-by-libzstd-when-segmented"
                ctx.violation(f"C09/corrupt-delivered/{kind}", c,
                              f"reference decoder reports the {enc} stream as {ref[0]}, the consumer saw a clean end-of-body "
                              f"after {len(delivered)} bytes")
    # --- an error that is pending on the stream must reach a consumer that keeps reading
    if final[0] == "stuck" and info.get("exc_pending") and info.get("parked_with_exc") and case.get("pop") == ["PL"]:
        # readuntil() took buffers, that refilled the reader re-entrantly (resume_reading -> data_received(b"")), the parser
        # failed and set the exception while the coroutine was RUNNING; the loop then calls _wait(), which parks without
        # looking at _exception (the repaired _wait only re-checks after a wake-up)
        ctx.violation("C09/error-not-reported/readline-parks-after-exception-set-during-its-own-read", c,
                      f"payload exception {info['exc_pending']} was set while readline() was taking buffers; it then parked in "
                      f"_wait() and stays parked forever")
    elif final[0] == "stuck" and info.get("exc_pending"):
        if info.get("parked_with_exc"):
            # the known scenario: the waiter was completed WITHOUT data (chunk end), the exception was set while no
            # waiter was registered, the resumed coroutine re-parked without looking at _exception
            ctx.violation("C09/error-not-reported/parked-reader-misses-exception", c,
                          f"payload exception {info['exc_pending']} is set, the consumer that keeps reading stays parked forever "
                          f"(it re-parked after the exception was set)")
        else:
            ctx.violation("C09/error-not-reported/exception-set-while-parked-not-delivered", c,
                          f"payload exception {info['exc_pending']} was set while the reader was parked on a waiter and the waiter "
                          f"was never failed: the consumer stays parked forever")
    # --- progress
    elif wire_ok and ref[0] == "ok" and (info["wire_left"] == 0 or final[0] == "stuck" or
                                         (final[0] == "err" and not info["closed"])):
        # (an error out of a read on a valid body is wrong at any point of the delivery, not only once everything arrived)
        if final[0] == "stuck":
            fr = {"L": "length", "C": "chunked", "E": "until-eof"}[case["framing"]]
            if info["closed"]:
                sig = ("C09/lost-body/peer-close-while-decoder-pending" if info.get("more_at_close")
                       else "C09/lost-body/peer-close-nothing-pending-no-eof")
            elif info["has_more"] and not info["tr_paused"]:
                # which call left the pause flag behind decides WHICH defect this is: the unchanged tree does it only
                # when that call stopped between chunks (after the data, after the CRLF, inside the next size line)
                sig = f"C09/no-progress/stale-parser-pause-pending-input/{fr}/{info.get('stale_class')}"
            elif info["tr_paused"]:
                sig = "C09/no-progress/transport-left-paused"
            else:
                sig = "C09/no-progress/reader-blocked-body-complete"
            if case["framing"] == "E" and not info["closed"]:
                sig = None    # close-delimited body: end is only known at close
            if sig:
                ctx.violation(sig, c, f"consumer keeps reading, complete body delivered to the transport, read never reaches "
                                      f"end-of-body ({final[1]}; {len(delivered)} bytes so far; has_more={info['has_more']}, "
                                      f"transport paused={info['tr_paused']})")
        elif final[0] == "err":
            if final[1] == "E_TRANSFER_ENCODING" and info["closed"] and case["framing"] == "C" and info.get("more_at_close"):
                ctx.violation("C09/lost-body/peer-close-while-chunk-input-pending", c,
                              f"valid complete chunked body, peer closed after the last byte while the paused parser still "
                              f"held unparsed input: read raised TransferEncodingError after {len(delivered)} bytes")
            elif final[1] == "E_CONN_CLOSED" and info.get("more_at_close"):
                ctx.violation("C09/lost-body/peer-close-while-decoder-pending", c,
                              f"valid complete body, peer closed after the last byte: read raised RuntimeError('Connection "
                              f"closed.') after {len(delivered)} bytes")
            elif final[1] == "E_TOO_LARGE":
                pass
            elif final[1] == "E_CONTENT_ENCODING" and count_members(enc, body) > 1024:
                # compression_utils.MAX_DECOMPRESS_MEMBERS caps the members decoded in ONE decompress call, so whether a
                # valid body of more than 1024 small members is accepted depends on how it was cut into reads
                ctx.violation("C09/valid-body-rejected/more-than-1024-members-in-one-read", c,
                              f"valid {enc} body of {count_members(enc, body)} concatenated members rejected with ContentEncodingError "
                              f"(TooManyMembersError: the 1024-member cap is per decompress call; the same body is accepted when "
                              f"it arrives in smaller reads)")
            elif final[1] == "E_LINE_TOO_LONG" and case.get("pop") == ["PL"] and \
                    len((ref[1][len(delivered):].split(b"\n", 1)[0])) + 1 > info["high"]:
                pass    # readline() on a body whose next line is longer than max_size (= high water): LineTooLong is the contract
            else:
                ctx.violation("C09/valid-body-rejected/" + final[1], c, f"valid complete body reported as {final[1]}")
    # --- back-pressure must be on whenever the reader is above its high-water mark
    if info.get("no_backpressure"):
        ctx.violation("C09/memory/transport-reading-above-high-water", c, info["no_backpressure"])
    # --- server side: request.read()/post()/text()/json() with a client_max_size must keep the decoder capped and the flow
    #     control on: decoded bytes resident in the StreamReader stay within high water + one decode step of the RAISED limit
    #     max(client_max_size, read_bufsize), i.e. 3x -- whatever the compression ratio (413 comes after at most that much)
    if case["mode"] == "req" and case["cms"] and header_encoding(enc):
        basev = max(case["cms"], limit)
        allowed = 3 * basev if enc != "br" else 2 * basev + 2 * brotli_call_max(basev)
        if info["peak"] > allowed:
            ctx.violation("C09/memory/request-read-resident-exceeds-client-max-size-bound", c,
                          f"peak of {info['peak']} decoded bytes resident in the StreamReader during request."
                          f"{case.get('reqapi') or ('post' if case.get('post') else 'read')}() with client_max_size={case['cms']}, "
                          f"read_bufsize={limit} (bound 3*max = {3 * basev}; low water after the call: {info['low']})")
    # --- resident bound
    if header_encoding(enc) and info["low"] < MAXSIZE:
        bound = info["high"] + 2 * max(limit, info["low"])
        if info["peak"] > bound:
            per_call_ok = all(o is None or m == 0 or len(o) <= brotli_call_max(m) for (_i, m, o, _a, _e) in info["calls"])
            if enc == "br" and info["peak"] <= info["high"] + 2 * brotli_call_max(max(limit, info["low"])) and per_call_ok:
                ctx.violation("C09/memory/brotli-overshoots-max-length", c,
                              f"peak buffered {info['peak']} > high_water {info['high']} + 2*max(limit, low_water) = {bound}: "
                              f"brotli returns whole output blocks (32 KiB, 64 KiB, ... up to 2*max_length + 32 KiB per call) whatever max_length says")
            else:
                ctx.violation("C09/memory/decoded-resident-exceeds-bound", c,
                              f"peak buffered {info['peak']} > high_water {info['high']} + 2*max(limit, low_water) = {bound}")
    # --- one readline() call holds at most max_size (= high water) plus the buffer that tipped it over
    if case.get("pop") == ["PL"] and info["low"] < MAXSIZE:
        if header_encoding(enc):
            step = max(limit, info["low"])
            if enc == "br":
                step = brotli_call_max(step)
        else:
            step = max([len(x) // 2 for x in case["wire_segs"]] + [1])
        lbound = info["high"] + step
        if info.get("line_peak", 0) > lbound:
            ctx.violation("C09/memory/readline-collects-beyond-max-size", c,
                          f"one readline() call took {info['line_peak']} bytes out of the reader before returning or raising; "
                          f"max_size (high water) is {info['high']}, one buffer is at most {step}")
    # --- client_max_size
    if case["mode"] == "req" and info["req"] is not None and case["cms"]:
        cms = case["cms"]
        if info["req"][0] == "ok" and len(info["req"][1]) > cms:
            ctx.violation("C09/client-max-size/read-returned-more", c, f"read() returned {len(info['req'][1])} > client_max_size {cms}")
        if info["req"][0] == "ok" and wire_ok and ref[0] == "ok" and info["req"][1] != ref[1]:
            ctx.violation("C09/not-transparent/request-read-differs", c, "BaseRequest.read() differs from the reference decode")
        if info["req"] == ("err", "E_TOO_LARGE") and ref[0] == "ok" and len(ref[1]) <= cms:
            ctx.violation("C09/client-max-size/rejected-within-limit", c, f"413 for a {len(ref[1])}-byte body, client_max_size {cms}")
        if info["req"][0] == "ok" and ref[0] == "ok" and len(ref[1]) > cms:
            ctx.violation("C09/client-max-size/accepted-over-limit", c, f"{len(ref[1])}-byte body accepted, client_max_size {cms}")


def count_members(enc, body):
    """number of concatenated members / frames of a valid gzip, zlib, raw-deflate or zstd body (0 if not applicable)"""
    try:
        if enc in ("gzip", "deflate", "rawdeflate"):
            wbits = 31 if enc == "gzip" else (15 if (body and body[0] & 0xF == 8) else -15)
            n, data = 0, body
            while data:
                d = zlib.decompressobj(wbits)
                d.decompress(data)
                if not d.eof:
                    return n
                n += 1
                data = d.unused_data
            return n
        if enc == "zstd":
            z = _zstd()
            n, data = 0, body
            while data:
                d = z.ZstdDecompressor()
                d.decompress(data)
                if not d.eof:
                    return n
                n += 1
                data = d.unused_data
            return n
    except Exception:
        pass
    return 0


def zstd_library_accepts_bytewise(body):
    """libzstd (through the python binding) misses some corruptions when the frame is fed in pieces: e.g. a frame whose
    header announces 1 content byte and whose last block is empty is rejected when fed whole and accepted (eof, no
    output) when fed in two or more pieces.  True if the frames of `body`, fed byte by byte to fresh decompressors of
    the LIBRARY ITSELF (no aiohttp code involved), all reach eof."""
    z = _zstd()
    data = body
    try:
        while data:
            d = z.ZstdDecompressor()
            i = 0
            while i < len(data) and not d.eof:
                d.decompress(data[i:i + 1]); i += 1
            if not d.eof:
                return False
            data = d.unused_data + data[i:]
        return True
    except z.ZstdError:
        return False


def _law_bounded(ctx, case, enc, n, m):
    if enc == "br" and n <= brotli_call_max(m):
        ctx.violation("C09/memory/brotli-overshoots-max-length", case, f"br: output {n} > max_length {m} (whole doubling blocks, <= 2*max_length + 32 KiB)")
    else:
        ctx.violation("C09/codec-law/bounded", case, f"{enc}: output {n} > max_length {m}")


def check_codec_laws(ctx, enc, body, rng):
    """Codec.Lawful on the real decompressor: bounded, progress, refines (prefix; equal when drained)"""
    from aiohttp import compression_utils as cu
    if enc == "identity":
        return
    ref = reference_decode(enc, body)
    he = header_encoding(enc)
    if he == "br":
        d = cu.BrotliDecompressor()
    elif he == "zstd":
        d = cu.ZSTDDecompressor()
    else:
        raw = he == "deflate" and body and body[0] & 0xF != 8
        d = cu.ZLibDecompressor(encoding=he, suppress_deflate_header=bool(raw))
    segs = segment(rng, body, rng.choice(["whole", "cuts", "cuts"]))
    out = bytearray()
    case = {"law": True, "enc": enc, "body": hx(body), "cuts": [len(x) for x in segs]}
    bud = scenario_budgets({"enc": enc, "limit": 65536, "ops": []}, body, body)

    def guards():
        """explicit guards: never let a decompressor that duplicates or hoards input run away under the harness"""
        if len(out) > bud["max_out_total"]:
            ctx.violation("C09/not-transparent/decoded-output-exceeds-reference", case,
                          f"{enc}: streaming decoder produced {len(out)} bytes, the reference decoding has {bud['ref_len']}")
            return True
        pend = pending_inside(d)
        if pend > bud["max_pending"]:
            ctx.violation("C09/memory/pending-input-grows", case,
                          f"{enc}: {pend} input bytes parked inside the decompressor for a {len(body)}-byte body")
            return True
        return False
    ms = []
    case["ms"] = ms
    try:
        for k, s in enumerate(segs):
            m = rng.choice([1, 3, 64, 1000, 65536, 0])
            if m and m * 4000 < len(body) * 50:
                m = 65536
            ms.append(m)
            o = d.decompress_sync(s, max_length=m)
            out += o
            if m and len(o) > m:
                _law_bounded(ctx, case, enc, len(o), m)
            if guards():
                return
            guard = 0
            while d.data_available:
                if not o and guard:
                    ctx.violation("C09/codec-law/progress", case, f"{enc}: data_available with empty output")
                    break
                o = d.decompress_sync(b"", max_length=m)
                out += o
                guard += 1
                if m and len(o) > m:
                    _law_bounded(ctx, case, enc, len(o), m)
                if guards():
                    return
                if guard > bud["max_calls"]:
                    ctx.violation("C09/no-progress/decoder-call-budget-exhausted", case,
                                  f"{enc}: {guard} decompress_sync(b'') calls with data_available still set")
                    return
    except Exception:
        ctx.hit("law:decoder-raised")
        if ref[0] == "ok":
            ctx.violation("C09/codec-law/refines", case, f"{enc}: streaming decoder raised on a stream the reference decodes")
        return
    if ref[0] == "ok":
        if bytes(out) != ref[1]:
            ctx.violation("C09/codec-law/refines", case, f"{enc}: streamed {len(out)} bytes != reference {len(ref[1])}")
        ctx.hit("law:ok")
    elif ref[0] == "incomplete":
        if not ref[1].startswith(bytes(out)) and not bytes(out).startswith(ref[1]):
            ctx.violation("C09/codec-law/refines", case, f"{enc}: streamed output is not comparable with the reference prefix")
        ctx.hit("law:incomplete")
    else:
        ctx.hit("law:invalid-not-raised")


# ------------------------------------------------------------------------------------ fixed scenarios (findings)
def finding_cases():
    zeros = gzip.compress(b"\0" * 1_000_000, mtime=0)
    f19 = {"side": "client", "enc": "gzip", "limit": 65536, "framing": "L", "body": hx(zeros), "wire_segs": [hx(zeros)],
           "merge_head": True, "ops": [], "shape": "bomb", "cms": 0, "post": False, "mode": "lazy",
           "close_after_wire": True, "close_early": True}
    stale = {"side": "client", "enc": "identity", "limit": 4, "framing": "C", "body": hx(b"X" * 9 + b"hello"),
             "wire_segs": [hx(b"9\r\n" + b"X" * 9 + b"\r\n"), hx(b"5\r\nhello\r\n0\r\n\r\n")],
             "merge_head": False, "ops": [["D"], ["A"]], "shape": "text", "cms": 0, "post": False, "mode": "mixed",
             "close_after_wire": False, "close_early": False}
    data = bytes(range(256)) * 20
    tr = gzip.compress(data, mtime=0)[:-20]
    trunc = {"side": "client", "enc": "gzip", "limit": 65536, "framing": "L", "body": hx(tr), "wire_segs": [hx(tr)],
             "merge_head": False, "ops": [], "shape": "random+trunc", "cms": 0, "post": False, "mode": "mixed",
             "close_after_wire": False, "close_early": False}
    gz = gzip.compress(b"hello", mtime=0)
    parked = {"side": "server", "enc": "gzip", "limit": 65536, "framing": "C", "body": hx(gz),
              "wire_segs": [hx(b"%x\r\n" % len(gz) + gz[:-4]), hx(gz[-4:] + b"\r\nZZ\r\n")],
              "merge_head": False, "ops": [["D"], ["Q", 0], ["D"]], "shape": "text+badchunk", "cms": 0, "post": False,
              "mode": "req", "close_after_wire": False, "close_early": False}
    out = [("F19", f19), ("stale-pause", stale), ("truncated", trunc), ("parked", parked)]
    wire = b"9\r\n" + b"X" * 9 + b"\r\n5\r\nhello\r\n0\r\n\r\n"
    out.append(("stale-pause-before-crlf", dict(stale, wire_segs=[hx(b"9\r\n" + b"X" * 9), hx(b"\r\n5\r\nhello\r\n0\r\n\r\n")])))
    out.append(("stale-pause-mid-size-line", dict(stale, wire_segs=[hx(b"9\r\n" + b"X" * 9 + b"\r\n5"), hx(b"\r\nhello\r\n0\r\n\r\n")])))
    # probe (passes on the unchanged tree): the pausing read ends in the middle of a chunk's data -- there the parser
    # does clear its pause flag before returning NEEDS_INPUT; a stall here is a different, unlisted violation
    out.append(("probe-pause-mid-chunk-data", dict(stale, wire_segs=[hx(b"e\r\n" + b"X" * 9), hx(b"hello\r\n0\r\n\r\n")])))
    out.append(("chunk-close", {"side": "client", "enc": "identity", "limit": 4, "framing": "C", "body": hx(b"X" * 9 + b"hello"),
                                "wire_segs": [hx(wire)], "merge_head": False, "ops": [], "shape": "text", "cms": 0, "post": False,
                                "mode": "mixed", "close_after_wire": True, "close_early": False}))
    for enc in ("br", "zstd"):
        if enc in available_encodings():
            t = compress(enc, data)[:-20]
            out.append(("truncated-" + enc, dict(trunc, enc=enc, body=hx(t), wire_segs=[hx(t)])))
    out.append(("coding-case", dict(trunc, body=hx(gzip.compress(data, mtime=0)), wire_segs=[hx(gzip.compress(data, mtime=0))],
                                    shape="random", ce_variant="upper")))
    # readline() parks after the parser failed during its own re-entrant refill (found by the thorough tier, kept verbatim)
    out.append(("readline-parks-after-exception", json.loads('{"pop": ["PL"], "ce_variant": "lower", "side": "server", "enc": "deflate", "limit": 5, "framing": "C", "body": "7801e3e5e2e54a4fcccd050005", "wire_segs": ["3030330d0a7801e30d0a313b613d620d0ae50d0a310d0ae20d0a330d0ae54a4f0d0a320d0acccd0d0a310d0a050d0a310d0a000d0a310d0a050d0a300d0a0d0a"], "merge_head": true, "ops": [["D"], ["D"], ["D"], ["D"], ["PL"], ["D"], ["D"], ["D"], ["PL"], ["D"], ["D"], ["PL"], ["PL"], ["D"]], "shape": "text+trunc", "cms": 0, "post": false, "mode": "parked", "close_after_wire": false, "close_early": false}')))
    many = b"".join(compress("gzip", b"a") for _ in range(1025))
    out.append(("too-many-members", dict(trunc, body=hx(many), wire_segs=[hx(many)], shape="text+multi")))
    if "zstd" in available_encodings():
        # frame 1 announces 1 content byte but its last (raw) block is empty; frame 2 is valid ("5")
        zb = bytes.fromhex("28b52ffd2001010000" + "28b52ffd200109000035")
        out.append(("zstd-libzstd-segmented", dict(trunc, enc="zstd", limit=1024, body=hx(zb), wire_segs=[hx(zb[:5]), hx(zb[5:])],
                                                   shape="random+multi+flip")))
    if "br" in available_encodings():
        b = compress("br", b"a" * 640)
        out.append(("br-overshoot", dict(trunc, enc="br", limit=16, body=hx(b), wire_segs=[hx(b)], shape="bomb")))
    return out


def probe_cases():
    """deterministic scenarios aimed at one mechanism each; all pass on the unchanged tree (run before the random cases, so
    they are covered even when a cold build eats the time budget)"""
    out = []
    base = {"merge_head": False, "ops": [], "cms": 0, "post": False, "mode": "mixed", "close_after_wire": False,
            "close_early": False, "ce_variant": "lower", "pop": None}
    text = (b"The quick brown fox jumps over the lazy dog. " * 8)[:300]
    # (a) first-byte sniff of a `deflate` body: raw and zlib-wrapped x chunked x every single cut of the first 40 wire bytes
    #     (the cut right after the first chunk-size line makes the chunked parser call payload.feed_data(b"") first)
    for enc in ("rawdeflate", "deflate"):
        body = compress(enc, text)
        half = len(body) // 2
        wire = b"%x\r\n" % half + body[:half] + b"\r\n%x\r\n" % (len(body) - half) + body[half:] + b"\r\n0\r\n\r\n"
        for side in ("client", "server"):
            for cut in range(1, 41):
                out.append(dict(base, side=side, enc=enc, limit=1024, framing="C", body=hx(body),
                                wire_segs=[hx(wire[:cut]), hx(wire[cut:])], shape="text+probe-sniff"))
            out.append(dict(base, side=side, enc=enc, limit=1024, framing="C", body=hx(body), merge_head=True,
                            wire_segs=[hx(wire[:3 + len(b"%x" % half) - 1]), hx(wire[3 + len(b"%x" % half) - 1:])],
                            shape="text+probe-sniff"))
    # (c) content-coding spelling: every coding in upper and title case, valid bodies (on the code before the repair these
    #     all fail with the one known signature K11); once the parser lower-cases the value, a truncated `DEFLATE` body
    #     must also get the deflate eof check and a raw-deflate `Deflate` body the first-byte sniff
    lowered = all(v is not None and v.islower() for v in probe_content_coding_lowercased().values())
    for enc in [e for e in ("gzip", "deflate", "rawdeflate", "br", "zstd") if e in available_encodings()]:
        body = compress(enc, text)
        cwire = b"%x\r\n" % len(body) + body + b"\r\n0\r\n\r\n"
        for variant in ("upper", "title"):
            for side in ("client", "server"):
                out.append(dict(base, side=side, enc=enc, limit=1024, framing="L", body=hx(body), wire_segs=[hx(body)],
                                shape="text+probe-coding-case", ce_variant=variant))
                out.append(dict(base, side=side, enc=enc, limit=1024, framing="C", body=hx(body),
                                wire_segs=[hx(cwire[:5]), hx(cwire[5:])], shape="text+probe-coding-case", ce_variant=variant))
            if lowered and enc in ("deflate", "rawdeflate"):
                t = body[:-3]
                out.append(dict(base, side="client", enc=enc, limit=1024, framing="L", body=hx(t), wire_segs=[hx(t)],
                                shape="text+trunc+probe-coding-case", ce_variant=variant))
    # (d) a consumer coroutine parked in _wait() when an HTTP chunk ends WITHOUT new output (the last bytes of the chunk are
    #     the gzip trailer / a Z_SYNC_FLUSH marker / the adler32 of a zlib stream): end_http_chunk_receiving() completes the
    #     waiter, nothing is buffered, the body is not over -- read(n) / readany() / readline() must keep waiting
    pbase = dict(base, mode="parked")
    gz = gzip.compress(b"hello\n", mtime=0)
    zl = zlib.compress(b"hello\n")
    co = zlib.compressobj(6, zlib.DEFLATED, -15)
    syncd = co.compress(b"hello\n") + co.flush(zlib.Z_SYNC_FLUSH)        # ... 00 00 ff ff
    fin = co.compress(b"world\n") + co.flush()
    gz2 = gzip.compress(b"world\n", mtime=0)
    zl2 = zlib.compress(b"world\n")
    for enc, first, tail, rest in (("gzip", gz[:-8], gz[-8:], b""), ("gzip", gz[:-4], gz[-4:], gz2),
                                   ("deflate", zl[:-4], zl[-4:], zl2), ("rawdeflate", syncd[:-4], syncd[-4:], fin)):
        body = first + tail + rest
        n1 = len(first) + len(tail)
        segs = [b"%x\r\n" % n1 + first, tail + b"\r\n"]
        if rest:
            segs.append(b"%x\r\n" % len(rest) + rest + b"\r\n")
        segs.append(b"0\r\n\r\n")
        for pop in (["PR", 3], ["PR", 100], ["PA"], ["PL"]):
            for side in ("client", "server"):
                ops = []
                for _ in segs:
                    ops += [["D"], pop, pop]
                out.append(dict(pbase, side=side, enc=enc, limit=1024, framing="C", body=hx(body), wire_segs=[hx(x) for x in segs],
                                ops=ops, pop=pop, shape="text+probe-chunk-end-wake"))
    # (e) readline() on a compressed body without any separator, input already received (the parser holds pending input and
    #     refills the reader re-entrantly while buffers are taken): LineTooLong must come at max_size, not at end of body
    for enc in [e for e in ("gzip", "deflate", "zstd", "br") if e in available_encodings()]:
        for lim, total in ((16, 2000), (1024, 40000), (1024, 2049), (1024, 2048)):
            body = compress(enc, b"a" * total)
            for side in ("client", "server"):
                out.append(dict(pbase, side=side, enc=enc, limit=lim, framing="L", body=hx(body), wire_segs=[hx(body)],
                                ops=[["D"], ["PL"]], pop=["PL"], shape="bomb+probe-readline"))
            out.append(dict(pbase, side="client", enc=enc, limit=lim, framing="C", body=hx(body),
                            wire_segs=[hx(b"%x\r\n" % len(body) + body + b"\r\n0\r\n\r\n")],
                            ops=[["D"], ["PL"]], pop=["PL"], shape="bomb+probe-readline"))
    # lines around max_size, compressed, whole body received first
    for lim in (16, 1024):
        hw = 2 * lim
        text2 = b"".join(b"x" * k + b"\n" for k in (0, 1, hw - 2, hw - 1, lim, 3))
        for enc in ("gzip", "identity"):
            body = compress(enc, text2)
            out.append(dict(pbase, side="client", enc=enc, limit=lim, framing="L", body=hx(body), wire_segs=[hx(body)],
                            ops=[["D"]], pop=["PL"], shape="text+probe-readline"))
    # (f) server side, request.read()/post()/text()/json() on a compressed bomb much larger than client_max_size: 413, and
    #     never more than 3 x max(client_max_size, read_bufsize) decoded bytes resident on the way
    for enc in [e for e in ("gzip", "deflate", "zstd", "br") if e in available_encodings()]:
        for api, payload in (("read", b"a" * 262144), ("post", b"a=" + b"b" * 262144), ("text", b"t" * 262144),
                             ("json", b'"' + b"j" * 262144 + b'"')):
            for cms_, lim in ((8192, 1024), (1024, 4096)):
                body = compress(enc, payload)
                out.append(dict(base, side="server", enc=enc, limit=lim, framing="L", body=hx(body), wire_segs=[hx(body)],
                                mode="req", cms=cms_, post=(api == "post"), reqapi=api, ops=[["D"], ["Q", cms_]],
                                shape="bomb+probe-request-read"))
    # and within the limit: the body must come back whole through each API
    for api, payload in (("read", b"a" * 3000), ("post", b"a=" + b"b" * 3000), ("text", b"t" * 3000), ("json", b'"' + b"j" * 3000 + b'"')):
        body = compress("gzip", payload)
        out.append(dict(base, side="server", enc="gzip", limit=1024, framing="C", body=hx(body),
                        wire_segs=[hx(b"%x\r\n" % len(body) + body + b"\r\n0\r\n\r\n")], mode="req", cms=8192,
                        post=(api == "post"), reqapi=api, ops=[["D"], ["Q", 8192]], shape="text+probe-request-read"))
    # (g) back-pressure across a re-entrant refill: the whole bomb arrives, the parser keeps decoder output pending; ONE
    #     small read drains below low water (resume_reading -> data_received(b"") refills and pauses again from inside);
    #     then the peer's further segments keep coming without the consumer reading: buffered stays within the bound
    for enc in [e for e in ("gzip", "deflate", "zstd") if e in available_encodings()]:
        for lim in (16, 1024):
            payload = b"z" * (40 * lim)
            body = compress(enc, payload) + (compress(enc, payload) if enc != "deflate" else b"")
            k = max(2, len(body) // 8)
            segs = [body[i:i + k] for i in range(0, len(body), k)]
            for side in ("client", "server"):
                for reads in ([["R", lim]], [["R", 2 * lim], ["R", lim]], [["A"]]):
                    out.append(dict(base, side=side, enc=enc, limit=lim, framing="L", body=hx(body), wire_segs=[hx(x) for x in segs],
                                    ops=[["D"]] * 3 + reads + [["D"]] * (len(segs) + 2), mode="lazy",
                                    shape="bomb+probe-backpressure"))
            # close-delimited, the peer closes as soon as its last segment is out: one wrongly admitted segment plus the
            # feed_eof step of connection_lost must still fit the bound
            for nseg in (4, 3):
                k2 = -(-len(body) // nseg)
                segs2 = [body[i:i + k2] for i in range(0, len(body), k2)]
                out.append(dict(base, side="client", enc=enc, limit=lim, framing="E", body=hx(body), wire_segs=[hx(x) for x in segs2],
                                ops=[["D"]] * (len(segs2) - 1) + [["A"], ["D"], ["A"]], mode="lazy", close_early=True,
                                close_after_wire=True, shape="bomb+probe-backpressure"))
    # (h) a read that is cancelled while parked in _wait() (timeout) must leave no waiter behind: the next read parks / reads
    #     normally.  (A blocked R/A attempt of this harness is exactly that: coro.close() = the cancellation path.)
    for enc in ("identity", "gzip"):
        body = compress(enc, b"first-second-third")
        k3 = -(-len(body) // 3)
        segs = [body[i:i + k3] for i in range(0, len(body), k3)]
        for side in ("client", "server"):
            out.append(dict(base, side=side, enc=enc, limit=1024, framing="L", body=hx(body), wire_segs=[hx(x) for x in segs],
                            ops=[["A"], ["R", 5], ["A"], ["D"], ["R", 4], ["A"], ["R", 100], ["D"], ["A"], ["A"], ["D"]],
                            shape="text+probe-cancelled-read"))
    # (i) many small members: exactly the per-call cap (1024) in one read, and one more than the cap split over two reads
    for enc in ("gzip", "deflate", "rawdeflate"):
        m1024 = b"".join(compress(enc, b"a") for _ in range(1024))
        m1025 = m1024 + compress(enc, b"b")
        out.append(dict(base, side="client", enc=enc, limit=65536, framing="L", body=hx(m1024), wire_segs=[hx(m1024)],
                        shape="text+multi+probe-members"))
        out.append(dict(base, side="server", enc=enc, limit=65536, framing="L", body=hx(m1025),
                        wire_segs=[hx(m1025[: len(m1025) // 2]), hx(m1025[len(m1025) // 2:])], shape="text+multi+probe-members"))
    # (j) header shape: optional whitespace around the coding
    for enc in [e for e in ("gzip", "rawdeflate", "br", "zstd") if e in available_encodings()]:
        body = compress(enc, text)
        for side in ("client", "server"):
            out.append(dict(base, side=side, enc=enc, limit=1024, framing="L", body=hx(body), wire_segs=[hx(body)],
                            shape="text+probe-coding-ows", ce_variant="ows"))
    # (b) concatenated members whose decoded sizes make the output budget of one decode step (max(limit, low_water)) run out
    #     exactly at a member boundary: 1024/512/2048 with limit 1024 (whole and 97-byte segments), 1025 x 3 with 97-byte segments
    encs = [e for e in ("deflate", "rawdeflate", "gzip", "zstd") if e in available_encodings()]
    src = bytes((i * 7 + i // 251) % 256 for i in range(8192))
    for enc in encs:
        for sizes in ((1024, 512, 2048), (1025, 1025, 1025), (512, 512, 1024, 1)):
            parts, pos = [], 0
            for n in sizes:
                parts.append(src[pos:pos + n]); pos += n
            body = b"".join(compress(enc, part) for part in parts)
            for seglen in (None, 97):
                segs = [body] if seglen is None else [body[i:i + seglen] for i in range(0, len(body), seglen)]
                for framing in ("L", "E"):
                    out.append(dict(base, side="client", enc=enc, limit=1024, framing=framing, body=hx(body),
                                    wire_segs=[hx(x) for x in segs], shape="random+multi+aligned+probe",
                                    close_after_wire=(framing == "E")))
    return out


# ------------------------------------------------------------------------------------ findings on a running (virtual-time) loop
def vloop_scenarios(ctx):
    """F19 and the stale-pause hang once more, this time with real coroutines on harness/common/vloop.py
    (virtual time, quiescence = 'blocks forever') instead of hand-stepped coroutines."""
    from .common import vloop
    from aiohttp.client_proto import ResponseHandler

    def make(loop, limit):
        proto = ResponseHandler(loop)
        proto.transport = MemTransport()
        proto.set_response_params(read_until_eof=True, read_bufsize=limit, auto_decompress=True)
        return proto

    zeros = gzip.compress(b"\0" * 1_000_000, mtime=0)

    async def f19():
        loop = asyncio.get_running_loop()
        proto = make(loop, 65536)
        proto.data_received(b"HTTP/1.1 200 OK\r\nContent-Encoding: gzip\r\nContent-Length: %d\r\n\r\n" % len(zeros) + zeros)
        msg, payload = proto._buffer[0]
        proto.connection_lost(None)          # peer closes right after the last byte
        try:
            body = await payload.read()
            return ("ok", len(body))
        except Exception as e:
            return ("err", err_name(e), payload.total_bytes)
    res, excs, quiescent = vloop.run(f19)
    ctx.case(("vloop", "f19"), sample={"vloop": "f19", "result": list(res) if res else None, "quiescent": quiescent})
    if quiescent or (res and res[0] == "err") or (res and res[0] == "ok" and res[1] != 1_000_000):
        ctx.violation("C09/lost-body/peer-close-while-decoder-pending", finding_cases()[0][1],
                      f"real ResponseHandler on the virtual-time loop: complete gzip body (1 MB of zeros, {len(zeros)} B on the wire), "
                      f"peer closes, then `await resp.content.read()` -> {res!r} quiescent={quiescent}")

    async def stale():
        loop = asyncio.get_running_loop()
        proto = make(loop, 4)
        proto.data_received(b"HTTP/1.1 200 OK\r\nTransfer-Encoding: chunked\r\n\r\n9\r\nXXXXXXXXX\r\n")
        msg, payload = proto._buffer[0]
        first = await payload.readany()
        proto.data_received(b"5\r\nhello\r\n0\r\n\r\n")
        rest = await payload.read()
        return first + rest
    res, excs, quiescent = vloop.run(stale)
    ctx.case(("vloop", "stale"), sample={"vloop": "stale-pause", "result": repr(res), "quiescent": quiescent})
    if quiescent or res != b"XXXXXXXXXhello":
        ctx.violation("C09/no-progress/stale-parser-pause-pending-input/chunked/aligned-after-chunk-crlf", finding_cases()[1][1],
                      f"real ResponseHandler on the virtual-time loop: complete chunked body delivered, reader drained the first "
                      f"chunk, `await read()` never returns (loop quiescent={quiescent}, result={res!r})")


# ------------------------------------------------------------------------------------ server side: peer closes in mid-body
class _SrvTransport(MemTransport):
    def __init__(self):
        super().__init__()
        self.out = bytearray()

    def write(self, data):
        self.out += bytes(data)

    def writelines(self, datas):
        for d in datas:
            self.out += bytes(d)

    def get_write_buffer_size(self):
        return 0

    def set_write_buffer_limits(self, *a, **k):
        pass

    def can_write_eof(self):
        return False


def server_close_cases():
    out = []
    text = b"field=" + b"v" * 300
    for framing in ("L", "C"):
        for enc in ("identity", "gzip", "deflate"):
            for how in ("read", "readany", "read-n", "readline", "post"):
                for part in ("none", "some"):
                    out.append({"kind": "server_close", "framing": framing, "enc": enc, "how": how, "part": part,
                                "body": hx(compress(enc, text))})
    return out


def run_server_close(case):
    """real web.Server / RequestHandler on the virtual-time loop: the handler is parked reading a request body of which
    only a part has arrived; the peer closes cleanly (connection_lost(None)).  -> outcome of the handler's read"""
    from .common import vloop
    from aiohttp import web
    body = unhx(case["body"])
    he = header_encoding(case["enc"])
    sent = b"" if case["part"] == "none" else body[: max(1, len(body) // 2)]
    head = b"POST /p HTTP/1.1\r\nHost: a\r\nContent-Type: application/x-www-form-urlencoded\r\n"
    if he:
        head += b"Content-Encoding: " + he.encode() + b"\r\n"
    if case["framing"] == "L":
        head += b"Content-Length: %d\r\n\r\n" % len(body)
        first = sent
    else:
        head += b"Transfer-Encoding: chunked\r\n\r\n"
        first = (b"%x\r\n" % len(body) + sent) if sent else b""
    box = {}

    async def main():
        done = asyncio.Event()

        async def handler(request):
            box["started"] = True
            try:
                how = case["how"]
                if how == "read":
                    await request.read()
                elif how == "post":
                    await request.post()
                elif how == "readany":
                    while await request.content.readany():
                        pass
                elif how == "read-n":
                    while await request.content.read(64):
                        pass
                else:
                    while await request.content.readline():
                        pass
                box["outcome"] = "eof"
            except BaseException as e:
                box["outcome"] = "e=" + ("E_CONN_RESET" if isinstance(e, ConnectionResetError) else
                                         "CANCELLED" if isinstance(e, asyncio.CancelledError) else err_name(e))
                raise
            finally:
                done.set()
            return web.Response()
        server = web.Server(handler)
        proto = server()
        tr = _SrvTransport()
        proto.connection_made(tr)
        proto.data_received(head + first)
        for _ in range(20):
            await asyncio.sleep(0)
        box["parked"] = box.get("started") and "outcome" not in box
        proto.connection_lost(None)
        try:
            await asyncio.wait_for(done.wait(), 60)
        except asyncio.TimeoutError:
            return "hang"               # 60 virtual seconds after the close the handler is still parked
        return box.get("outcome")
    import logging
    lg = logging.getLogger("aiohttp.server")
    old = lg.level
    lg.setLevel(logging.CRITICAL + 1)       # the server logs the handler's exception with a traceback: expected here
    try:
        res, excs, quiescent = vloop.run(main)
    finally:
        lg.setLevel(old)
    # the outcome is what main() saw; the loop's final clean-up cancels a still-parked handler, which is not the server's doing
    box["outcome"] = "hang" if (quiescent or res is None) else res
    return dict(box), sent, first


def check_server_close(ctx):
    cases = server_close_cases()
    lines, keep = [], []
    for case in cases:
        box, sent, first = run_server_close(case)
        ctx.case(("server_close", case), sample={"server_close": {k: case[k] for k in ("framing", "enc", "how", "part")},
                                                 "outcome": box.get("outcome")} if len(keep) % 17 == 0 else None)
        ctx.hit("server-close:" + str(box.get("outcome")))
        oracle_server_close(ctx, case, box)
        he = header_encoding(case["enc"])
        fr = f"L{len(unhx(case['body']))}" if case["framing"] == "L" else "C"
        # the model: deliver what arrived, the handler's read parks, the server loses the connection, the read is resumed
        ops = ([f"D:{hx(first)}"] if first else []) + ["Q:0", "XS", "Q:0"]
        lines.append(f"run 0 65536 {fr} {1 if he else 0} {1 if he == 'deflate' else 0} {1 if he == 'deflate' else 0} "
                     f"{128 - 5 - (1 if he else 0)} " + " ".join(ops))
        keep.append((case, box))
    outs = ctx.model(lines)
    if outs is not None:
        for (case, box), o in zip(keep, outs):
            if not box.get("parked") or case["how"] in ("readline", "read-n", "readany") and case["part"] == "some":
                continue      # the model line describes a handler parked in read() with nothing delivered to it yet
            items = [t for t in o.split(" ") if t.count("/") == 3]
            model_out = items[-1].split("/")[0] if items else "?"
            ctx.compare({"case": case}, box.get("outcome"), model_out, "RequestHandler.connection_lost vs Aio.C09.connectionLostServer")


def oracle_server_close(ctx, case, box):
    """a request body cut short by the peer going away is an error for the handler that is reading it -- never a hang
    and never a clean end-of-body"""
    if not box.get("started"):
        return
    o = box.get("outcome")
    if o == "hang":
        ctx.violation("C09/no-progress/server-peer-close-mid-body-handler-parked", case,
                      f"handler parked in {case['how']} on a {case['framing']}/{case['enc']} request body ({case['part']} of it "
                      f"received); the peer closed cleanly; the read neither fails nor ends (no timer left on the loop)")
    elif o == "eof":
        ctx.violation("C09/not-transparent/server-truncated-body-clean-eof", case,
                      f"truncated {case['framing']}/{case['enc']} request body read to a clean end by {case['how']}")


# ------------------------------------------------------------------------------------ several bodies on one connection
def run_sequence(side, limit, msgs, seglen, lazy):
    """keep-alive: the same protocol / parser / transport carries several message bodies one after the other.  Each is
    delivered in `seglen`-byte segments while the transport is not paused and read with readany() (lazy: only when
    nothing can be delivered).  -> list of (delivered bytes | None, why) per message"""
    loop = asyncio.new_event_loop()
    try:
        case = {"side": side, "limit": limit}
        p = Pipeline(loop, case)
        results = []
        for idx, (enc, framing, data) in enumerate(msgs):
            body = compress(enc, data)
            wire = body if framing == "L" else chunk_encode(__import__("random").Random(idx), body, "mixed")
            head = head_bytes({"side": side, "enc": enc, "framing": framing, "ce_variant": "lower"}, len(wire))
            queue = [head] + [wire[i:i + seglen] for i in range(0, len(wire), seglen)]
            got, why = bytearray(), None
            payload = None
            for _ in range(20000):
                store = p.proto._buffer if p.client else p.msgs
                if payload is None and len(store) > idx:
                    payload = store[idx][1]
                progressed = False
                if queue and not p.tr.paused:
                    p.proto.data_received(queue.pop(0)); progressed = True
                    if lazy:
                        continue
                if payload is not None and type(payload).__name__ == "StreamReader":
                    p.payload = payload
                    out = p.readany()
                    if out.startswith("d="):
                        d = unhx(out[2:])
                        if not d:
                            break
                        got += d; progressed = True
                    elif out.startswith("e="):
                        why = out[2:]; break
                elif payload is not None and not queue:
                    break           # EMPTY_PAYLOAD
                if not progressed:
                    why = f"stuck (queue={len(queue)}, transport paused={p.tr.paused})"; break
            else:
                why = "op budget"
            results.append((bytes(got), why))
            if why:
                break
        return results
    finally:
        loop.close()


def check_sequences(ctx):
    a, b = b"A" * 5000 + b"tail-one", bytes(range(256)) * 9
    encs = [e for e in ("identity", "gzip", "deflate", "zstd", "br") if e in available_encodings()]
    n = 0
    for side in ("client", "server"):
        for limit in (16, 1024):
            for e1 in encs:
                for e2 in ("identity", "gzip"):
                    for f1, f2 in (("L", "C"), ("C", "L")):
                        for seglen, lazy in ((7, False), (4096, True)):
                            msgs = [(e1, f1, a), (e2, f2, b), (e1, f2, a[:100])]
                            case = {"kind": "sequence", "side": side, "limit": limit, "msgs": [[m[0], m[1], hx(m[2])] for m in msgs],
                                    "seglen": seglen, "lazy": lazy}
                            n += 1
                            oracle_sequence(ctx, case, run_sequence(side, limit, msgs, seglen, lazy))
                            ctx.case(("sequence", case), sample=None)
    ctx.hit(*["class:keepalive-sequence"] * n)


def oracle_sequence(ctx, case, results):
    msgs = case["msgs"]
    for i, (got, why) in enumerate(results):
        want = unhx(msgs[i][2])
        if why:
            ctx.violation("C09/sequence/body-%d-not-delivered" % (i + 1), case,
                          f"message {i + 1} ({msgs[i][0]}/{msgs[i][1]}) on a connection that already carried {i} bodies: {why} after "
                          f"{len(got)} of {len(want)} bytes")
            return
        if got != want:
            ctx.violation("C09/sequence/body-%d-differs" % (i + 1), case,
                          f"message {i + 1} ({msgs[i][0]}/{msgs[i][1]}): {len(got)} bytes delivered, reference {len(want)}")
            return
    if len(results) < len(msgs):
        ctx.violation("C09/sequence/later-message-missing", case, f"only {len(results)} of {len(msgs)} messages came out")


# ------------------------------------------------------------------------------------ check
def run_and_compare(ctx, cases, label):
    results = []
    for case in cases:
        try:
            r = run_case(case)
        except Exception as e:  # the harness itself failed on this case
            ctx.mismatch({"case": case}, f"harness error {type(e).__name__}: {e}", "", "harness")
            r = None
        results.append(r)
    keep = [(c, r) for c, r in zip(cases, results) if r is not None]
    outs = ctx.model([r["line"] for _, r in keep])
    for i, (case, r) in enumerate(keep):
        info = r["info"]
        nontriv = bool(info["delivered"]) or info["final"][0] != "eof" or info["peak"] > 0
        ctx.case(("run", case), nontrivial=nontriv,
                 sample=({"side": case["side"], "enc": case["enc"], "framing": case["framing"], "limit": case["limit"],
                          "shape": case["shape"], "segments": len(case["wire_segs"]), "ops": info["n_ops"],
                          "final": list(info["final"]), "delivered": len(info["delivered"]), "peak": info["peak"]}
                         if i % 211 == 0 else None))
        ctx.hit("side:" + case["side"], "enc:" + case["enc"], "framing:" + case["framing"], "limit:%d" % case["limit"],
                "final:" + ":".join(info["final"]), "mode:" + case["mode"])
        for tag in case["shape"].split("+"):
            ctx.hit("shape:" + tag)
        if info["peak"] > info["high"]:
            ctx.hit("pause:over-high-water")
        if any(t.split("/")[2][3] == "1" for t in r["impl"].split(" ") if t.count("/") == 3):
            ctx.hit("pause:pending-input")
        if info["closed"]:
            ctx.hit("op:peer-close")
        oracle(ctx, case, info)
        if outs is not None and not info.get("runaway"):
            ctx.compare({"case": case}, r["impl"], outs[i], label)


def check(ctx):
    rng = ctx.rng
    encs = available_encodings()
    ctx.extra["encodings_available"] = encs
    try:
        # fixed scenarios first (known findings keep their own signatures)
        run_and_compare(ctx, [c for _, c in finding_cases()], "pipeline vs Aio.C09.run (fixed scenarios)")
        run_and_compare(ctx, probe_cases(), "pipeline vs Aio.C09.run (deterministic probes)")
        remove_patches()
        vloop_scenarios(ctx)
        check_server_close(ctx)
        check_sequences(ctx)
        n = 1500 if ctx.quick else 16000
        if os.environ.get("VERIF_C09_PROBES_ONLY"):
            n = 0      # audit switch: which mechanisms are caught by the deterministic cases alone
        cases = []
        for _ in range(n):
            cases.append(gen_case(rng, ctx.quick, encs))
        B = 250
        for i in range(0, len(cases), B):
            if ctx.time_left() is not None and ctx.time_left() < (12 if ctx.quick else 60):
                ctx.notes.append(f"time budget reached after {i} of {len(cases)} generated cases")
                break
            run_and_compare(ctx, cases[i:i + B], "pipeline vs Aio.C09.run")
        # codec laws on real decompressors
        for _ in range(400 if ctx.quick else 6000):
            enc = rng.choice([e for e in encs if e != "identity"])
            body, shape = make_body(rng, enc, rng.choice(LIMITS), ctx.quick)
            if body:
                check_codec_laws(ctx, enc, body, rng)
                ctx.case(("law", enc, hx(body)), nontrivial=True)
        check_toy_codec(ctx, rng)
    finally:
        remove_patches()


def check_toy_codec(ctx, rng):
    """python twin of Codec.expand vs the Lean instance used for non-vacuity"""
    lines, exps = [], []
    for _ in range(200 if ctx.quick else 2000):
        k = rng.randint(1, 5)
        ms = [rng.choice([0, 1, 2, 7, 300]) for _ in range(k)]
        ins = [bytes(rng.choice([0, 1, 2, 3, 9, 200]) if rng.random() < 0.1 else rng.randrange(1, 40) for _ in range(rng.randint(0, 4)))
               for _ in range(k)]
        pend, outs = b"", []
        for m, i in zip(ms, ins):
            if 0 in i:
                outs.append("!"); break
            allb = pend + b"".join(bytes([b]) * b for b in i)
            o, pend = (allb, b"") if m == 0 else (allb[:m], allb[m:])
            outs.append(hx(o) + ":" + ("1" if pend else "0"))
        lines.append("rle " + " ".join(map(str, ms)) + " : " + " ".join(hx(i) for i in ins))
        exps.append(" ".join(outs))
    outs = ctx.model(lines)
    if outs is not None:
        for l, e, o in zip(lines, exps, outs):
            ctx.compare({"toy": l}, e, o, "Codec.expand twin")


def replay(ctx, case):
    if case.get("kind") == "sequence":
        msgs = [(m[0], m[1], unhx(m[2])) for m in case["msgs"]]
        oracle_sequence(ctx, case, run_sequence(case["side"], case["limit"], msgs, case["seglen"], case["lazy"]))
        return
    if case.get("kind") == "server_close":
        box, _, _ = run_server_close(case)
        oracle_server_close(ctx, case, box)
        return
    if case.get("law"):
        import random
        check_codec_laws(ctx, case["enc"], unhx(case["body"]), random.Random(0))
        return
    try:
        r = run_case(case)
        if r is not None:
            oracle(ctx, case, r["info"])
    finally:
        remove_patches()
