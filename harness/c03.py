"""C03 — HTTP parsing does not depend on how the byte stream is segmented.

Implementation: aiohttp.http_parser (HttpRequestParserPy, HttpResponseParserPy, HttpPayloadParser).
Model: lean/AioModel/Http.lean; theorems: lean/AioProps/C03.lean.
"""
from .common import httpparse as H
from .common.httpgen import generate as _gen
from .common.codec import hx, unhx

PROPERTY = "C03"
LEAN_MODULES = ["AioProps.C03", "AioProps.C03Main", "AioProps.C03Chunked", "AioProps.C03Segments", "AioProps.C01Length"]
THEOREMS = [
    "Aio.Http.findCRLF_append_stable",
    "Aio.Http.findSep_append_stable",
    "Aio.Http.findCRLF_none_append",
    "Aio.Http.tail_check_sound_strict",
    "Aio.Http.tail_check_sound_lax",
    "Aio.Http.length_body_compositional",
    "Aio.Http.untilEof_compositional",
    "Aio.Http.feed_failed_latched",
    "Aio.Http.feedLoop_acc",
    "Aio.Http.feedLoop_fuel",
    "Aio.Http.stepOnce_cont_append",
    "Aio.Http.stepOnce_cont_inv",
    "Aio.Http.stepOnce_stop_cases",
    "Aio.Http.feedLoop_append",
    "Aio.Http.payloadLaws_nonChunked",
    "Aio.Http.feedLoop_append_nonChunked",
    "Aio.Http.chunkedLoop_acc",
    "Aio.Http.chunkedLoop_fuel",
    "Aio.Http.chunkedLoop_split",
    "Aio.Http.chunkedLoop_complete",
    "Aio.Http.chunkedLoop_pos",
    "Aio.Http.chunkedLoop_needs",
    "Aio.Http.payloadLaws_all",
    "Aio.Http.goodRun_anyBody",
    "Aio.Http.feedLoop_append_all",
    "Aio.Http.feed_two_reads",
    "Aio.Http.feed_anyBody",
    "Aio.Http.feed_failed",
    "Aio.Http.feed_segments",
    "Aio.Http.close_delimited_body_exact",
    "Aio.Http.bodiless_takes_nothing",
]
RULE = ("streams: grammar-generated request pipelines (1-3 requests; CL and chunked bodies with extensions/trailers; "
        "origin/absolute/asterisk/authority targets) and responses (lax and strict), each also mutated by one of the "
        f"{len(H.MUTATIONS)} mutation classes; limits drawn within ±1 of actual line lengths in half the cases with "
        "max_line_size != max_field_size allowed. Segmentations per stream: whole, every single cut (all positions for "
        "streams <= 160 B, else 48 sampled), sampled pairs of cuts, byte-at-a-time, random k-cuts; each with and without "
        "feed_eof. Each (stream, segmentation) is run on the real parser and on the model and compared token by token "
        "(validates the model at every cut); the direct oracle compares segmentations of the real parser with each other. "
        "non-trivial = stream yields at least one message or an error; distinct by (config, stream, cuts).")
TRUSTED_BASE = [
    "yarl URL()/URL.build() accept/reject is an oracle column (harness/common/httpparse.py:url_ok), not modelled",
    "decompression (auto_decompress) and reader back-pressure pauses are outside this model (C09)",
    "recording subclass of StreamReader patched into aiohttp.http_parser observes the payload calls",
]
ASSUMPTIONS = [
    "outcome relation ≈: accepted streams must give identical events under every segmentation; a stream rejected under one "
    "segmentation must be rejected or incomplete under every other, with prefix-comparable delivered events; the exception "
    "class may differ (early 'bad line ending' vs later header error)",
]


def generate(repo):
    return _gen(repo)


def gen_stream(rng, response, lax):
    if response:
        n = rng.choice([1, 1, 2])
        msgs = [H.gen_response(rng, lax) for _ in range(n)]
    else:
        n = rng.choice([1, 1, 2, 3])
        msgs = [H.gen_request(rng) for _ in range(n)]
    kind = "valid"
    if rng.random() < 0.15:
        # stray bytes at message boundaries (old clients send a CRLF after a body; the parser skips empty lines in
        # front of a start line) — also behind the last message, and with messages that ask for the connection to close
        kind = "stray_between"
        if rng.random() < 0.6:
            i = len(msgs) - 1 if rng.random() < 0.7 else rng.randrange(len(msgs))
            j = msgs[i].find(b"\n")
            msgs[i] = msgs[i][:j + 1] + b"Connection: close\r\n" + msgs[i][j + 1:]
        stray = lambda: rng.choice([b"\r\n", b"\r\n", b"\r\n\r\n", b"\n", b"\r", b" ", b"\r\n \r\n", b"\n\r", b"0\r\n\r\n", b""])
        tail = rng.choice([b"\r\n", b"\r\n", b"\r\n\r\n", b"\r\n\r\n\r\n"]) if rng.random() < 0.6 else stray()
        # runs of empty lines of any length, in front of the first message too (nothing counts them per read)
        run = lambda: (b"\n" if lax and rng.random() < 0.5 else b"\r\n") * rng.choice([0, 0, 1, 2, 4, 5, 6, 9, 17, 40])
        if rng.random() < 0.5:
            return run() + b"".join(m + run() for m in msgs), kind
        return b"".join(m + stray() for m in msgs[:-1]) + msgs[-1] + tail, kind
    data = b"".join(msgs)
    if rng.random() < 0.55:
        data, kind = H.mutate(rng, data)
    return data, kind


def segmentations(ctx, rng, data):
    segs = [[data]]
    if len(data) >= 2:
        singles = H.cuts_single(data)
        if len(data) > 160:
            singles = rng.sample(singles, 48 if ctx.quick else 160)
        segs += singles
        for _ in range(6 if ctx.quick else 40):
            segs.append(H.cuts_random(rng, data, 2))
        for _ in range(3 if ctx.quick else 10):
            segs.append(H.cuts_random(rng, data, rng.randint(3, 8)))
        if len(data) <= 400:
            segs.append(H.bytewise(data))
    return segs


def direct_oracle(ctx, cfg, data, kind, results):
    """results: list of (segs, eof, outcome). Compare every segmentation with the whole-stream run."""
    base = {}
    for segs, eof, o in results:
        if len(segs) == 1:
            base[eof] = o
    for segs, eof, o in results:
        w = base.get(eof)
        if w is None or o is w:
            continue
        case = {"cfg": cfg.spec(), "stream": hx(data), "cuts": [len(s) for s in segs], "eof": eof}
        if o["err"] and o["err"].startswith("E_OTHER"):
            ctx.violation(f"C10/escaped-exception/{o['err']}", case, f"non-HTTP exception left feed_data: {o['err']}")
        aw, ao = H.accepted(w), H.accepted(o)
        rw, ro = H.rejected(w), H.rejected(o)
        if (aw and ro) or (ao and rw):
            where = "limit" if "LineTooLong" in (str(o["err"]) + str(w["err"]) + str([e for e in o["events"] + w["events"] if e[0] == "X"])) else "syntax"
            ctx.violation(f"C03/accepted-vs-rejected/{where}/{'resp' if cfg.response else 'req'}", case,
                          f"whole stream {'accepted' if aw else 'rejected:' + str(w['err'])}, this segmentation {'accepted' if ao else 'rejected:' + str(o['err'])}")
            continue
        fw, fo = H.flatten_events(w["events"]), H.flatten_events(o["events"])
        if aw and ao:
            if fw != fo:
                ctx.violation(f"C03/delivered-differs/{'resp' if cfg.response else 'req'}", case, "accepted under both segmentations but delivered events differ")
        else:
            # both rejected (or one still incomplete): the exception class may differ — a stream with
            # two defects (e.g. a bare LF in a trailer AND too many trailers) reports whichever the
            # segmentation lets the parser see first — so payload-exception events compare as "X"
            fw = [("X",) if t[0] == "X" else t for t in fw]
            fo = [("X",) if t[0] == "X" else t for t in fo]
            n = min(len(fw), len(fo))
            if fw[:n] != fo[:n]:
                ctx.violation(f"C03/delivered-not-prefix/{'resp' if cfg.response else 'req'}", case, "delivered events are not prefix-comparable")


def one_stream(ctx, rng, cfg, data, kind, lines, pending):
    results = []
    for segs in segmentations(ctx, rng, data):
        for eof in ((False, True) if len(segs) <= 2 else (True,)):
            canon, o = H.run_impl(cfg, segs, eof)
            results.append((segs, eof, o))
            nontrivial = bool(o["events"]) or o["err"] is not None
            ctx.case((cfg.key(), data, tuple(len(s) for s in segs), eof), nontrivial=nontrivial,
                     sample=({"cfg": cfg.spec(), "stream": data[:120].decode("latin1"), "cuts": [len(s) for s in segs][:6], "impl": canon[:160]}
                             if ctx.evaluations % 4001 == 0 else None))
            lines.append(H.model_line(cfg, segs, eof))
            pending.append(({"cfg": cfg.spec(), "stream": hx(data), "cuts": [len(s) for s in segs], "eof": eof}, canon))
            if o["err"]:
                ctx.hit("err:" + o["err"])
    ctx.hit("kind:" + kind)
    ctx.hit("resp" if cfg.response else "req")
    direct_oracle(ctx, cfg, data, kind, results)


def corpus_cases():
    """minimised past disagreements / findings — always run first"""
    C = H.Cfg
    yield C(max_line=100, max_field=20), b"GET / HTTP/1.1\r\nHost: x\r\nX: " + b"a" * 50 + b"\r\n\r\n", "F1"
    yield C(max_line=20, max_field=100), b"GET / HTTP/1.1\r\nHost: x\r\nX: " + b"a" * 50 + b"\r\n\r\n", "F2"
    yield C(max_line=20, max_field=20), b"GET /aaaaaa HTTP/1.1\r\nHost: x\r\n\r\n", "F3-reqline"
    yield C(max_line=100, max_field=30), b"GET / HTTP/1.1\r\nHost: x\r\nX: " + b"a" * 27 + b"\r\n\r\n", "F3-field"
    yield C(max_line=30, max_field=100), b"POST / HTTP/1.1\r\nHost: x\r\nTransfer-Encoding: chunked\r\n\r\n5;" + b"e" * 28 + b"\r\nhello\r\n0\r\n\r\n", "F3-chunk"
    yield C(max_line=100, max_field=30), b"POST / HTTP/1.1\r\nHost: x\r\nTransfer-Encoding: chunked\r\n\r\n5\r\nhello\r\n0\r\nX: " + b"t" * 27 + b"\r\n\r\n", "F3-trailer"
    yield C(), b"GET /a\nb HTTP/1.1\r\nHost: x\r\n\r\n", "F4"
    yield C(), b"GET /a\x00b HTTP/1.1\r\nHost: x\r\n\r\n", "F4-nul"
    yield C(max_line=20, max_field=100), b"GET / HTTP/1.1\r\nHost: x\r\n\r\nGET /" + b"a" * 30 + b" HTTP/1.1\r\nHost: x\r\n\r\n", "F1-pipeline"
    yield C(), b"GET http://[::1 HTTP/1.1\r\nHost: x\r\n\r\n", "F5"
    yield C(response=True, lax=True), b"HTTP/1.1 200 OK\r\nTransfer-Encoding: chun\xe2\x84\xaaed\r\n\r\n3\r\nabc\r\n0\r\n\r\n", "F13-kelvin"
    yield C(max_line=40, max_field=100), b"POST / HTTP/1.1\r\nHost: x\r\nTransfer-Encoding: chunked\r\n\r\n5\r\nhello\r\n0\r\nX: " + b"t" * 60 + b"\r\nY: " + b"u" * 60 + b"\r\n\r\n", "trailer-between-limits"
    yield C(max_line=100, max_field=40), b"POST / HTTP/1.1\r\nHost: x\r\nTransfer-Encoding: chunked\r\n\r\n5;" + b"e" * 60 + b"\r\nhello\r\n0\r\n\r\n", "chunkline-between-limits"
    yield C(max_headers=6), b"GET / HTTP/1.1\r\nHost: x\r\nA: 1\r\nB: 2\r\nC: 3\r\n\r\n", "exactly-max-headers"
    # the trailer section shares the max_headers budget with the head (max_trailers = max_headers - head lines): a head
    # that uses the budget up exactly leaves no room even for the blank line that ends the trailers — wherever the cut is
    _ch = b"POST /x HTTP/1.1\r\nHost: a\r\nTransfer-Encoding: chunked\r\n\r\n"          # 4 head lines
    _rh = b"HTTP/1.1 200 OK\r\nTransfer-Encoding: chunked\r\n\r\n"                      # 3 head lines
    for mh in (4, 5, 6, 7):
        yield C(max_headers=mh), _ch + b"3\r\nabc\r\n0\r\n\r\n", f"trailer-budget-{mh}-none"
        yield C(max_headers=mh), _ch + b"3\r\nabc\r\n0\r\nX: y\r\n\r\n", f"trailer-budget-{mh}-one"
        yield C(max_headers=mh), _ch + b"0\r\nX: y\r\nZ: w\r\n\r\nGET /n HTTP/1.1\r\nHost: a\r\n\r\n", f"trailer-budget-{mh}-two-next"
        yield C(max_headers=mh - 1, response=True, lax=True), _rh + b"3\r\nabc\r\n0\r\n\r\n", f"resp-trailer-budget-{mh - 1}-none"
        yield C(max_headers=mh - 1, response=True, lax=True), _rh + b"3\nabc\n0\nX: y\n\n", f"resp-trailer-budget-{mh - 1}-one-lf"
    yield C(response=True, lax=True), b"HTTP/1.1 200 OK\r\nTransfer-Encoding: chunked\r\n\r\n3\r\nabc\r\n0\n\rX: y\r\n\r\n", "lax-lfcr-before-trailer"
    yield C(response=True, lax=True), b"HTTP/1.1 200 OK\nTransfer-Encoding: chunked\n\n3\nabc\n\r0\n\r\n", "lax-lfcr-2"
    # an Upgrade request that carries a body, followed by bytes of the upgraded protocol: the switch takes effect when
    # the body ends, wherever the reads are cut
    yield C(), b"POST /up HTTP/1.1\r\nHost: a\r\nConnection: Upgrade\r\nUpgrade: websocket\r\nContent-Length: 3\r\n\r\nabc\x81\x05hello", "upgrade-with-cl-body"
    yield C(), b"POST /up HTTP/1.1\r\nHost: a\r\nConnection: upgrade\r\nUpgrade: websocket\r\nTransfer-Encoding: chunked\r\n\r\n3\r\nabc\r\n0\r\n\r\nGET /x HTTP/1.1\r\n\r\n", "upgrade-with-chunked-body"
    yield C(), b"CONNECT h:443 HTTP/1.1\r\nHost: h:443\r\n\r\n\x16\x03\x01raw-tunnel-bytes\r\n\r\n", "connect-with-tail"
    yield C(response=True, lax=True), b"HTTP/1.1 101 Switching Protocols\r\nConnection: upgrade\r\nUpgrade: websocket\r\n\r\n\x81\x02hi", "resp-101-with-tail"
    # a stray CRLF behind the body of a message that closes the connection (old clients): empty lines are skipped
    yield C(), b"POST /f HTTP/1.1\r\nHost: a\r\nConnection: close\r\nContent-Length: 3\r\n\r\nabc\r\n", "close-cl-stray-crlf"
    yield C(), b"POST /f HTTP/1.1\r\nHost: a\r\nConnection: close\r\nTransfer-Encoding: chunked\r\n\r\n3\r\nabc\r\n0\r\n\r\n\r\n", "close-chunked-stray-crlf"
    yield C(), b"POST /f HTTP/1.0\r\nContent-Length: 3\r\n\r\nabc\r\n\r\n", "http10-stray-crlf"
    yield C(response=True, lax=True), b"HTTP/1.1 200 OK\r\nConnection: close\r\nContent-Length: 3\r\n\r\nabc\r\n", "resp-close-stray-crlf"


def compressed_streams(rng):
    """messages whose body is content-encoded: the real parser decodes while parsing (auto_decompress)"""
    import zlib, gzip
    out = []
    for _ in range(3):
        raw = bytes(rng.choice(b"abcdefgh \r\n0") for _ in range(rng.choice([1, 5, 40, 300])))
        co = zlib.compressobj(wbits=-15); rawdef = co.compress(raw) + co.flush()
        for enc, body in (("deflate", rawdef), ("deflate", zlib.compress(raw)), ("gzip", gzip.compress(raw))):
            if rng.random() < 0.5:
                n1 = rng.randint(1, max(1, len(body) - 1))
                framed = b"%x\r\n" % n1 + body[:n1] + b"\r\n" + (b"%x\r\n" % (len(body) - n1) + body[n1:] + b"\r\n" if len(body) > n1 else b"") + b"0\r\n\r\n"
                hdr = b"Transfer-Encoding: chunked\r\n"
            else:
                framed, hdr = body, b"Content-Length: %d\r\n" % len(body)
            out.append((False, b"POST /z HTTP/1.1\r\nHost: h\r\nContent-Encoding: " + enc.encode() + b"\r\n" + hdr + b"\r\n" + framed, raw))
            out.append((True, b"HTTP/1.1 200 OK\r\nContent-Encoding: " + enc.encode() + b"\r\n" + hdr + b"\r\n" + framed, raw))
    return out


def run_decoding(response, segs):
    """real parser with auto_decompress=True → (rejected?, delivered bytes, complete?)"""
    import aiohttp.http_parser as hp
    from aiohttp.base_protocol import BaseProtocol
    lp = H.loop()
    proto = BaseProtocol(lp); proto.transport = H._Transport()
    if response:
        p = hp.HttpResponseParserPy(proto, lp, 2 ** 20, auto_decompress=True)
    else:
        p = hp.HttpRequestParserPy(proto, lp, 2 ** 20, auto_decompress=True)
    proto._parser = p
    payloads, err = [], None
    for s in segs:
        try:
            msgs, _, _ = p.feed_data(s)
            payloads += [pl for _, pl in msgs]
        except BaseException as e:  # noqa
            err = type(e).__name__; break
    got = b""
    complete = False
    for pl in payloads:
        if hasattr(pl, "_buffer"):
            got += b"".join(pl._buffer)
            complete = complete or pl.is_eof()
            if pl.exception() is not None:
                err = err or type(pl.exception()).__name__
    return err, got, complete


def check_decoding(ctx):
    rng = ctx.rng
    for response, data, raw in compressed_streams(rng):
        base = run_decoding(response, [data])
        if base[0] is None and base[2] and base[1] != raw:
            ctx.violation("C09/decoded-bytes-differ/whole", {"kind": "z", "response": response, "stream": hx(data), "cuts": [len(data)]}, "decoded body differs from the original")
        for segs in H.cuts_single(data) + [H.bytewise(data)]:
            r = run_decoding(response, segs)
            ctx.case(("z", response, data, tuple(len(s) for s in segs)))
            if (r[0] is None) != (base[0] is None) or (r[0] is None and (r[1], r[2]) != (base[1], base[2])):
                ctx.violation(f"C03/decoding/segmentation-dependent/{'resp' if response else 'req'}",
                              {"kind": "z", "response": response, "stream": hx(data), "cuts": [len(s) for s in segs]},
                              f"whole: err={base[0]} {len(base[1])} bytes; cut {[len(s) for s in segs][:4]}: err={r[0]} {len(r[1])} bytes")
                break
    ctx.hit("decoding-streams")
    # many concatenated members: the decoder's member cap is a limit like any other
    import gzip
    for n in (1030, 1100):
        body = gzip.compress(b"a") * n
        for response, head in ((False, b"POST /z HTTP/1.1\r\nHost: h\r\n"), (True, b"HTTP/1.1 200 OK\r\n")):
            data = head + b"Content-Encoding: gzip\r\nContent-Length: %d\r\n\r\n" % len(body) + body
            base = run_decoding(response, [data])
            for segs in ([data[:len(data) // 2], data[len(data) // 2:]], [data[i:i + 4096] for i in range(0, len(data), 4096)]):
                r = run_decoding(response, segs)
                ctx.case(("zm", response, n, len(segs)))
                if (r[0] is None) != (base[0] is None):
                    ctx.violation(f"C03/decoding/member-cap-counted-per-read/{'resp' if response else 'req'}",
                                  {"kind": "z", "response": response, "stream": hx(data), "cuts": [len(x) for x in segs], "members": True},
                                  f"a gzip body of {n} members: whole read err={base[0]}, in {len(segs)} reads err={r[0]} ({len(r[1])} bytes delivered) — "
                                  "the cap on concatenated members (MAX_DECOMPRESS_MEMBERS) is counted per decompress call")
                    break


def _check(ctx):
    rng = ctx.rng
    lines, pending = [], []
    for cfg, data, name in corpus_cases():
        one_stream(ctx, rng, cfg, data, "corpus:" + name, lines, pending)
    # limit probes (every syntactic position at limit-1/limit/limit+1, unequal limits) under all cuts
    from .c10 import limit_probes
    for _ in range(10 if ctx.quick else 100):
        for cfg, data, pos, delta in limit_probes(rng):
            one_stream(ctx, rng, cfg, data, f"probe:{pos}", lines, pending)
        if len(lines) >= 150000:
            flush_model(ctx, lines, pending)
    check_decoding(ctx)
    # every mutation class from a fixed stream, first on every seed
    for data, kind, response in H.deterministic_mutants(16):
        cfg = H.Cfg(response=response, lax=response)
        one_stream(ctx, rng, cfg, data, "fixed:" + kind, lines, pending)
        if len(lines) >= 150000:
            flush_model(ctx, lines, pending)
    n_streams = 600 if ctx.quick else 12000
    for i in range(n_streams):
        mode = rng.random()
        response = mode < 0.35
        lax = response and mode < 0.28
        cfg = H.Cfg(response=response, lax=lax)
        if response:
            cfg.read_until_eof = rng.random() < 0.5
            if rng.random() < 0.15:
                cfg.resp_method = b"HEAD"
        data, kind = gen_stream(rng, response, lax)
        cfg = H.near_limits(rng, data, cfg)
        one_stream(ctx, rng, cfg, data, kind, lines, pending)
        if len(lines) >= 150000:
            flush_model(ctx, lines, pending)
        if ctx.time_left() is not None and ctx.time_left() < 25:
            ctx.notes.append(f"time budget reached after {i + 1} generated streams")
            break
    flush_model(ctx, lines, pending)


def flush_model(ctx, lines, pending):
    """compare what has been collected so far with the model and forget it (keeps the thorough tier's memory flat)"""
    if not lines:
        return
    outs = ctx.model(lines)
    if outs is not None:
        for (case, canon), m in zip(pending, outs):
            ctx.compare(case, canon, m, "HttpParser.feed_data/feed_eof vs Aio.Http.feed/feedEof")
    del lines[:]; del pending[:]


def _replay(ctx, case):
    if case.get("kind") == "z":
        data = unhx(case["stream"]); segs, pos = [], 0
        for n in case["cuts"]:
            segs.append(data[pos:pos + n]); pos += n
        base, r = run_decoding(case["response"], [data]), run_decoding(case["response"], segs)
        if case.get("members"):
            if (r[0] is None) != (base[0] is None):
                ctx.violation(f"C03/decoding/member-cap-counted-per-read/{'resp' if case['response'] else 'req'}", case, "the member cap is hit or not depending on the segmentation")
            return
        if (r[0] is None) != (base[0] is None) or (r[0] is None and (r[1], r[2]) != (base[1], base[2])):
            ctx.violation(f"C03/decoding/segmentation-dependent/{'resp' if case['response'] else 'req'}", case, "decoded outcome depends on segmentation")
        return
    spec = case["cfg"].split(",")
    cfg = H.Cfg(int(spec[0]), int(spec[1]), int(spec[2]), spec[3] == "1", spec[4] == "1", spec[5] == "1", spec[6] == "1", unhx(spec[7]))
    data = unhx(case["stream"])
    segs, pos = [], 0
    for n in case["cuts"]:
        segs.append(data[pos:pos + n]); pos += n
    res = []
    for s in ([data], segs):
        canon, o = H.run_impl(cfg, s, case.get("eof", False))
        res.append((s, case.get("eof", False), o))
    direct_oracle(ctx, cfg, data, "replay", res)


def check(ctx):
    try:
        _check(ctx)
    finally:
        H.hang_report(ctx)     # inputs on which the parser did not return


def replay(ctx, case):
    try:
        _replay(ctx, case)
    finally:
        H.hang_report(ctx)
