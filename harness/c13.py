"""C13 — WebSocket sessions close cleanly in every interleaving.

Implementation under test: aiohttp.web_ws.WebSocketResponse, aiohttp.client_ws.ClientWebSocketResponse,
aiohttp._websocket.writer.WebSocketWriter, the data queue of aiohttp._websocket.reader_py, behind the real
RequestHandler / ResponseHandler, on an in-memory transport, stepped callback by callback under virtual time
(harness/common/c13sim.py).  Model: lean/AioModel/C13.lean; theorems: lean/AioProps/C13.lean.
"""
import itertools, json
from .common import c13sim

PROPERTY = "C13"
LEAN_MODULES = ["AioProps.C13"]
THEOREMS = [
    "Aio.C13.at_most_one_close_frame",
    "Aio.C13.close_frame_implies_closed",
    "Aio.C13.no_data_after_close_frame_fixed",
    "Aio.C13.no_data_after_close_frame_partial",
    "Aio.C13.writer_closing_after_close_frame_fixed",
    "Aio.C13.writer_closing_after_close_frame_partial",
    "Aio.C13.f17_data_after_close",
    "Aio.C13.f17_repaired",
    "Aio.C13.receive_on_closed_session_returns",
    "Aio.C13.close_cancelled_in_close_wait_leaves_transport_open",
    "Aio.C13.client_close_timeout_restarts_per_message",
    "Aio.C13.srv_close_abnormal_exit",
    "Aio.C13.srv_close_reports_peer_code",
    "Aio.C13.cli_close_abnormal_exit",
    "Aio.C13.srv_close_wait_is_timed",
    "Aio.C13.cli_close_wait_is_timed",
    "Aio.C13.heartbeat_rearmed_after_coincidence",
    "Aio.C13.silent_peer_after_coincidence_is_detected",
    "Aio.C13.server_close_deadline_not_restarted",
    "Aio.C13.closing_state_cancels_heartbeat",
    "Aio.C13.crossing_closes_report_peer_code",
    "Aio.C13.srv_close_nodrain_skips_drain",
    "Aio.C13.srv_autoclose_uses_nodrain",
    "Aio.C13.peer_close_while_write_paused_is_not_blocked",
    "Aio.C13.calcWhen_at_or_below_threshold",
    "Aio.C13.calcWhen_above_threshold",
    "Aio.C13.flowControl_parks_only_over_limit_and_paused",
]
RULE = ("One scenario = a session configuration (server|client, autoclose, autoping, heartbeat in {none,2,8,11 s}, "
        "receive timeout in {none,0.75,3 s}, close timeout in {0.5,1.5,10 s}, writer limit in {1,20,65536} / client default) "
        "plus a label sequence over: call <task 0..2> receive|close(code)|send(n)|ping, cancel <task>, peer text|ping|pong|"
        "close(code, incl. empty payload)|protocol-violating frame, drop (clean / with error), pausew/resumew, adv <ms>, "
        "tick (= ONE ready callback, or the clock jumps to the next timer). (a) random sequences of 3-14 events with 0-3 "
        "ticks in between; (b) every permutation of twelve 5-event sets x 4 configurations x {0,1,8} ticks after each event "
        "(thorough: all 120 permutations and also 2 ticks, quick: 8 sampled); (c) the minimal sequence of each known finding. Every scenario is then "
        "driven to quiescence, the connection is dropped, and driven to quiescence again. After every label the projection "
        "of the real objects (session flags, close code, exception kind, writer._closing, wire frames, queue, timers, ready "
        "count, clock, task outcomes) is compared with the Lean model's; the direct oracle judges the wire, the close() "
        "duration, parked tasks at quiescence, transport state, the close code and dead-peer detection (heartbeat configured, peer "
        "silent with the connection open: PING by t+h, session closed 1006 by t+h+h/2, each rounded up <= 1 s) on the real objects alone; "
        "(d) the heartbeat timer firing at the instant a peer frame is processed (frame first), both sides; (e) peer CLOSE received, "
        "autoclose on/off x heartbeat 2/8 s, application waits > 1.5 x heartbeat before close(), peer silent: no PING after the peer's CLOSE, "
        "clean end (peer's code, one CLOSE frame, no exception); (f) peer that keeps sending TEXT/PING/PONG every (timeout-125 ms) for "
        "six rounds after our CLOSE, both sides: close() within the close timeout; (g) crossing closes: receive() parked, peer CLOSE and a "
        "second task's close() at every tick distance, both sides, autoclose on/off; (g2) the peer sends CLOSE but does not read: transport write-paused before / while / after receive() consumes the CLOSE, autoclose on/off, "
        "writer limit default and tiny, with and without senders: receive() must hand the CLOSE over without waiting in drain(); "
        "(h) read-side flow control (oracle only, not in the Lean "
        "model): a transport that honours pause_reading(), single messages of size {L-1,L,L+1,L+4096,2L} around the queue's high-water mark "
        "L=2*DEFAULT_CHUNK_SIZE first/last/between small ones, the peer's next frames in the same or a later segment, segments of 4/64/256 KiB, "
        "fast and slow application, many medium messages, and an eager peer pipelining frames in the handshake segment (server: handler "
        "delays prepare(), read_bufsize default/1/2 MiB): every message arrives in order, receive() ends with the peer's CLOSE, clean end, no stall. A case is "
        "non-trivial when the projection changes at least twice; distinct by (configuration, labels).")
TRUSTED_BASE = [
    "the hand-written model lean/AioModel/C13.lean of web_ws.py / client_ws.py / _websocket/writer.py / WebSocketDataQueue / "
    "BaseProtocol drain / connection_lost paths (tied to the code by trace conformance only)",
    "asyncio semantics as modelled: FIFO call_soon, Task.cancel (_fut_waiter.cancel() else _must_cancel), cancelling()/uncancel(), "
    "asyncio.timeout enter/exit/_on_timeout, eager task start; exercised against CPython 3.12 by the same conformance run",
    "harness/common/c13sim.py: in-memory transport (close()/abort()/drop schedule connection_lost via call_soon; writes after "
    "closing are discarded; data is not delivered once closing) and the one-callback-at-a-time stepping of a real SelectorEventLoop subclass",
    "read-side flow control (WebSocketDataQueue size accounting, protocol pause_reading/resume_reading, RequestHandler._msg_queue_paused) "
    "is not in the Lean model: it is judged by the direct oracle on the real objects only (flow scenarios)",
    "the frame parser is not part of this model (property C12): peer frames enter as parsed messages; 'bad' stands for any frame "
    "the real parser rejects with WebSocketError(1002)",
]
ASSUMPTIONS = [
    "no compression (the uncompressed send_frame path); payloads far below the queue's 2*DEFAULT_CHUNK_SIZE read-pause limit",
    "scenarios in which two armed timers share a deadline are skipped (heap order of equal deadlines is not modelled)",
    "client read_timeout (sock_read) is not configured; timeouts > 0; application calls limited to receive/close/send_bytes/ping from <= 3 tasks",
    "the time bound on close() is judged only on runs without write back-pressure (back-pressure is not one of the property's actors; "
    "with a write-paused transport close() waits in the drain without any timeout)",
    "theorems about data-after-close hold for the unchanged writer only without write-pause (no_data_after_close_frame_partial); "
    "with write-pause they hold for the repaired writer (cfg.fixed) and F17 is the kernel-checked counterexample",
]


def generate(repo):
    import aiohttp.web_ws as web_ws
    import aiohttp.helpers as helpers
    import inspect
    from aiohttp import WSCloseCode, WSMsgType
    from aiohttp.web_protocol import RequestHandler
    from aiohttp.connector import BaseConnector
    from aiohttp._websocket.helpers import MASK_LEN
    thr_s = inspect.signature(RequestHandler.__init__).parameters["timeout_ceil_threshold"].default
    thr_c = inspect.signature(BaseConnector.__init__).parameters["timeout_ceil_threshold"].default
    if thr_s != thr_c:
        raise ValueError("server and client ceil thresholds differ")

    def passes(op):
        return "true" if (int(op) & int(WSMsgType.CLOSE)) else "false"
    if passes(WSMsgType.TEXT) != passes(WSMsgType.BINARY):
        raise ValueError("TEXT and BINARY differ under the _closing test")
    body = (
        "-- GENERATED by harness/c13.py from the aiohttp sources — do not edit\n"
        "namespace Aio.Gen.C13\n"
        "/-- `web_ws.THRESHOLD_CONNLOST_ACCESS` -/\n"
        f"def thresholdConnLostAccess : Nat := {int(web_ws.THRESHOLD_CONNLOST_ACCESS)}\n"
        "/-- `timeout_ceil_threshold` default of `RequestHandler` / `BaseConnector`, in ms -/\n"
        f"def ceilThresholdMs : Nat := {int(thr_s * 1000)}\n"
        "/-- `helpers.DEFAULT_CHUNK_SIZE` (client writer limit) -/\n"
        f"def defaultChunkSize : Nat := {int(helpers.DEFAULT_CHUNK_SIZE)}\n"
        "/-- `WSCloseCode.OK`, `WSCloseCode.ABNORMAL_CLOSURE`, `WSCloseCode.PROTOCOL_ERROR` -/\n"
        f"def codeOk : Nat := {int(WSCloseCode.OK)}\n"
        f"def codeAbnormal : Nat := {int(WSCloseCode.ABNORMAL_CLOSURE)}\n"
        f"def codeProtocolError : Nat := {int(WSCloseCode.PROTOCOL_ERROR)}\n"
        "/-- `MASK_LEN` -/\n"
        f"def maskLen : Nat := {int(MASK_LEN)}\n"
        "/-- `(opcode & WSMsgType.CLOSE) != 0` for TEXT, BINARY, PING, PONG, CLOSE: which frames the writer lets through once `_closing` -/\n"
        f"def passClosingText : Bool := {passes(WSMsgType.TEXT)}\n"
        f"def passClosingPing : Bool := {passes(WSMsgType.PING)}\n"
        f"def passClosingPong : Bool := {passes(WSMsgType.PONG)}\n"
        f"def passClosingClose : Bool := {passes(WSMsgType.CLOSE)}\n"
        "end Aio.Gen.C13\n")
    return {"AioModel/Generated/C13.lean": body}


# ------------------------------------------------------------------------------- encoding
def lab_token(lab):
    k = lab[0]
    if k == "peer" and lab[1] == "text":
        return "peer.text"
    return ".".join(str(x) for x in lab)


def cfg_tokens(cfg, fixed=0):
    return " ".join([
        cfg["side"], str(int(cfg["autoclose"])), str(int(cfg["autoping"])),
        "none" if cfg["heartbeat"] is None else str(cfg["heartbeat"]),
        "none" if cfg["recv_timeout"] is None else str(cfg["recv_timeout"]),
        str(cfg["close_timeout"]), str(cfg["limit"]), str(fixed)])


_VARIANT = {}


def writer_variant():
    """Which writer does the tree under test have?  Probe on the real objects: server, write-paused transport,
    close() parked in the CLOSE frame's drain — is WebSocketWriter._closing already set?  (1 = the repaired
    writer of finding F17, modelled by `cfg.fixed`; 0 = the writer as found.)"""
    if "v" not in _VARIANT:
        cfg = {"side": "server", "autoclose": True, "autoping": True, "heartbeat": None, "recv_timeout": None,
               "close_timeout": 1500, "limit": 1}
        res = c13sim.run_scenario(cfg, [("call", 2, "send", 5), ("tick",), ("pausew",), ("call", 0, "close", 1000), ("tick",)])
        last = res["trace"][-1]
        parked = " dw=p " in last and " fr=T,C1000 " in last
        _VARIANT["v"] = 1 if (parked and " wc=1 " in last) else 0
    return _VARIANT["v"]


def model_line(cfg, labels):
    return "run " + cfg_tokens(cfg, writer_variant()) + "".join(" " + lab_token(l) for l in labels)


# ------------------------------------------------------------------------------- generators
CLIENT_LIMIT = 262144


def rand_cfg(rng):
    side = rng.choice(["server", "client"])
    cfg = {
        "side": side,
        "autoclose": rng.random() < 0.8,
        "autoping": rng.random() < 0.8,
        "heartbeat": rng.choice([None, None, 2000, 8000, 11000]),
        "recv_timeout": rng.choice([None, None, 3000, 750]),
        "close_timeout": rng.choice([1500, 10000, 500]),
        "limit": CLIENT_LIMIT if side == "client" else rng.choice([1, 1, 20, 65536]),
    }
    return cfg


def rand_label(rng, cfg):
    r = rng.random()
    if r < 0.34:
        return ("tick",)
    if r < 0.56:
        t = rng.randrange(3)
        q = rng.random()
        if q < 0.40:
            return ("call", t, "recv")
        if q < 0.72:
            return ("call", t, "close", rng.choice([1000, 1000, 1001, 4000]))
        if q < 0.92:
            big = CLIENT_LIMIT - 20 if cfg["side"] == "client" else 30
            return ("call", t, "send", rng.choice([0, 5, 130, big]))
        return ("call", t, "ping")
    if r < 0.66:
        return ("cancel", rng.randrange(3))
    if r < 0.86:
        q = rng.random()
        if q < 0.3:
            return ("peer", "text", rng.choice([0, 3]))
        if q < 0.45:
            return ("peer", "ping")
        if q < 0.55:
            return ("peer", "pong")
        if q < 0.9:
            return ("peer", "close", rng.choice([1000, 1001, 4000, 0]))
        return ("peer", "bad")
    if r < 0.90:
        return ("drop", rng.randrange(2))
    if r < 0.94:
        return ("adv", rng.choice([125, 375, 1000, 2500]))
    if r < 0.98:
        return ("pausew",)
    return ("resumew",)


def rand_labels(rng, cfg, n):
    out = []
    for _ in range(n):
        l = rand_label(rng, cfg)
        out.append(l)
        if l[0] != "tick" and rng.random() < 0.5:
            out.extend([("tick",)] * rng.randint(1, 3))
    return out



# ------------------------------------------------------------------------------- direct oracle
def parse_proj(line):
    d = dict(kv.split("=", 1) for kv in line.split(" "))
    d["tasks"] = d["t"].split("|")
    d["frames"] = [] if d["fr"] == "-" else d["fr"].split(",")
    d["now"] = int(d["now"])
    return d


def overwritten_by_receive(P, op_at, good):
    """the close code of a closed session was `good` and is replaced at a step in which a receive() call finishes
    (receive() assigns _close_code before calling close(), which is a no-op on a closed session) — and only then"""
    for j in range(1, len(P)):
        if P[j - 1]["c"] == "1" and P[j - 1]["cc"] == good and P[j]["cc"] != good:
            return any(P[j - 1]["tasks"][t] == "p" and P[j]["tasks"][t] != "p" and op_at[j - 1].get(t) == "recv" for t in range(3))
    return False


def oracle(ctx, cfg, labels, trace, a_end, complete, case, a_start=None):
    """The property, judged on the implementation's own observations (no model involved).
    `trace[i]` is the projection of the real objects after `labels[i-1]`."""
    P = [parse_proj(l) for l in trace]
    toks = [lab_token(l) for l in labels]
    paused_ever = any(p["pw"] == "1" for p in P)
    # -- wire: at most one CLOSE frame, no data frame after it
    for i in range(1, len(P)):
        fr, prev = P[i]["frames"], P[i - 1]["frames"]
        if len(fr) > len(prev):
            new = fr[len(prev):]
            closes_before = sum(1 for f in prev if f.startswith("C"))
            for f in new:
                if f.startswith("C"):
                    closes_before += 1
                    if closes_before > 1:
                        ctx.violation("C13/second-close-frame", case, f"wire {fr} after {toks[i-1]}")
                elif f == "T" and closes_before >= 1:
                    b = P[i - 1]
                    # structural: the CLOSE frame is on the wire but WebSocketWriter._closing is still unset,
                    # i.e. close() is parked in (or not yet resumed from) the CLOSE frame's drain
                    where = "send-during-close-drain" if b["wc"] == "0" else "other"
                    ctx.violation(f"C13/data-after-close/{where}", case,
                                  f"wire {','.join(fr)}: data frame written after the CLOSE frame (at {toks[i-1]}, step {i})")
    # -- close() returns within the close timeout (back-pressure is not one of the property's actors:
    #    judged only when the transport was never write-paused)
    T = cfg["close_timeout"]
    if not paused_ever:
        open_calls = {}     # task slot -> index at which its close() call started
        spans = []          # (task, start index, end index or None)
        for i in range(1, len(P)):
            lab = labels[i - 1]
            if lab[0] == "call" and lab[2] == "close" and P[i - 1]["tasks"][lab[1]] != "p" and P[i]["tasks"][lab[1]] == "p":
                open_calls[lab[1]] = i
            for t in list(open_calls):
                if P[i]["tasks"][t] != "p":
                    spans.append((t, open_calls.pop(t), i))
        spans += [(t, i0, None) for t, i0 in open_calls.items()]
        for t, i0, i1 in spans:
            end = len(P) - 1 if i1 is None else i1
            dur = P[end]["now"] - P[i0]["now"]
            if dur <= T:
                continue
            # structural: non-CLOSE peer frames reached the queue while this close() was waiting and close() returned within
            # one timeout of the last of them = the deadline is re-armed per message (client: known finding F22; the server has
            # one deadline around its loop, so the server signature is a different violation).  Anything longer is something else.
            msgs = [j for j in range(i0 + 1, end + 1)
                    if labels[j - 1][0] == "peer" and labels[j - 1][1] in ("text", "ping", "pong")
                    and P[j - 1]["tasks"][t] == "p" and P[j - 1]["tc"] == "0"]
            restarted = bool(msgs) and i1 is not None and P[end]["now"] <= P[msgs[-1]]["now"] + T
            ctx.violation("C13/close-exceeds-timeout/" + (cfg["side"] + "-timeout-restarts-per-message" if restarted else "other"),
                          case, f"close() of task {t} {'returned' if i1 is not None else 'still running'} after {dur} ms > close timeout {T} ms")
    if a_end is None or not complete:
        return
    A, B = P[a_end], P[-1]
    running = {}   # task slot -> op of the call that is in progress (a call on a busy slot is ignored)
    op_at = []
    for i in range(len(P)):
        if i >= 1:
            lab = labels[i - 1]
            if lab[0] == "call" and P[i - 1]["tasks"][lab[1]] != "p":
                running[lab[1]] = lab[2]
        op_at.append(dict(running))
    # -- receive() never blocks forever; close() returns
    for t, st in enumerate(B["tasks"]):
        if st == "p":
            op = op_at[-1][t]
            ctx.violation(f"C13/{'receive' if op == 'recv' else op}-parked/after-connection-lost", case,
                          f"task {t} ({op}) still blocked at quiescence after the connection was lost: {trace[-1]}")
    if A["tc"] == "1":
        for t, st in enumerate(A["tasks"]):
            if st == "p" and A["pw"] == "0":
                op = op_at[a_end][t]
                if op == "recv":
                    ctx.violation("C13/receive-parked/transport-closed", case,
                                  f"receive() of task {t} blocked with nothing left to wake it: {trace[a_end]}")
    # -- dead-peer detection (heartbeat): phase A of the epilogue is a peer that stays silent but keeps the
    #    connection open.  With heartbeat h, a session that is open when the silence starts (time t) must put a
    #    PING on the wire by t + h and, no PONG coming, must be closed abnormally (1006, transport closed, a
    #    parked receive() released) by t + h + h/2; each deadline may be rounded up to a whole second
    #    (calculate_timeout_when).  Whatever else the application does meanwhile can only close it earlier.
    hbt = cfg["heartbeat"]
    if hbt is not None and a_start is not None:
        S = P[a_start]
        if S["c"] == "0" and S["g"] == "0" and S["tc"] == "0":
            t0 = S["now"]
            quantum = 1000
            ping_by = t0 + hbt + quantum
            closed_by = t0 + hbt + hbt // 2 + 2 * quantum
            closed_i = next((i for i in range(a_start, a_end + 1) if P[i]["c"] == "1"), None)
            n_ping0 = S["frames"].count("P")
            ping_i = next((i for i in range(a_start, a_end + 1) if P[i]["frames"].count("P") > n_ping0), None)
            if closed_i is None and A["g"] == "1":
                pass   # the peer's CLOSE (or a local close) was consumed meanwhile: not a silent peer; heartbeat rightly cancelled
            elif closed_i is None:
                parked = [t for t, st in enumerate(A["tasks"]) if st == "p" and op_at[a_end].get(t) == "recv"]
                ctx.violation("C13/dead-peer-undetected/" + ("receive-parked" if parked else "session-left-open"), case,
                              f"heartbeat {hbt} ms, peer silent from t={t0} ms with the connection open: at quiescence (t={A['now']} ms) the "
                              f"session is still open, {'no PING was sent' if ping_i is None else 'a PING was sent'}, "
                              f"{'receive() of task %d is blocked for ever' % parked[0] if parked else 'no receive() in progress'}: {trace[a_end]}")
            else:
                if P[closed_i]["now"] > closed_by:
                    ctx.violation("C13/dead-peer-detected-late", case,
                                  f"heartbeat {hbt} ms, peer silent from t={t0}: session closed only at t={P[closed_i]['now']} > {closed_by}")
                if ping_i is None and P[closed_i]["now"] > ping_by:
                    ctx.violation("C13/dead-peer-no-ping", case,
                                  f"heartbeat {hbt} ms, peer silent from t={t0}: no PING by t={ping_by}, session closed at t={P[closed_i]['now']}")
                if ping_i is not None and P[ping_i]["now"] > ping_by and P[closed_i]["now"] > ping_by:
                    ctx.violation("C13/dead-peer-ping-late", case,
                                  f"heartbeat {hbt} ms, peer silent from t={t0}: first PING at t={P[ping_i]['now']} > {ping_by}")
    # -- once receive() has handed the peer's CLOSE(c) to the application (session closing) and the peer stays
    #    silent and nothing else goes wrong: no PING may be sent any more (the heartbeat must be off — a PING
    #    after the peer's CLOSE can never be answered), and when the session ends it ends cleanly: the peer's
    #    code, exactly one CLOSE frame from us, no exception recorded.
    k = None
    pcode = None
    for i in range(1, a_end + 1):
        for t in range(3):
            st = P[i]["tasks"][t]
            if st.startswith("r:CLOSE") and st[7:].isdigit() and P[i - 1]["tasks"][t] == "p":
                k, pcode = i, st[7:]
                break
        if k is not None:
            break
    faults_a = any(l[0] in ("cancel", "drop", "pausew") or (l[0] == "peer" and l[1] == "bad") for l in labels[:a_end])
    if k is not None and pcode != "0" and not faults_a and not any(l[0] == "peer" for l in labels[k:a_end]) \
            and P[k - 1]["tc"] == "0" and (P[k - 1]["c"] == "0" or (P[k - 1]["cc"] == "-" and P[k - 1]["ex"] == "-")):
        # (the session may already be `closed` at that moment only because another task's close() is in flight:
        #  our CLOSE is out, no code and no exception recorded yet — crossing closes, still a clean handshake)
        n_ping = P[k]["frames"].count("P")
        j = next((j for j in range(k + 1, a_end + 1) if P[j]["frames"].count("P") > n_ping), None)
        app_ping = any(l[0] == "call" and l[2] == "ping" for l in labels[:a_end])   # ws.ping() by the application itself
        if j is not None and not app_ping:
            ctx.violation("C13/peer-close-received/ping-sent-afterwards", case,
                          f"receive() returned the peer's CLOSE({pcode}) at step {k} (t={P[k]['now']} ms), the peer is silent, yet a PING "
                          f"was written at t={P[j]['now']} ms: the heartbeat is still running in closing state: {trace[j]}")
        if A["c"] == "1" and all(st != "p" for st in A["tasks"]):
            n_close = sum(1 for f in A["frames"] if f.startswith("C"))
            if A["cc"] != pcode or n_close != 1 or A["ex"] != "-":
                over = any(p["c"] == "1" and p["cc"] == pcode for p in P[k:a_end])
                over_recv = overwritten_by_receive(P[:a_end + 1], op_at, pcode)
                # structural: the peer's code was already recorded on the closed session, then a close() whose read() had been
                # woken for that very CLOSE found the queue empty (receive() took the message) -> EofStream -> 1006
                stolen = over and n_close == 1 and A["cc"] == "1006" and A["ex"] == "eof"
                ctx.violation("C13/close-code/receive-overwrites-code-of-closed-session" if (over_recv and n_close == 1 and A["ex"] == "-")
                              else "C13/close-code/close-overwrites-peer-code-after-receive-took-the-close" if stolen
                              else "C13/peer-close-received/not-a-clean-end", case,
                              f"peer's CLOSE({pcode}) was received and nothing went wrong afterwards, but the session ended with close code "
                              f"{A['cc']}, {n_close} CLOSE frame(s) sent, exception {A['ex']}: {trace[a_end]}")
    # -- the peer's CLOSE has arrived and receive() has consumed it (closing, peer's code recorded, autoclose running):
    #    receive() must hand the CLOSE to the application even when the peer does not read (write-paused transport):
    #    the autoclose must not wait for the transport to drain.  Only the writer's own flow control may hold the CLOSE
    #    frame back (send_frame parks when _output_size exceeded the writer limit and resets it to 0) — a parked receive()
    #    with _output_size > 0 is therefore waiting in StreamWriter.drain(), which nothing bounds while the peer stays away.
    if cfg["side"] == "server" and A["pw"] == "1" and A["g"] == "1" and A["c"] == "1" and A["dw"] == "p" and int(A["os"]) > 0 \
            and A["cc"] not in ("-", "1006"):
        for t, st in enumerate(A["tasks"]):
            if st == "p" and op_at[a_end].get(t) == "recv" and not any(
                    st2 == "p" and op_at[a_end].get(t2) == "close" for t2, st2 in enumerate(A["tasks"])):
                ctx.violation("C13/receive-parked/autoclose-waits-for-drain", case,
                              f"the peer's CLOSE({A['cc']}) was consumed by receive() of task {t}, our CLOSE frame is written, but receive() is "
                              f"parked in drain() on the write-paused transport with nothing to bound it (close timeout {cfg['close_timeout']} ms): {trace[a_end]}")
    # a close() call ended by CancelledError (at the `_close_wait` await when that future exists)
    close_cancelled = any(
        P[i]["tasks"][t] == "x:cancelled" and P[i - 1]["tasks"][t] == "p" and op_at[i - 1].get(t) == "close"
        for i in range(1, len(P)) for t in range(3))
    closing_msg = cfg["side"] == "server" and any("r:CLOSING" in p["tasks"] for p in P)
    # -- the transport is closed once the session is closed (all application calls have returned)
    if A["c"] == "1" and A["tc"] == "0" and all(st != "p" for st in A["tasks"]):
        ctxname = ("close-cancelled-in-close-wait" if A["cw"] == "c" or (A["cw"] == "d" and close_cancelled)
                   else "close-cancelled" if close_cancelled else "other")
        ctx.violation(f"C13/transport-open-after-closed/{ctxname}", case,
                      f"session closed, no call in progress, nothing pending, transport still open: {trace[a_end]}")
    # -- reported close code
    delivered = []   # codes of peer CLOSE frames that reached the session's queue
    for i in range(1, len(P)):
        lab = labels[i - 1]
        if lab[0] == "peer" and lab[1] == "close" and int(P[i]["buf"]) == int(P[i - 1]["buf"]) + 1:
            delivered.append(lab[2])
    faults = any(l[0] in ("cancel", "drop", "pausew") or (l[0] == "peer" and l[1] == "bad") for l in labels[:a_end])
    timed_out = any(st == "x:timeout" for p in P[:a_end + 1] for st in p["tasks"]) or A["ex"] != "-"
    if A["c"] == "1" and not faults and not timed_out and delivered and delivered[0] != 0 \
            and any(f.startswith("C") for f in A["frames"]):
        if A["cc"] != str(delivered[0]):
            over = overwritten_by_receive(P[:a_end + 1], op_at, str(delivered[0]))
            ctx.violation("C13/close-code/" + ("receive-overwrites-code-of-closed-session" if over
                                               else "server-closing-message-sets-ok" if (closing_msg and A["cc"] == "1000")
                                               else "clean-handshake-wrong-code"), case,
                          f"clean handshake, peer's code {delivered[0]}, reported {A['cc']}: {trace[a_end]}")
    if B["c"] == "1" and not delivered and B["cc"] != "1006":
        if B["cw"] != "-" and close_cancelled and B["cc"] in ("-", "1000"):
            kind = "close-cancelled-in-close-wait"
        elif overwritten_by_receive(P, op_at, "1006"):
            ctx.violation("C13/close-code/receive-overwrites-code-of-closed-session", case,
                          f"session was closed with code 1006, a later receive() replaced it by {B['cc']}: {trace[-1]}")
            return
        elif closing_msg and B["cc"] == "1000":
            ctx.violation("C13/close-code/server-closing-message-sets-ok", case,
                          f"server close() from another task: CLOSING message sets code 1000, no CLOSE from the peer was read: {trace[-1]}")
            return
        elif cfg["side"] == "client" and B["cc"] == "1002" and any(l[0] == "peer" and l[1] == "bad" for l in labels):
            kind = "client-protocol-error-reports-sent-code"
        else:
            kind = cfg["side"] + "-other"
        ctx.violation(f"C13/close-code/abnormal-not-1006/{kind}", case,
                      f"no CLOSE frame ever received from the peer, reported close code {B['cc']}: {trace[-1]}")


def oracle_f9(ctx, cfg, size, seg):
    res = c13sim.run_fragment_wedge(cfg, size, seg)
    ctx.hit("f9:" + res["status"])
    if res["status"] == "p" and res["idle"]:
        from aiohttp.http_websocket import WebSocketReader
        import inspect
        cap = max(1024, 4 * 1024 * 1024 // 256)      # WebSocketReader._max_fragments for the default max_msg_size
        # narrow: the known wedge needs more reads than the fragment cap and a read-paused transport; any other stall is new
        sig = ("C13/receive-parked/reader-pause-wedge" if (res["read_paused"] and res["reads"] > cap and res["undelivered"] > 0)
               else "C13/receive-parked/fragmented-frame-other")
        ctx.violation(sig, {"kind": "f9", "cfg": cfg, "size": size, "seg": seg},
                      f"receive() parked forever: transport read-paused={res['read_paused']} after {res['reads']} reads, "
                      f"{res['undelivered']} bytes of the frame never read, nothing ready, no timer")
    return res


def oracle_flow(ctx, plan):
    """Read-side flow control, judged on the real objects (this part of the code is not in the Lean model): a peer
    sends legal frames ending with CLOSE through a transport that honours pause_reading(); an application task reads
    until a terminal message.  Every message must arrive, in order; receive() must end with the peer's CLOSE; the
    session must end closed with the peer's code and the transport closed; nothing may be left stalled."""
    res = c13sim.run_flow(plan)
    case = {"kind": "flow", "plan": plan}
    if res.get("setup_failed"):
        ctx.violation("C13/flow/handshake-never-completed", case, "the upgrade never completed")
        return res
    exp = [(f[0], f[1]) for f in plan["frames"] if f[0] in ("bin", "text")]
    code = next(f[1] for f in plan["frames"] if f[0] == "close")
    exp_all = exp + [(f"CLOSE{code}",)]
    if plan.get("app") in ("iter", "handler"):
        exp_all = exp + [("ITER_END",)]       # `async for` ends silently at the peer's CLOSE
    got = [tuple(g) for g in res["got"]]
    ctx.hit("flow:" + plan["side"], "flow:pauses>0" if res["pauses"] else "flow:no-pause",
            "flow:eager" if plan.get("eager") else "flow:after-handshake")
    state = (f"read {len(got)}/{len(exp_all)} messages, transport read-paused={res['read_paused']} with {res['inbox_left']} bytes unread, "
             f"protocol._reading_paused={res['proto_reading_paused']} _msg_queue_paused={res['msg_queue_paused']}, queue size={res['queue_size']} "
             f"({res['queue_len']} messages), pauses/resumes={res['pauses']}/{res['resumes']}, closed={res['closed']} close_code={res['close_code']}")
    if not res["app_done"]:
        if res["read_paused"] and res["inbox_left"] and not res["tr_closing"]:
            why = ("reader-queue-flag-stuck" if res["proto_reading_paused"]
                   else "msg-queue-flag-stuck" if res["msg_queue_paused"] else "other")
            ctx.violation(f"C13/receive-parked/read-paused-never-resumed/{why}", case,
                          "receive() is blocked for ever, nothing is ready and no timer is armed: " + state)
        else:
            ctx.violation("C13/receive-parked/flow-other", case, "receive() is blocked for ever: " + state)
        return res
    if res["app_error"] is not None:
        ctx.violation("C13/flow/receive-raised", case, f"receive() raised {res['app_error']}: " + state)
        return res
    if got != exp_all:
        k = next((i for i in range(min(len(got), len(exp_all))) if got[i] != exp_all[i]), min(len(got), len(exp_all)))
        ctx.violation("C13/flow/wrong-message-sequence", case,
                      f"message {k}: got {got[k] if k < len(got) else None}, expected {exp_all[k] if k < len(exp_all) else None}: " + state)
        return res
    if not (res["closed"] and res["close_code"] == code and res["tr_closing"]):
        ctx.violation("C13/flow/not-a-clean-end", case, "all messages read, but: " + state)
    return res


def flow_plans(rng, quick):
    L = 2 * CLIENT_LIMIT     # WebSocketDataQueue high-water mark: limit * 2 with limit = DEFAULT_CHUNK_SIZE
    plans = []
    sizes = [L - 1, L, L + 1, L + 4096, 2 * L] if not quick else [L - 1, L + 1, L + 4096]
    for side in ("server", "client"):
        for n in sizes:
            for seg in ((65536, 262144) if quick else (4096, 65536, 262144)):
                for delay in (0, 5):
                    # the big message last / first / between small ones
                    plans.append({"side": side, "frames": [("bin", n), ("text", 5), ("close", 4001)], "seg": seg, "app_delay_ms": delay})
                    plans.append({"side": side, "frames": [("text", 7), ("bin", n), ("ping",), ("text", 5), ("text", 6), ("close", 1000)],
                                  "seg": seg, "app_delay_ms": delay})
                    # the peer's next frames come in a later segment: the big message is alone in the queue when it is read
                    plans.append({"side": side, "frames": [("bin", n), ("text", 5), ("close", 4001)], "seg": seg, "app_delay_ms": delay,
                                  "split_after": 1, "gap_ms": 125})
                    plans.append({"side": side, "frames": [("text", 3), ("bin", n), ("bin", n), ("close", 1000)], "seg": seg,
                                  "app_delay_ms": delay, "split_after": 2, "gap_ms": 250})
        # the application shapes users actually write: `async for msg in ws` in a task, and a server handler that iterates and returns
        for app in (("iter", "handler") if side == "server" else ("iter",)):
            for frames in ([("text", 5), ("ping",), ("bin", 70000), ("close", 4001)], [("close", 1000)],
                           [("bin", L + 4096), ("text", 1), ("close", 1001)]):
                for delay in (0, 5):
                    plans.append({"side": side, "frames": frames, "seg": 65536, "app": app, "app_delay_ms": delay})
            plans.append({"side": side, "frames": [("bin", 30000)] * 30 + [("close", 1000)], "seg": 65536, "app": app, "eager": True,
                          "app_delay_ms": 5, **({"pre_delay_ms": 1000, "read_bufsize": 2 ** 20} if side == "server" else {})})
        # many medium messages that together cross the mark while the application is slow
        for k, n in ((40, 30000), (12, 100000)):
            plans.append({"side": side, "frames": [("bin", n)] * k + [("text", 1), ("close", 4000)], "seg": 65536, "app_delay_ms": 5})
        # eager peer: frames pipelined in the same bytes as the handshake
        for k, n in ((40, 30000), (3, 300000), (1, L + 4096)):
            frames = [("bin", n)] * k + [("text", 2), ("close", 1000)]
            if side == "client":
                plans.append({"side": side, "frames": frames, "seg": 65536, "eager": True, "app_delay_ms": 0})
            else:
                for rb in (None, 2 ** 20, 2 ** 21):
                    for pre in (0, 1000):
                        for seg in (65536, 262144):
                            plans.append({"side": side, "frames": frames, "seg": seg, "eager": True, "pre_delay_ms": pre,
                                          "read_bufsize": rb, "app_delay_ms": rng.choice([0, 5])})
    return plans


# ------------------------------------------------------------------------------- structured / exhaustive
BASE_CFGS = [
    {"side": "server", "autoclose": True, "autoping": True, "heartbeat": None, "recv_timeout": None, "close_timeout": 1500, "limit": 1},
    {"side": "client", "autoclose": True, "autoping": True, "heartbeat": None, "recv_timeout": None, "close_timeout": 1500, "limit": CLIENT_LIMIT},
    {"side": "server", "autoclose": False, "autoping": True, "heartbeat": 2000, "recv_timeout": 750, "close_timeout": 500, "limit": 65536},
    {"side": "client", "autoclose": False, "autoping": False, "heartbeat": 2000, "recv_timeout": 3000, "close_timeout": 500, "limit": CLIENT_LIMIT},
]

EVENT_SETS = [
    [("call", 0, "recv"), ("call", 1, "close", 1000), ("peer", "close", 4000), ("cancel", 0), ("drop", 0)],
    [("call", 0, "recv"), ("call", 1, "close", 1000), ("peer", "close", 4000), ("cancel", 1), ("peer", "text", 3)],
    [("call", 0, "recv"), ("call", 1, "close", 1000), ("call", 2, "close", 1001), ("peer", "close", 1000), ("drop", 1)],
    [("call", 0, "close", 1000), ("call", 1, "send", 5), ("pausew",), ("resumew",), ("cancel", 0)],
    [("call", 0, "close", 1000), ("call", 1, "send", 5), ("pausew",), ("drop", 0), ("call", 2, "recv")],
    [("call", 0, "recv"), ("peer", "ping"), ("pausew",), ("call", 1, "close", 1000), ("cancel", 0)],
    [("call", 0, "recv"), ("peer", "bad"), ("call", 1, "close", 1000), ("peer", "close", 1000), ("cancel", 1)],
    [("call", 0, "recv"), ("call", 0, "recv"), ("peer", "close", 1000), ("peer", "text", 3), ("call", 1, "recv")],
    [("call", 0, "close", 1000), ("adv", 375), ("peer", "text", 3), ("adv", 375), ("peer", "close", 1000)],
    [("call", 0, "recv"), ("adv", 2000), ("peer", "pong"), ("adv", 1000), ("call", 1, "close", 1000)],
    [("call", 0, "recv"), ("call", 1, "close", 1000), ("cancel", 1), ("call", 2, "recv"), ("peer", "close", 1000)],
    [("call", 0, "send", 130), ("call", 1, "ping"), ("pausew",), ("call", 2, "close", 4000), ("cancel", 0)],
]


def exhaustive_cases(rng, quick):
    """all orderings of each 5-event set, with 0 / 1 / 'until nothing is ready' ticks after every event"""
    cases = []
    for cfg in BASE_CFGS:
        for ev in EVENT_SETS:
            perms = sorted(set(itertools.permutations(ev)))
            if quick:
                perms = rng.sample(perms, min(len(perms), 8))
            for perm in perms:
                for mode in ((0, 1, 8) if quick else (0, 1, 2, 8)):
                    labels = []
                    for e in perm:
                        labels.append(e)
                        labels.extend([("tick",)] * mode)
                    cases.append((cfg, labels))
    return cases


class _Hang(Exception):
    pass


def _guarded(cfg, labels, budget_s=60):
    """run one scenario under a wall-clock watchdog: a callback that never gives control back to the loop (busy loop in
    the code under test) must end this scenario with a replay, not hang the check"""
    import signal

    def on_alarm(signum, frame):
        raise _Hang()
    old = signal.signal(signal.SIGALRM, on_alarm)
    signal.setitimer(signal.ITIMER_REAL, budget_s)
    try:
        return c13sim.run_scenario(cfg, labels, epilogue=True)
    except _Hang:
        return None
    finally:
        signal.setitimer(signal.ITIMER_REAL, 0)
        signal.signal(signal.SIGALRM, old)


def run_and_judge(ctx, cases, where):
    results = []
    kept = []
    for cfg, labels in cases:
        r = _guarded(cfg, labels)
        if r is None:
            ctx.violation("C13/callback-never-returns", {"kind": "run", "cfg": cfg, "labels": [lab_token(l) for l in labels]},
                          "one loop callback ran for more than 60 s of wall time: the session code does not give control back")
            continue
        kept.append((cfg, labels)); results.append(r)
    cases = kept
    outs = ctx.model([model_line(cfg, res["labels"]) for (cfg, _), res in zip(cases, results)])
    for i, ((cfg, labels0), res) in enumerate(zip(cases, results)):
        labels = res["labels"]
        case = {"kind": "run", "cfg": cfg, "labels": [lab_token(l) for l in labels0]}
        if res["tie"]:
            # two armed timers share a deadline: their order is not modelled, so no comparison with the model —
            # but the oracle judges the real objects and needs no model
            ctx.hit("skipped:timer-tie")
            oracle(ctx, cfg, labels, res["trace"], res["a_end"], res["complete"], case, a_start=len(labels0))
            continue
        if not res["complete"]:
            # liveness budget: with a silent peer (phase A) and after the connection is lost (phase B) the session must become
            # quiescent within 400 loop steps each; a timer/callback that re-arms itself for ever is a violation, not a skip
            ctx.hit("epilogue-truncated")
            ctx.violation("C13/no-quiescence/callbacks-or-timers-rearm-for-ever", case,
                          f"after the scripted events the loop did not become idle within 400 steps (silent peer, then connection lost): {res['trace'][-1]}")
        last = res["trace"][-1]
        ctx.case((where, cfg, [lab_token(l) for l in labels0]), nontrivial=len(set(res["trace"])) > 2,
                 sample={"cfg": cfg, "labels": [lab_token(l) for l in labels0][:24], "final": last} if i % 997 == 0 else None)
        ctx.hit(where, "side:" + cfg["side"])
        d = parse_proj(last)
        for st in d["tasks"]:
            ctx.hit("task:" + st)
        ctx.hit("code:" + d["cc"], "exc:" + d["ex"])
        for l in labels0:
            ctx.hit("label:" + l[0] + ("." + str(l[2]) if l[0] == "call" else "." + str(l[1]) if l[0] == "peer" else ""))
        if any(p.split(" dw=")[1][0] == "p" for p in res["trace"]):
            ctx.hit("state:parked-in-drain")
        if " cw=p" in " ".join(res["trace"]):
            ctx.hit("state:close-wait-pending")
        if " pt=1" in " ".join(res["trace"]):
            ctx.hit("state:ping-task-parked")
        if res.get("hb_fired_reset_pending"):
            ctx.hit("state:heartbeat-fired-while-reset-pending:" + cfg["side"])
        oracle(ctx, cfg, labels, res["trace"], res["a_end"], res["complete"], case, a_start=len(labels0))
        if outs is not None:
            impl = res["trace"]
            model = outs[i].split(";")
            ctx.compared += 1
            if impl != model:
                k = next((j for j in range(min(len(impl), len(model))) if impl[j] != model[j]), min(len(impl), len(model)))
                ctx.mismatch(dict(case, all_labels=[lab_token(l) for l in labels], first_diff_after=k),
                             impl[k] if k < len(impl) else None, model[k] if k < len(model) else None,
                             "trace conformance: real session vs Aio.C13.step (" + where + ")")


F9_CFG = {"side": "server", "autoclose": True, "autoping": True, "heartbeat": None, "recv_timeout": None,
          "close_timeout": 10000, "limit": 65536}


def corpus_cases():
    """one scripted scenario per mechanism the check claims to catch — run first on every seed, independent of the random stream"""
    srv, cli = BASE_CFGS[0], BASE_CFGS[1]
    out = []
    for base in (srv, cli):
        big_eq = 18 if base["side"] == "server" else CLIENT_LIMIT - 14      # header + payload (+ mask) == writer limit exactly
        lim = dict(base, limit=20) if base["side"] == "server" else base
        # two closers, with and without a parked receive(); close again afterwards; send / ping after the close
        out.append((base, [("call", 0, "close", 1000), ("call", 1, "close", 1001), ("tick",), ("tick",), ("tick",), ("peer", "close", 4000),
                           ("tick",), ("tick",), ("call", 2, "close", 1000), ("tick",), ("call", 2, "send", 5), ("tick",), ("call", 2, "ping"), ("tick",)]))
        out.append((base, [("call", 2, "recv"), ("tick",), ("call", 0, "close", 1000), ("tick",), ("call", 1, "close", 1001), ("tick",),
                           ("tick",), ("tick",), ("peer", "close", 4000), ("tick",), ("tick",)]))
        # a receive() that timed out leaves the queue's waiter slot clean: the next frame and the next receive() work
        rt = dict(base, recv_timeout=750)
        out.append((rt, [("call", 0, "recv"), ("tick",), ("tick",), ("tick",), ("tick",), ("peer", "text", 3), ("tick",), ("call", 0, "recv"),
                         ("tick",), ("tick",), ("call", 1, "recv"), ("tick",), ("peer", "text", 3), ("tick",), ("tick",)]))
        out.append((rt, [("call", 0, "recv"), ("tick",), ("cancel", 0), ("peer", "text", 3), ("tick",), ("call", 1, "recv"), ("tick",), ("tick",)]))
        # tasks parked in the writer's drain are released by a clean and by an unclean connection loss and by resume
        for fin in (("drop", 0), ("drop", 1), ("resumew",)):
            out.append((lim, [("pausew",), ("call", 0, "send", 30 if base["side"] == "server" else CLIENT_LIMIT), ("tick",),
                              ("call", 1, "close", 1000), ("tick",), ("call", 2, "ping"), ("tick",), fin, ("tick",), ("tick",), ("tick",), ("tick",)]))
        # the writer's flow-control threshold: _output_size == limit does not drain, limit + 1 does
        out.append((lim, [("pausew",), ("call", 0, "send", big_eq), ("tick",), ("call", 1, "send", 0), ("tick",), ("resumew",), ("tick",)]))
        out.append((lim, [("pausew",), ("call", 0, "send", big_eq + 1), ("tick",), ("call", 1, "send", 0), ("tick",), ("resumew",), ("tick",)]))
        # heartbeat: ping, pong in time, next ping, no pong -> 1006 (parked receive() gets the ERROR message)
        hb = dict(base, heartbeat=2000)
        out.append((hb, [("call", 0, "recv"), ("tick",), ("tick",), ("tick",), ("adv", 500), ("peer", "pong"), ("tick",), ("tick",), ("tick",)]))
        # calculate_timeout_when: deadlines above the 5 s threshold are rounded up to whole seconds, at or below it they are not
        for h in (5000, 5250, 10000, 10250):
            out.append((dict(base, heartbeat=h), [("adv", 125), ("peer", "text", 3), ("tick",), ("tick",), ("call", 0, "recv"), ("tick",), ("tick",)]))
        # empty CLOSE payload, protocol error, EOF while receive() is parked
        out.append((base, [("call", 0, "recv"), ("tick",), ("peer", "close", 0), ("tick",), ("tick",), ("tick",)]))
        out.append((base, [("call", 0, "recv"), ("tick",), ("peer", "bad"), ("tick",), ("tick",), ("peer", "text", 3), ("tick",)]))
        out.append((base, [("call", 0, "recv"), ("tick",), ("drop", 0), ("tick",), ("tick",), ("tick",), ("call", 0, "recv"), ("tick",)]))
        out.append((dict(base, autoping=False), [("call", 0, "recv"), ("tick",), ("peer", "ping"), ("tick",), ("call", 0, "recv"), ("tick",),
                                                  ("peer", "pong"), ("tick",)]))
    return out


def check(ctx):
    rng = ctx.rng
    run_and_judge(ctx, corpus_cases(), "corpus")
    ctx.extra["writer_variant"] = ("repaired (F17 fixed): model run with cfg.fixed = true — no_data_after_close_frame_fixed applies"
                                   if writer_variant() else
                                   "as found: model run with cfg.fixed = false — no_data_after_close_frame_partial + counterexample f17_data_after_close apply")
    ctx.hit("writer-variant:" + str(writer_variant()))
    # 1. random label sequences
    cases = []
    n = 6000 if ctx.quick else 150000
    for _ in range(n):
        cfg = rand_cfg(rng)
        labels = rand_labels(rng, cfg, rng.randint(3, 14))
        if rng.random() < 0.15:
            labels += [("call", rng.randrange(3), "recv"), ("tick",)] * rng.randint(1, 7)
        cases.append((cfg, labels))
    run_and_judge(ctx, cases, "random")
    # 2. all orderings of small event sets
    ex = exhaustive_cases(rng, ctx.quick)
    run_and_judge(ctx, ex, "orderings")
    if not ctx.quick:
        ctx.exhaustive = True
        ctx.extra["exhaustive_orderings"] = (f"{len(EVENT_SETS)} five-event sets x {len(BASE_CFGS)} configurations: every permutation, "
                                             "with 0, 1, 2 and 8 ticks after each event, then driven to quiescence, connection dropped, quiescence")
    # 3. F17 and F9 directed
    for cfg in BASE_CFGS[:2]:
        big = CLIENT_LIMIT - 20 if cfg["side"] == "client" else 5
        f17 = [("call", 2, "send", big), ("tick",), ("pausew",), ("call", 0, "close", 1000), ("tick",),
               ("call", 1, "send", 5), ("tick",), ("resumew",)]
        run_and_judge(ctx, [(cfg, f17)], "directed-f17")
    # the other deviations found so far, each by its minimal label sequence (so that every run re-examines them)
    srv, cli = BASE_CFGS[0], BASE_CFGS[1]
    directed = [
        (srv, [("call", 0, "recv"), ("tick",), ("call", 1, "close", 1000), ("tick",), ("cancel", 1)]),
        (cli, [("call", 0, "close", 1000), ("tick",), ("adv", 1000), ("peer", "text", 3), ("tick",), ("tick",),
               ("adv", 1000), ("peer", "text", 3), ("tick",), ("tick",)]),
        (srv, [("call", 0, "recv"), ("tick",), ("call", 1, "close", 4000)]),
        (cli, [("call", 0, "recv"), ("tick",), ("peer", "bad")]),
        (dict(srv, heartbeat=2000), [("call", 0, "recv"), ("tick",), ("tick",), ("tick",), ("tick",), ("peer", "bad"), ("tick",), ("tick",)]),
        (cli, [("call", 1, "recv"), ("call", 0, "close", 1000), ("call", 2, "close", 1000), ("tick",), ("tick",), ("peer", "close", 1001)]),
        (cli, [("call", 0, "recv"), ("tick",), ("call", 2, "close", 1000), ("call", 1, "close", 1000), ("tick",), ("tick",),
               ("peer", "close", 1001)]),
    ]
    run_and_judge(ctx, directed, "directed-findings")
    # receive() on a closed session, repeatedly (server: THRESHOLD_CONNLOST_ACCESS boundary)
    post = []
    for cfg in BASE_CFGS:
        for opener in ([("call", 0, "close", 1000), ("tick",), ("peer", "close", 1000), ("tick",), ("tick",)],
                       [("call", 0, "recv"), ("tick",), ("peer", "close", 4000), ("tick",), ("tick",), ("tick",)],
                       [("drop", 1), ("tick",), ("call", 0, "recv"), ("tick",), ("tick",)]):
            post.append((cfg, opener + [("call", 1, "recv"), ("tick",)] * 7))
    run_and_judge(ctx, post, "receive-after-closed")
    # heartbeat: the timer fires while a heartbeat reset is pending (a peer frame was processed at the very
    # instant of the deadline, frame first), then the peer goes silent — on both sides, with and without a parked receive()
    hbs = []
    for base in (srv, cli):
        for hb in (2000, 8000):
            c = dict(base, heartbeat=hb)
            for frame_lab in (("peer", "text", 3), ("peer", "pong"), ("peer", "ping")):
                hbs.append((c, [("tick",), frame_lab, ("tick",), ("tick",)]))
                hbs.append((c, [("call", 0, "recv"), ("tick",), ("tick",), frame_lab, ("tick",), ("tick",), ("tick",),
                                ("call", 0, "recv"), ("tick",)]))
                hbs.append((c, [("call", 0, "recv"), ("tick",), ("adv", 1000), frame_lab, ("tick",), ("tick",), ("tick",),
                                ("tick",), frame_lab, ("tick",), ("tick",), ("call", 0, "recv"), ("tick",)]))
    run_and_judge(ctx, hbs, "heartbeat-coincidence")
    # the peer's CLOSE arrives, the application takes longer than 1.5 x heartbeat before it calls close(); peer silent
    slow = []
    for base in (srv, cli):
        for hb in (2000, 8000):
            for ac in (True, False):
                c = dict(base, heartbeat=hb, autoclose=ac, close_timeout=10000)
                waits = [("adv", 2500), ("tick",), ("tick",), ("tick",)] * (3 * hb // 2 // 2500 + 2)
                for code in (1000, 4000):
                    head = [("call", 0, "recv"), ("tick",), ("peer", "close", code), ("tick",), ("tick",), ("tick",), ("tick",)]
                    slow.append((c, head + waits + [("call", 1, "close", 1000), ("tick",), ("tick",), ("tick",)]))
                    slow.append((c, head + waits))
                    slow.append((c, [("adv", 1000)] + head + waits + [("call", 0, "close", 1001), ("tick",), ("tick",)]))
    run_and_judge(ctx, slow, "peer-close-then-slow-application")
    # crossing closes: task A is parked in receive(), the peer's CLOSE is delivered, task B calls close() before / while / after
    # A is resumed (every tick distance), both sides, autoclose on and off
    cross = []
    for base in (srv, cli):
        for ac in (True, False):
            c = dict(base, autoclose=ac, close_timeout=1500)
            for code in (4001, 1000):
                for d1 in range(0, 4):
                    for d2 in range(0, 3):
                        cross.append((c, [("call", 0, "recv"), ("tick",), ("peer", "close", code)] + [("tick",)] * d1
                                      + [("call", 1, "close", 1000)] + [("tick",)] * d2))
                        cross.append((c, [("call", 0, "recv"), ("tick",), ("call", 1, "close", 1000)] + [("tick",)] * d1
                                      + [("peer", "close", code)] + [("tick",)] * d2))
    run_and_judge(ctx, cross, "crossing-closes")
    # the peer sends CLOSE but does not read: the transport is write-paused when receive() consumes the CLOSE (autoclose on/off,
    # writer limit large / tiny, pause before or after receive() parked, with and without a sender already parked in drain)
    np_ = []
    for base in (srv, cli):
        for ac in (True, False):
            for lim in ((65536, 1) if base["side"] == "server" else (CLIENT_LIMIT,)):
                c = dict(base, autoclose=ac, limit=lim, close_timeout=1500)
                for code in (1000, 4001):
                    np_.append((c, [("pausew",), ("call", 0, "recv"), ("tick",), ("peer", "close", code), ("tick",), ("tick",), ("tick",)]))
                    np_.append((c, [("call", 0, "recv"), ("tick",), ("pausew",), ("peer", "close", code), ("tick",), ("tick",)]))
                    np_.append((c, [("call", 0, "recv"), ("tick",), ("peer", "close", code), ("pausew",), ("tick",), ("tick",)]))
                    np_.append((c, [("call", 1, "send", 30), ("tick",), ("pausew",), ("call", 2, "send", 30), ("tick",), ("call", 0, "recv"),
                                    ("tick",), ("peer", "close", code), ("tick",), ("tick",), ("tick",)]))
    run_and_judge(ctx, np_, "peer-close-while-write-paused")
    # the peer got our CLOSE but keeps talking (TEXT / PING / PONG) at intervals shorter than the close timeout,
    # for several timeouts, and never answers with CLOSE
    chatty = []
    for base in (srv, cli):
        for T in (1500, 500):
            c = dict(base, close_timeout=T)
            gap = T - 125
            for kinds in ((("peer", "text", 3),), (("peer", "ping"),), (("peer", "text", 3), ("peer", "pong"))):
                for nt in (1, 3):
                    labs = [("call", 0, "close", 1000)] + [("tick",)] * nt
                    for r in range(6):
                        labs += [("adv", gap), kinds[r % len(kinds)]] + [("tick",)] * nt
                    chatty.append((c, labs))
                    chatty.append((c, [("call", 1, "recv"), ("tick",)] + labs))
    run_and_judge(ctx, chatty, "chatty-peer-after-close")
    # read-side flow control with a transport that honours pause_reading()
    for plan in flow_plans(rng, ctx.quick):
        res = oracle_flow(ctx, plan)
        ctx.case(("flow", plan), nontrivial=True,
                 sample={"flow": plan, "pauses": res.get("pauses"), "read": len(res.get("got", []))} if plan.get("eager") and plan.get("read_bufsize") == 2 ** 20 and plan.get("pre_delay_ms") else None)
    oracle_f9(ctx, F9_CFG, 40000, 2)
    oracle_f9(ctx, dict(F9_CFG, side="client", limit=CLIENT_LIMIT), 40000, 2)
    ctx.case(("f9",), nontrivial=True)
    oracle_f9(ctx, F9_CFG, 30000, 2)
    # generator blind spots: every mechanism named in the property's anchors must have been exercised
    need = ["state:parked-in-drain", "state:close-wait-pending", "state:ping-task-parked", "task:x:timeout", "task:x:cancelled",
            "task:x:reset", "task:r:CLOSED", "task:r:CLOSING", "task:r:ERROR", "task:c:0", "task:c:1", "exc:pongtimeout", "exc:timeout",
            "exc:eof", "exc:wserr", "code:1006", "code:1000", "code:4000", "side:server", "side:client", "label:drop", "label:cancel",
            "label:pausew", "label:adv",
            "state:heartbeat-fired-while-reset-pending:server", "state:heartbeat-fired-while-reset-pending:client",
            "flow:server", "flow:client", "flow:pauses>0", "flow:eager"]
    missing = [k for k in need if not ctx.hits.get(k)]
    if missing:
        from .common.guard import MachineryError
        raise MachineryError("C13 generators never reached: " + ", ".join(missing))


def parse_token(tok):
    out = []
    for x in tok.split("."):
        out.append(int(x) if x.isdigit() else x)
    if out[:2] == ["peer", "text"]:
        out.append(3)
    return tuple(out)


def replay(ctx, case):
    if case.get("kind") == "flow":
        oracle_flow(ctx, case["plan"])
        return
    if case.get("kind") == "f9":
        oracle_f9(ctx, case["cfg"], case["size"], case["seg"])
        return
    cfg = case["cfg"]
    labels = [parse_token(t) for t in case["labels"]]
    res = c13sim.run_scenario(cfg, labels, epilogue=True)
    oracle(ctx, cfg, res["labels"], res["trace"], res["a_end"], res["complete"], case, a_start=len(labels))
