"""C18 — timeouts and cancellation are bounded and leave no residue.

Implementation under test: the real ClientSession / TCPConnector / ResponseHandler /
ClientRequest / ClientResponse / StreamReader, driven in-process under virtual time by
harness/common/c18env.py (in-memory transport, scripted resolver and connect stubs).
Model: lean/AioModel/C18.lean; theorems: lean/AioProps/C18.lean.
"""
import glob, json, os
from .common import c18env

PROPERTY = "C18"
LEAN_MODULES = ["AioProps.C18", "AioProps.C18Ws", "AioProps.C18Timer"]
THEOREMS = [
    "Aio.C18.ceilSec_bounds",
    "Aio.C18.totalDeadline_spec",
    "Aio.C18.ctxDeadline_spec",
    "Aio.C18.effTotal_ge",
    "Aio.C18.inv_run",
    "Aio.C18.slot_freed",
    "Aio.C18.connection_closed_not_pooled",
    "Aio.C18.no_orphan_task",
    "Aio.C18.session_usable",
    "Aio.C18.slot_only_in_its_phase",
    "Aio.C18.total_bound_partial",
    "Aio.C18.connect_bound_partial",
    "Aio.C18.sock_connect_bound_partial",
    "Aio.C18.sock_read_bound_partial",
    "Aio.C18.fire_total",
    "Aio.C18.resume_delivers_cancel",
    "Aio.C18.others_unaffected_step",
    "Aio.C18.pool_cowaiter_wakeup_passed_on",
    "Aio.C18.redirect_keeps_total",
    "Aio.C18.interim_timer",
    "Aio.C18.continue_released_no_timer",
    "Aio.C18.effWs_close_indep",
    "Aio.C18.effWs_recv",
    "Aio.C18.effWs_default_close",
    "Aio.C18.ws_close_bound",
    "Aio.C18.ws_close_unbounded",
    "Aio.C18.tc_exit_spec",
    "Aio.C18.tc_caller_cancel_surfaces",
    "Aio.C18.tc_nested_swallows_one_cancel",
]
RULE = ("one scripted exchange of the real ClientSession/TCPConnector under virtual time: the stall phase is drawn from "
        "{pool wait, DNS, connect, send body, inside the response head (any byte position), inside the body (any byte "
        "position, Content-Length or chunked incl. mid-chunk-size-line), think time with/without read pause, none}; "
        "0-4 of total/connect/sock_connect/sock_read from {0.4,1.5,2.5,4.999,5,5.001,7.3 s} (both sides of the 5 s "
        "rounding threshold), start offsets on/off whole seconds; optional slot holder, co-request queued behind "
        "in the pool or sharing the DNS lookup (as owner or as waiter), 1-2 resolved addresses, paused body writer; "
        "caller cancellation at a random instant, at/±1 ms around every scripted event and every deadline, in the "
        "same callback as an event (result available + cancel) and one loop iteration after the holder's release "
        "(woken-then-cancelled waiter); a separate class aims at the pool hand-over races. Further classes: response "
        "framing {Content-Length, chunked, close-delimited (body ended by the peer's close)} x stall point {before the head, "
        "inside the head, inside the body, exactly between two chunks, body complete but connection kept open, none} x "
        "exactly one timeout kind; upload stalled in drain() against a peer that never reads (writer task parked) x caller "
        "cancellation / total / sock_read at every later await; consumer pause/resume around the high-water mark. "
        "https requests with a stall in the TCP connect or in the TLS handshake of each attempt; the owner of the shared lookup "
        "cancelled / timed out with no follower and a co-request for the same host arriving in the same callback, 1-3 loop "
        "iterations or milliseconds later, with a resolver that unwinds slowly when cancelled; gzip bodies streamed by a slow "
        "consumer (oracle only); WebSocket close: every way of passing ws timeouts x silent/answering peer x caller cancel. "
        "Every request scenario is run from a calling task with task.cancelling() drawn from {0,1,2} (cancelled and caught "
        "before); 1xx interim responses followed by a stall (oracle only); the real helpers.TimerContext alone, exhaustively: "
        "initial count 0-3 x nesting depth 1-2 x every sequence of timer-fire / external-cancel of length <= 3 (5 in thorough). "
        "1xx interim responses (whole / split in two segments, during or after the upload) followed by a stall or a late final "
        "response; Expect: 100-continue with fast / slow (longer than sock_read) / stalled upload. "
        "Overlapping phases: upload parked in drain() while head and part of the body arrive, then silence in both directions; "
        "the caller uses resp.read(), streams resp.content inside `async with`, or leaves the block after the first chunk; ended by "
        "total / sock_read / caller cancel / early exit. Followed redirects (301/302/303/307/308) to another host with a stall on "
        "the second hop at connect / before / inside the head / inside the body (oracle only). "
        "Distinct by scenario content.")
TRUSTED_BASE = [
    "asyncio: Task.cancel() is delivered at the next resumption and wins over an available result; call_at fires not "
    "before its deadline; timers with equal deadlines are run in creation order by the harness loop (DLoop) — the "
    "model assumes the same order",
    "the in-memory transport models a peer that does not read: above the high-water mark it pauses writing, and close() "
    "with unflushed data delivers connection_lost() only after a flush (never, for a stalled peer) — as "
    "_SelectorSocketTransport does; a peer close is eof_received() followed by connection_lost(None) one iteration later",
    "the in-memory transport, scripted resolver and the stubs replacing aiohappyeyeballs.start_connection / "
    "connector.create_connection (a cancelled attempt closes its socket, as the real ones do)",
    "response bytes are classified by the harness (head complete / payload bytes / message complete) for the model; "
    "the HTTP parser itself is not part of this model (see C03/C10)",
    "co-requests H and C are environment actors whose own exchanges complete at once when unblocked",
]
ASSUMPTIONS = [
    "redirects: one followed redirect to another host (literal address) with an empty 3xx body is modelled (`redirectStep`); "
    "the oracle judges connect / sock_connect / sock_read per hop from the second hop's own trace, total across hops",
    "behaviour flag interimKeepsTimerWhenSent (after a 1xx interim response, does ResponseHandler.data_received keep the read "
    "timer when start_timeout() had been called?) is probed from the imported source on every run and written to "
    "Generated/C18.lean; the model is parametric in it and all theorems build for both values",
    "an `Expect: 100-continue` request counts as sent only once a 1xx arrived and the body was handed to the transport; a peer "
    "that never answers the expectation is not a sock_read stall (only total bounds it)",
    "one resolved address family; no proxy, TLS, traces or middlewares; keep-alive responses; consumer reads with "
    "ClientResponse.read() (optionally after a sleep)",
    "the connector's shared, shielded DNS lookup task is connector-owned: it may outlive the request that started it "
    "(until the resolver answers or the connector closes) and is not counted as a background task of that request",
    "WebSocket: only the close handshake of the client (ws_connect timeout plumbing, close() against a silent / answering "
    "peer, caller cancellation) is covered here; message exchange and the server side belong to C13",
    "https is a stub: the TLS handshake is a stall point inside create_connection(sock=…, ssl=…); co-requests are plain http, "
    "so https scenarios have no co-request",
    "compressed slow-consumer scenarios are judged by the direct oracle only (decompression is not in the model); a co-request "
    "that starts N loop iterations after the owner's cancellation is mapped to the same model instant",
]

TMO_VALUES = [400, 1500, 2500, 4999, 5000, 5001, 7300]
GAPS = [7, 90, 610, 1800, 3100, 6100]
T0S = [3, 250, 999, 1000, 1003, 4200]


def _probe_interim_keeps_timer():
    """behaviour probe on the imported source: request sent (start_timeout), a 103 arrives: is the read timer still armed?"""
    import asyncio
    from unittest import mock
    from aiohttp.client_proto import ResponseHandler
    loop = asyncio.new_event_loop()
    try:
        p = ResponseHandler(loop)
        tr = mock.Mock()
        tr.is_closing.return_value = False
        p.connection_made(tr)
        p.set_response_params(read_timeout=1000.0)
        p.start_timeout()
        p.data_received(b"HTTP/1.1 103 Early Hints\r\n\r\n")
        armed = p._read_timeout_handle is not None
        p._drop_timeout()
        return armed
    finally:
        loop.close()


def generate(repo):
    import aiohttp
    from aiohttp import streams, http_writer, client_ws
    from unittest import mock
    thr = aiohttp.ClientTimeout().ceil_threshold
    sr = streams.StreamReader(mock.Mock(_reading_paused=False), 7, loop=mock.Mock())
    hw, lw = sr._high_water, sr._low_water
    assert hw % 7 == 0 and lw % 7 == 0
    ws = client_ws.DEFAULT_WS_CLIENT_TIMEOUT.ws_close
    body = (
        "-- GENERATED by harness/c18.py from the imported aiohttp modules — do not edit\n"
        "namespace Aio.Gen.C18\n"
        "/-- `ClientTimeout.ceil_threshold` default, in ms -/\n"
        f"def ceilThresholdMs : Nat := {int(round(thr * 1000))}\n"
        "/-- `StreamReader._high_water / limit` -/\n"
        f"def highWaterFactor : Nat := {hw // 7}\n"
        "/-- `StreamReader._low_water / limit` -/\n"
        f"def lowWaterFactor : Nat := {lw // 7}\n"
        "/-- `http_writer.StreamWriter` drains inside `write()` above this many buffered bytes -/\n"
        f"def writerLimit : Nat := {http_writer.StreamWriter.LIMIT if hasattr(http_writer.StreamWriter, 'LIMIT') else 65536}\n"
        "/-- `DEFAULT_WS_CLIENT_TIMEOUT.ws_close`, in ms -/\n"
        f"def wsCloseDefaultMs : Nat := {int(round(ws * 1000))}\n"
        "/-- probed: after a 1xx interim response `ResponseHandler.data_received` keeps the read timer running\n"
        "when `start_timeout()` had been called for this request -/\n"
        f"def interimKeepsTimerWhenSent : Bool := {'true' if _probe_interim_keeps_timer() else 'false'}\n"
        "end Aio.Gen.C18\n")
    return {"AioModel/Generated/C18.lean": body}


# ------------------------------------------------------------------------------ responses
def build_response(rng, framing, nbody):
    """framing: False/"cl" = Content-Length, True/"chunked", "close" = delimited by connection close.
    returns (wire bytes, head length, list of payload byte positions); build_response.boundaries
    holds the positions between two chunks (after a chunk's CRLF) of the last chunked build"""
    build_response.boundaries = []
    if framing is True:
        framing = "chunked"
    if framing == "close":
        head = b"HTTP/1.1 200 OK\r\nServer: t\r\n\r\n"
        wire = head + b"d" * nbody
        return wire, len(head), list(range(len(head), len(wire)))
    if framing != "chunked":
        head = b"HTTP/1.1 200 OK\r\nContent-Length: %d\r\n\r\n" % nbody
        wire = head + b"d" * nbody
        return wire, len(head), list(range(len(head), len(wire)))
    head = b"HTTP/1.1 200 OK\r\nTransfer-Encoding: chunked\r\n\r\n"
    wire = bytearray(head)
    payload = []
    left = nbody
    while left > 0:
        n = min(left, rng.choice([1, 3, 10, 17]))
        wire += b"%x\r\n" % n
        payload += list(range(len(wire), len(wire) + n))
        wire += b"d" * n + b"\r\n"
        build_response.boundaries.append(len(wire))
        left -= n
    wire += b"0\r\n\r\n"
    return bytes(wire), len(head), payload


def pieces_of(wire, headlen, payload, cuts, close=False):
    """split at `cuts`; classify each piece as the model's Piece"""
    pay = set(payload)
    out = []
    prev = 0
    for c in list(cuts) + [len(wire)]:
        if c <= prev:
            continue
        out.append({"hex": wire[prev:c].hex(), "n": c - prev, "hd": int(c >= headlen),
                    "bb": sum(1 for i in range(prev, c) if i in pay), "eof": int(c >= len(wire) and not close)})
        prev = c
    return out


# ------------------------------------------------------------------------------ scenarios
def gen_scenario(rng, stall=None):
    sc = {"t0": rng.choice(T0S)}
    # which timeouts
    kinds = ["total", "connect", "sock_connect", "sock_read"]
    for k in kinds:
        sc[k] = None
    mode = rng.random()
    if mode < 0.55:
        sc[rng.choice(kinds)] = rng.choice(TMO_VALUES)
    elif mode < 0.9:
        for k in rng.sample(kinds, rng.choice([2, 2, 3, 4])):
            sc[k] = rng.choice(TMO_VALUES)
    stall = stall or rng.choice(["pool", "dns", "connect", "send", "headers", "body", "none", "think"])
    sc["stall"] = stall
    t = sc["t0"]

    def later():
        nonlocal t
        t += rng.choice(GAPS)
        return t
    co = None
    r = rng.random()
    # pool
    if stall == "pool" or r < 0.2:
        sc["holder"] = -1 if stall == "pool" else (rng.choice([1, sc["t0"] + rng.choice(GAPS)]))
        if sc["holder"] > sc["t0"]:
            t = sc["holder"]
        if rng.random() < 0.5:
            co = "pool"
        sc["dns"] = None
    else:
        sc["holder"] = None
        # dns
        if stall == "dns":
            sc["dns"] = -1
        elif rng.random() < 0.5:
            sc["dns"] = later()
        else:
            sc["dns"] = None
        if sc["dns"] is not None:
            sc["naddr"] = rng.choice([1, 1, 2])
            if rng.random() < 0.5:
                co = rng.choice(["dnsfirst", "dnswait"])
    sc["co"] = co
    na = sc.get("naddr", 1) if sc["dns"] is not None else 1
    if stall in ("pool", "dns"):
        sc["conn"] = [later()]
    elif stall == "connect":
        sc["conn"] = [-1] * na
        if na == 2 and rng.random() < 0.4:
            sc["conn"] = [-1, later() + 9000]
    else:
        sc["conn"] = [later()]
    t = max([t] + [x for x in sc["conn"] if x >= 0])
    # body of the request
    if stall == "send":
        sc["body"], sc["wresume"] = 70000, -1
    elif rng.random() < 0.25:
        sc["body"] = rng.choice([10, 70000])
        sc["wresume"] = rng.choice([None, later()]) if sc["body"] > 65536 else rng.choice([None, -1])
    # response
    framing = rng.choice(["cl", "cl", "chunked", "chunked", "close"]) if stall != "think" else "cl"
    if sc.get("body") and stall != "think":
        framing = rng.choice(["cl", "chunked"])      # close-delimited only for body-less requests
    chunked = framing == "chunked"
    close = framing == "close"
    nbody = rng.choice([0, 1, 10, 40]) if stall != "think" else rng.choice([10, 40])
    wire, headlen, payload = build_response(rng, framing, nbody)
    ncuts = rng.choice([0, 1, 2, 3])
    cuts = sorted(set(rng.randrange(1, len(wire)) for _ in range(ncuts)))
    ps = pieces_of(wire, headlen, payload, cuts, close)
    complete = True
    if stall == "headers":
        k = rng.randrange(0, headlen)          # stall strictly inside the head (0 = nothing arrives)
        cuts = sorted(set([c for c in cuts if c < k] + ([k] if k else [])))
        ps = pieces_of(wire, headlen, payload, cuts, close)[:len(cuts)]
        complete = False
    elif stall == "body":
        if len(wire) - headlen < 1:
            wire, headlen, payload = build_response(rng, framing, 10)
        k = rng.randrange(headlen, len(wire))  # stall after the head, before the end
        if chunked and build_response.boundaries and rng.random() < 0.35:
            k = rng.choice(build_response.boundaries)   # exactly between two chunks
        if close and rng.random() < 0.3:
            k = len(wire)                      # whole body sent, the peer just never closes
        cuts = sorted(set([c for c in cuts if c < k] + [k]))
        ps = pieces_of(wire, headlen, payload, cuts, close)[:len(cuts)]
        complete = False
    elif stall in ("pool", "dns", "connect"):
        pass
    if stall == "think" or (stall in ("none", "body") and framing == "cl" and rng.random() < 0.2):
        sc["think"] = rng.choice([300, 2600, 6000])
        sc["bufsize"] = rng.choice([4, 65536])
    resp = []
    for p in ps:
        resp.append([later(), p["hex"], p["n"], p["hd"], p["bb"], p["eof"]])
    sc["resp"] = resp
    if close:
        sc["cd"] = 1
        if complete:
            sc["peof"] = later()
    # cancellation
    r = rng.random()
    if r < 0.35:
        times = [sc["t0"] + 1, t + rng.choice(GAPS), sc["t0"] + rng.choice(TMO_VALUES)]
        times += [x for x in ([sc.get("holder"), sc.get("dns")] + sc["conn"] + [q[0] for q in resp] + [sc.get("wresume"), sc.get("peof")])
                  if isinstance(x, int) and x > sc["t0"]]
        for k in kinds:
            if sc[k]:
                times.append(sc["t0"] + sc[k])
        c = rng.choice(times)
        if rng.random() < 0.3:
            c += rng.choice([1, -1])
        sc["cancel"] = c if c > sc["t0"] else sc["t0"] + 1
        if sc["cancel"] == sc.get("holder") and rng.random() < 0.7:
            sc["cancel_late"] = True
    else:
        sc["cancel"] = None
    return sc


def gen_pool_race(rng):
    """holder releases while R (and C behind it) wait; R is cancelled / times out around that instant"""
    sc = gen_scenario(rng, stall=rng.choice(["headers", "none", "connect"]))
    for k in ("total", "connect", "sock_connect", "sock_read"):
        sc[k] = None
    t0 = sc["t0"]
    rel = t0 + rng.choice([50, 400, 2000])
    shift = rel - t0
    sc.update(holder=rel, dns=None, co=rng.choice(["pool", "pool", None]), naddr=1)
    sc["conn"] = [rel + 7]
    sc["resp"] = [[q[0] + shift + 10000] + q[1:] for q in sc["resp"]]
    if sc.get("peof") is not None:
        sc["peof"] += shift + 10000      # the peer's close moves with its response (never before it)
    if sc.get("wresume") not in (None, -1):
        sc["wresume"] = rel + 8
    how = rng.choice(["late", "early", "timer", "timer-1", "after"])
    sc["cancel"] = None
    sc.pop("cancel_late", None)
    if how == "late":
        sc["cancel"], sc["cancel_late"] = rel, True
    elif how == "early":
        sc["cancel"] = rel
    elif how == "after":
        sc["cancel"] = rel + rng.choice([1, 7, 8])
    else:
        d = shift if how == "timer" else shift - 1
        sc[rng.choice(["total", "connect"])] = max(d, 1)
    return sc


def gen_pause_resume(rng):
    """the consumer sleeps while the stream is above its high-water mark (reading paused), then reads;
    the peer stalls before / during / after the pause"""
    sc = {"t0": rng.choice(T0S), "total": None, "connect": None, "sock_connect": None, "sock_read": rng.choice(TMO_VALUES),
          "stall": rng.choice(["body", "body", "none"]), "holder": None, "dns": None, "co": None}
    if rng.random() < 0.3:
        sc["total"] = rng.choice(TMO_VALUES)
    t = sc["t0"] + rng.choice(GAPS)
    sc["conn"] = [t]
    nbody = rng.choice([12, 40])
    wire, headlen, payload = build_response(rng, False, nbody)
    first = headlen + rng.choice([0, 3, 8, 9, 10, nbody - 1])
    cuts = sorted(set([first] + [rng.randrange(first, len(wire)) for _ in range(rng.choice([0, 1, 2]))]))
    cuts = [c for c in cuts if 0 < c < len(wire)]
    ps = pieces_of(wire, headlen, payload, cuts)
    if sc["stall"] == "body":
        ps = ps[:max(1, rng.randrange(1, len(ps) + 1) - (1 if len(ps) > 1 else 0))]
        if ps and ps[-1]["eof"]:
            ps = ps[:-1] or ps
            if ps[-1]["eof"]:
                sc["stall"] = "none"
    sc["think"] = rng.choice([300, 2600, 6000])
    sc["bufsize"] = rng.choice([4, 4, 5, 65536])
    resp = []
    for p in ps:
        t += rng.choice([7, 90, 610, 1800])
        resp.append([t, p["hex"], p["n"], p["hd"], p["bb"], p["eof"]])
    sc["resp"] = resp
    sc["cancel"] = None
    if rng.random() < 0.2:
        sc["cancel"] = t + rng.choice(GAPS)
    return sc


def gen_cancel_upload(rng):
    """upload stalled against a peer that never reads (writer task parked in drain) x caller
    cancellation or a timeout at every later await: awaiting headers (nothing / part of the head
    received), reading the body, around the instant the upload resumes"""
    sc = {"t0": rng.choice(T0S), "total": None, "connect": None, "sock_connect": None, "sock_read": None,
          "stall": "send", "holder": None, "dns": None, "co": None, "body": 70000}
    t = sc["t0"] + rng.choice(GAPS)
    sc["conn"] = [t]
    sc["wresume"] = rng.choice([-1, -1, -1, t + rng.choice([2000, 9000])])
    framing = rng.choice(["cl", "chunked"])
    wire, headlen, payload = build_response(rng, framing, rng.choice([1, 10, 40]))
    how = rng.choice(["nothing", "nothing", "parthead", "head", "partbody", "all"])
    k = {"nothing": 0, "parthead": rng.randrange(1, headlen), "head": headlen,
         "partbody": rng.randrange(headlen, len(wire)), "all": len(wire)}[how]
    cuts = sorted(set([c for c in [rng.randrange(1, len(wire)) for _ in range(rng.choice([0, 1]))] if c < k] + ([k] if 0 < k < len(wire) else [])))
    ps = pieces_of(wire, headlen, payload, cuts)
    ps = ps[:len(cuts)] if k < len(wire) else ps
    resp = []
    for p in ps:
        t += rng.choice([7, 90, 610])
        resp.append([t, p["hex"], p["n"], p["hd"], p["bb"], p["eof"]])
    sc["resp"] = resp
    sc["cancel"] = None
    what = rng.choice(["cancel", "cancel", "cancel", "total", "sock_read", "cancel+total"])
    if "cancel" in what:
        times = [sc["conn"][0] + 1, t + rng.choice(GAPS)] + [q[0] for q in resp] + [q[0] + 1 for q in resp]
        if sc["wresume"] >= 0:
            times += [sc["wresume"], sc["wresume"] + 1, sc["wresume"] - 1]
        sc["cancel"] = max(rng.choice(times), sc["t0"] + 1)
    if "total" in what:
        sc["total"] = rng.choice(TMO_VALUES)
    if what == "sock_read":
        sc["sock_read"] = rng.choice(TMO_VALUES)
    return sc


def gen_tls(rng):
    """https: the connect phase has two stall points per attempt — TCP connect and TLS handshake —
    both inside sock_connect / connect / total"""
    kinds = ["total", "connect", "sock_connect", "sock_read"]
    sc = {"t0": rng.choice(T0S), "holder": None, "co": None, "cancel": None}
    for k in kinds:
        sc[k] = None
    m = rng.random()
    if m < 0.6:
        sc[rng.choice(["sock_connect", "sock_connect", "connect", "total", "sock_read"])] = rng.choice(TMO_VALUES)
    else:
        for k in rng.sample(kinds, 2):
            sc[k] = rng.choice(TMO_VALUES)
    t = sc["t0"]
    if rng.random() < 0.5:
        t += rng.choice(GAPS); sc["dns"] = t; sc["naddr"] = rng.choice([1, 2])
    else:
        sc["dns"] = None
    na = sc.get("naddr", 1) if sc["dns"] is not None else 1
    point = rng.choice(["tcp", "tls", "tls", "tls", "none", "none"])
    conn, tls = [], []
    for i in range(na):
        last = i == na - 1
        if point == "tcp":
            conn.append(-1); tls.append(-1)
        elif point == "tls":
            t += rng.choice([7, 90, 610]); conn.append(t); tls.append(-1)
        else:
            t += rng.choice([7, 90, 610]); conn.append(t)
            t += rng.choice([7, 90, 610, 3100]); tls.append(t)
            break
    sc["conn"], sc["tls"] = conn, tls
    sc["stall"] = {"tcp": "connect", "tls": "tls", "none": "none"}[point]
    wire, headlen, payload = build_response(rng, "cl", rng.choice([1, 10]))
    cuts = sorted(set(rng.randrange(1, len(wire)) for _ in range(rng.choice([0, 1]))))
    resp = []
    for p in pieces_of(wire, headlen, payload, cuts):
        t += rng.choice([7, 90, 610])
        resp.append([t, p["hex"], p["n"], p["hd"], p["bb"], p["eof"]])
    sc["resp"] = resp
    if rng.random() < 0.25:
        times = [x for x in conn + tls if x >= 0] + [sc["t0"] + rng.choice(TMO_VALUES), t + 50]
        c = rng.choice(times) + rng.choice([0, 0, 1, -1])
        sc["cancel"] = max(c, sc["t0"] + 1)
    return sc


def gen_dns_after(rng):
    """R owns the shared lookup with no follower and is cancelled / times out while the resolver
    stalls; the co-request for the same host starts after that — in the same callback, 1-3 loop
    iterations later, or milliseconds later — and must be decided by its own timeline only"""
    kinds = ["total", "connect", "sock_connect", "sock_read"]
    sc = {"t0": rng.choice(T0S), "holder": None, "stall": "dns", "naddr": 1, "co": "dnsafter"}
    for k in kinds:
        sc[k] = None
    how = rng.choice(["cancel", "cancel", "total", "connect"])
    if how == "cancel":
        end = sc["t0"] + rng.choice([1, 90, 610, 2500])
        sc["cancel"] = end
    else:
        sc[how] = rng.choice([400, 1500, 2500])
        end = sc["t0"] + sc[how]
        sc["cancel"] = None
    sc["c_at"] = end + rng.choice([0, 0, 0, 1, 7, 90])
    sc["c_late"] = rng.choice([0, 0, 1, 1, 2, 3])
    sc["dns_unwind"] = rng.choice([0, 0, 50, 500])
    sc["dns"] = rng.choice([-1, sc["c_at"] + rng.choice([610, 3100])])
    t = (sc["dns"] if sc["dns"] >= 0 else sc["c_at"]) + 90
    sc["conn"] = [t]
    sc["resp"] = []
    return sc


def gen_compressed_slow(rng):
    """(oracle only — decompression is not in the model) a gzip body that inflates far beyond the
    high-water mark arrives completely in one segment; the consumer streams it with pauses between
    reads; the peer is healthy, so no timeout of any kind may fire"""
    sc = {"t0": rng.choice(T0S), "total": None, "connect": None, "sock_connect": None, "holder": None, "dns": None,
          "co": None, "cancel": None, "stall": "none", "oracle_only": 1, "slow": 1}
    sc["sock_read"] = rng.choice([400, 1500, 2500])
    sc["think"] = rng.choice([100, 300, 2000, 3100])
    sc["gz"] = rng.choice([100_000, 300_000, 1_000_000])
    sc["bufsize"] = rng.choice([4096, 65536])
    t = sc["t0"] + rng.choice([7, 90])
    sc["conn"] = [t]
    sc["gz_at"] = t + rng.choice([7, 90])
    sc["resp"] = []
    return sc


INTERIM = [b"HTTP/1.1 103 Early Hints\r\nLink: </x>; rel=preload\r\n\r\n", b"HTTP/1.1 102 Processing\r\n\r\n",
           b"HTTP/1.1 100 Continue\r\n\r\n"]


def gen_interim(rng):
    """one or two 1xx interim responses (whole or cut in two segments), then the peer stalls before / inside the
    final head, or answers late; optionally while a large upload is still stalled (request not sent yet)"""
    sc = {"t0": rng.choice(T0S), "total": None, "connect": None, "sock_connect": None, "sock_read": None, "holder": None,
          "dns": None, "co": None, "cancel": None, "stall": "headers", "interim": 1}
    sc[rng.choice(["sock_read", "sock_read", "sock_read", "total"])] = rng.choice(TMO_VALUES)
    t = sc["t0"] + rng.choice([7, 90])
    sc["conn"] = [t]
    resp = []
    if rng.random() < 0.25:
        sc["body"] = 70000
        sc["wresume"] = rng.choice([-1, t + rng.choice([2000, 6000])])
    for _ in range(rng.choice([1, 1, 2])):
        w = rng.choice(INTERIM)
        t += rng.choice([7, 90, 610])
        if rng.random() < 0.3:
            k = rng.randrange(1, len(w))
            resp.append([t, w[:k].hex(), k, 0, 0, 0, 0])
            t += rng.choice([7, 90, 1800])
            resp.append([t, w[k:].hex(), len(w) - k, 0, 0, 0, 1])
        else:
            resp.append([t, w.hex(), len(w), 0, 0, 0, 1])
    how = rng.choice(["stall", "stall", "parthead", "late"])
    wire, headlen, payload = build_response(rng, "cl", 2)
    if how == "parthead":
        k = rng.randrange(1, headlen)
        t += rng.choice([7, 610])
        resp.append([t, wire[:k].hex(), k, 0, 0, 0])
    elif how == "late":
        t += rng.choice([610, 3100, 9000])
        resp.append([t, wire.hex(), len(wire), 1, 2, 1])
        sc["stall"] = "none"
    sc["resp"] = resp
    return sc


def gen_expect100(rng):
    """`Expect: 100-continue` with a large body: the peer answers `100 Continue` (whole or in two segments) or
    never; afterwards the upload is fast, slow (longer than sock_read — must NOT time out) or stalled for ever;
    then the final response comes, stalls, or is preceded by another interim response"""
    sc = {"t0": rng.choice(T0S), "total": None, "connect": None, "sock_connect": None, "sock_read": None, "holder": None,
          "dns": None, "co": None, "cancel": None, "stall": "none", "interim": 1, "expect100": 1, "body": 70000}
    sc[rng.choice(["sock_read", "sock_read", "sock_read", "total"])] = rng.choice(TMO_VALUES)
    t = sc["t0"] + rng.choice([7, 90])
    sc["conn"] = [t]
    resp = []
    w = INTERIM[2]
    cont = rng.choice(["whole", "whole", "split", "never"])
    if cont == "never":
        sc["stall"] = "headers"
        sc["resp"] = []
        return sc
    t += rng.choice([7, 90, 610])
    if cont == "split":
        k = rng.randrange(1, len(w))
        resp.append([t, w[:k].hex(), k, 0, 0, 0, 0])
        t += rng.choice([7, 90])
        resp.append([t, w[k:].hex(), len(w) - k, 0, 0, 0, 1])
    else:
        resp.append([t, w.hex(), len(w), 0, 0, 0, 1])
    up = rng.choice(["fast", "slow", "slow", "never"])
    if up == "slow":
        t += rng.choice([610, 3100, 9000])
        sc["wresume"] = t
    elif up == "never":
        sc["wresume"] = -1
        sc["stall"] = "send"
    after = rng.choice(["final", "final", "stall", "103-then-stall", "late"])
    wire, headlen, payload = build_response(rng, "cl", 2)
    if up != "never":
        if after == "103-then-stall":
            t += rng.choice([7, 610])
            resp.append([t, INTERIM[0].hex(), len(INTERIM[0]), 0, 0, 0, 1])
            sc["stall"] = "headers"
        elif after == "stall":
            sc["stall"] = "headers"
        else:
            t += rng.choice([7, 610]) if after == "final" else rng.choice([3100, 9000])
            resp.append([t, wire.hex(), len(wire), 1, 2, 1, 0])
    sc["resp"] = resp
    if rng.random() < 0.15:
        sc["cancel"] = t + rng.choice([1, 90, 2500])
    return sc


REDIRECT = b"HTTP/1.1 %d Found\r\nLocation: http://10.0.0.2/next\r\nContent-Length: 0\r\n\r\n"


def gen_overlap(rng):
    """overlapping request and response phases with the peer stalling in BOTH directions: the upload is parked in
    drain() while head and part of the body arrive, then nothing more; the caller reads with resp.read(), streams
    resp.content inside `async with`, or leaves the block after its first chunk; it ends by total / sock_read /
    caller cancellation / early exit — the writer task must be gone afterwards in every variant"""
    sc = {"t0": rng.choice(T0S), "total": None, "connect": None, "sock_connect": None, "sock_read": None, "holder": None,
          "dns": None, "co": None, "cancel": None, "stall": "body", "body": 70000}
    sc["consume"] = rng.choice([None, "stream", "stream", "early", "early"])
    t = sc["t0"] + rng.choice([7, 90])
    sc["conn"] = [t]
    sc["wresume"] = rng.choice([-1, -1, -1, t + rng.choice([3100, 9000])])
    framing = rng.choice(["cl", "chunked"])
    wire, headlen, payload = build_response(rng, framing, rng.choice([10, 40]))
    how = rng.choice(["partbody", "partbody", "head", "all"])
    k = {"head": headlen, "partbody": rng.randrange(headlen + 1, len(wire)), "all": len(wire)}[how]
    cuts = sorted(set([c for c in [rng.randrange(1, len(wire)) for _ in range(rng.choice([0, 1]))] if c < k] + ([k] if k < len(wire) else [])))
    ps = pieces_of(wire, headlen, payload, cuts)
    ps = ps[:len(cuts)] if k < len(wire) else ps
    resp = []
    for p in ps:
        t += rng.choice([7, 90, 610])
        resp.append([t, p["hex"], p["n"], p["hd"], p["bb"], p["eof"]])
    sc["resp"] = resp
    if how == "all":
        sc["stall"] = "none"
    end = rng.choice(["total", "total", "sock_read", "cancel", "cancel", "none"])
    if end == "total":
        sc["total"] = rng.choice(TMO_VALUES)
    elif end == "sock_read":
        sc["sock_read"] = rng.choice(TMO_VALUES)
    elif end == "cancel":
        sc["cancel"] = t + rng.choice([1, 90, 2500])
    return sc


def gen_redirect(rng):
    """a followed redirect to another host, then a stall on the second
    hop — connecting, awaiting the head, inside the head, inside the body — or none; one timeout kind or a caller cancel.
    `total` spans all hops; `connect`/`sock_connect` start again with the second hop's connection"""
    kinds = ["total", "connect", "sock_connect", "sock_read"]
    sc = {"t0": rng.choice(T0S), "holder": None, "dns": None, "co": None, "cancel": None, "redirect": 1}
    for k in kinds:
        sc[k] = None
    how = rng.choice(["total", "total", "total", "sock_read", "connect", "sock_connect", "cancel"])
    if how != "cancel":
        sc[how] = rng.choice(TMO_VALUES)
    t = sc["t0"] + rng.choice([7, 90])
    w = REDIRECT % rng.choice([301, 302, 303, 307, 308])
    t1 = t + rng.choice([7, 90, 610])
    resp = [[t1, w.hex(), len(w), 1, 0, 1]]
    point = rng.choice(["connect", "before", "midhead", "midbody", "none"])
    sc["stall"] = {"connect": "connect", "before": "headers", "midhead": "headers", "midbody": "body", "none": "none"}[point]
    t2 = t1 + rng.choice([7, 90, 610])
    sc["conn"] = [t, -1 if point == "connect" else t2]
    wire, headlen, payload = build_response(rng, rng.choice(["cl", "chunked"]), 10)
    k = {"connect": 0, "before": 0, "midhead": rng.randrange(1, headlen), "midbody": rng.randrange(headlen, len(wire)), "none": len(wire)}[point]
    cuts = [k] if 0 < k < len(wire) else []
    ps = pieces_of(wire, headlen, payload, cuts)
    ps = ps[:len(cuts)] if k < len(wire) else ps
    tt = t2
    for p in ps:
        tt += rng.choice([7, 90, 610])
        resp.append([tt, p["hex"], p["n"], p["hd"], p["bb"], p["eof"]])
    sc["resp"] = resp
    if how == "cancel":
        sc["cancel"] = tt + rng.choice([1, 90, 2500])
    return sc


def gen_framing(rng):
    """response framing {content-length, chunked, close-delimited} x stall point {before the head,
    inside the head, inside the body, between two chunks, body complete but never closed, none}
    x exactly one timeout kind"""
    kinds = ["total", "connect", "sock_connect", "sock_read"]
    sc = {"t0": rng.choice(T0S), "holder": None, "dns": None, "co": None, "cancel": None}
    for k in kinds:
        sc[k] = None
    sc[rng.choice(["total", "total", "sock_read", "sock_read", "connect", "sock_connect"])] = rng.choice(TMO_VALUES)
    t = sc["t0"] + rng.choice([7, 90, 610])
    sc["conn"] = [t]
    framing = rng.choice(["cl", "chunked", "close"])
    close = framing == "close"
    wire, headlen, payload = build_response(rng, framing, rng.choice([1, 10, 40]))
    point = rng.choice(["before", "midhead", "midbody", "midbody", "between", "complete-open", "none"])
    if point == "between" and not build_response.boundaries:
        point = "midbody"
    if point == "complete-open" and not close:
        point = "none"
    k = {"before": 0, "midhead": rng.randrange(1, headlen), "midbody": rng.randrange(headlen, len(wire)),
         "between": rng.choice(build_response.boundaries or [headlen]), "complete-open": len(wire), "none": len(wire)}[point]
    sc["stall"] = {"before": "headers", "midhead": "headers", "none": "none"}.get(point, "body")
    extra = [c for c in [rng.randrange(1, len(wire)) for _ in range(rng.choice([0, 1, 2]))] if c < k]
    cuts = sorted(set(extra + ([k] if 0 < k < len(wire) else [])))
    ps = pieces_of(wire, headlen, payload, cuts, close)
    ps = ps[:len(cuts)] if k < len(wire) else ps
    resp = []
    for p in ps:
        t += rng.choice([7, 90, 610, 1800])
        resp.append([t, p["hex"], p["n"], p["hd"], p["bb"], p["eof"]])
    sc["resp"] = resp
    if close:
        sc["cd"] = 1
        if point == "none":
            sc["peof"] = t + rng.choice([7, 610, 3100])
    return sc


def model_line(sc):
    def o(v):
        return "-" if v is None else str(v)
    inst = {}

    def add(t, order, ev):
        inst.setdefault(t, []).append((order, ev))
    t0 = sc["t0"]
    if sc.get("holder") is not None:
        add(0, 0, "H")
        if sc["holder"] >= 0:
            add(sc["holder"], 1, "HR")
    co = sc.get("co")
    if co == "dnsfirst":
        add(t0 - 1, 2, "C")
    add(t0, 3, "R")
    if co in ("pool", "dnswait"):
        add(t0 + 1, 2, "C")
    if co == "dnsafter":
        add(sc["c_at"], 1001, "C")
    for i, t in enumerate(sc.get("tls") or []):
        if t >= 0:
            add(t, 5, f"T{i}")
    if sc.get("dns") is not None and sc["dns"] >= 0:
        add(sc["dns"], 4, "D")
    for i, t in enumerate(sc.get("conn", [])):
        if t >= 0:
            add(t, 5, f"K{i}")
    if sc.get("wresume") is not None and sc["wresume"] >= 0:
        add(sc["wresume"], 6, "W")
    for j, q in enumerate(sc.get("resp", [])):
        im = 1 if (len(q) > 6 and q[6]) else 0
        rd = 1 if (sc.get("redirect") and j == 0 and q[5]) else 0      # the first, complete response of a redirect scenario
        add(q[0], 7 + j, f"B{q[2]}.{q[3]}.{q[4]}.{q[5]}" + (f".{im}.{rd}" if rd else (".1" if im else "")))
    if sc.get("peof") is not None:
        add(sc["peof"], 900, "E")
    if sc.get("cancel") is not None:
        add(sc["cancel"], 1000, "XL" if sc.get("cancel_late") else "X")
    toks = []
    for t in sorted(inst):
        toks.append(f"@{t}:" + ";".join(e for _, e in sorted(inst[t])))
    limit1 = 1 if (sc.get("holder") is not None or co == "pool") else 0
    wstall = 1 if (sc.get("body", 0) > 65536 and sc.get("wresume") is not None) else 0
    return (f"run total={o(sc['total'])} connect={o(sc['connect'])} sc={o(sc['sock_connect'])} sr={o(sc['sock_read'])} "
            f"limit1={limit1} dns={0 if sc.get('dns') is None else 1} naddr={sc.get('naddr', 1)} wstall={wstall} "
            f"think={sc.get('think', 0)} buf={sc.get('bufsize', 65536)} https={1 if sc.get('tls') is not None else 0} cd={sc.get('cd', 0)} thr={sc.get('ceil_thr') if sc.get('ceil_thr') is not None else 5000} early={1 if sc.get('consume') == 'early' else 0} x100={sc.get('expect100', 0)} c0={sc.get('c0', 0)} co={1 if co else 0} " + " ".join(toks))


def impl_line(out):
    if "harness" in out:
        return "harness=" + out["harness"] + " " + out.get("harness_detail", "")
    live = ",".join(out["live"]) if out["live"] else "-"
    return (f"r={out['r']}@{out['r_at']} hdr={out['hdr_at']} c={out['c']} acq={out['acquired']} wait={out['waiters']} "
            f"pooled={out['pooled_r']} open={out['open_r']} live={live} dnsw={out['dns_waiters']} "
            f"lookups={out['lookups']} dnscalls={out['dns_calls']} follow={out['follow']} "
            f"cnl={out['c_after'] if out['r'] != 'pending' else '-'}")


def gz_response(nbytes):
    import gzip
    body = gzip.compress(b"\0" * nbytes, mtime=0)
    return b"HTTP/1.1 200 OK\r\nContent-Encoding: gzip\r\nContent-Length: %d\r\n\r\n" % len(body) + body


def to_env(sc):
    e = dict(sc)
    e["resp"] = [[q[0], q[1], q[5]] for q in sc.get("resp", [])]
    if sc.get("gz"):
        e["resp"] = [[sc["gz_at"], gz_response(sc["gz"]).hex(), 1]]
    e["limit"] = 1 if (sc.get("holder") is not None or sc.get("co") == "pool") else 0
    return e


# ------------------------------------------------------------------------------ direct oracle
def bound(start, d, thr=5000):
    """the documented rule: timeouts of `thr` or more are rounded up to the next whole second"""
    when = start + d
    return -(-when // 1000) * 1000 if d >= thr else when


TIMEOUTS = ("E_TIMEOUT", "E_CONN_TIMEOUT", "E_SOCK_TIMEOUT")


def interim_times(sc, tr):
    """instants at which a delivered segment completed a 1xx interim response"""
    return [q[0] for q in sc.get("resp", []) if len(q) > 6 and q[6] and q[0] in tr["delivered"]]


def sent_time(sc, tr):
    """instant at which the request (head and body) had been handed to the transport completely, None = never"""
    if not tr["established"]:
        return None
    start = tr["established"][0]
    if sc.get("expect100"):
        it = interim_times(sc, tr)
        if not it:
            return None
        start = it[0]
    if sc.get("body", 0) > 65536 and sc.get("wresume") is not None:
        return sc["wresume"] if sc["wresume"] >= start else None
    return start


def peer_owes_marks(sc, tr, upto):
    """instants from which the peer owes the client bytes: the request fully sent, and every delivery — except one
    that completed an interim response while the request body was not sent yet (then the peer waits for US)"""
    sent = sent_time(sc, tr)
    it = set(interim_times(sc, tr))
    marks = [t for t in tr["delivered"] if t <= upto and not (t in it and (sent is None or t < sent))]
    if sent is not None and sent <= upto:
        marks.append(sent)
    return sorted(set(marks))


def oracle(ctx, sc, out):
    """the property, evaluated on the observations of the real code alone"""
    if "harness" in out:
        ctx.violation("C18/harness/" + out["harness"], sc, out.get("harness_detail", ""))
        return
    st = sc["stall"]
    _thr = sc.get("ceil_thr") if sc.get("ceil_thr") is not None else 5000

    def bound(start, d, thr=_thr):          # the documented rule with THIS scenario's ceil_threshold
        when = start + d
        return -(-when // 1000) * 1000 if d >= thr else when
    def _t(x):
        return x[0] if isinstance(x, list) else x
    tr = {k: ([x for x in v if _t(x) < c18env.T_OBS] if isinstance(v, list) else (v if (v is None or v < c18env.T_OBS) else None))
          for k, v in out["trace"].items()}
    r, end = out["r"], (out["r_at"] if out["r"] != "pending" else None)
    t0 = sc["t0"]
    INF = 10 ** 9
    E = INF if end is None else end
    think_end = (out["hdr_at"] + sc.get("think", 0)) if out["hdr_at"] >= 0 and sc.get("think") else None

    def bad(clause, detail, phase=True):
        ctx.violation(f"C18/{clause}/{st}" if phase else f"C18/{clause}", sc, detail + " | " + impl_line(out))

    if r.startswith("E_OTHER"):
        bad("error-kind/" + r, "the request failed with something that is neither a timeout error nor the caller's cancellation")
    # ---- bounds
    tot = out.get("eff_total")
    if tot:
        b = bound(t0, tot)
        if think_end is not None:
            b = max(b, think_end)
        if E > b:
            bad("bound/total", f"total={tot} from {t0}: must be over by {b}, ended {end}")
    if sc.get("connect"):
        # `connect` bounds the acquisition of each connection: the one of a redirect's second hop from that hop's start
        b = bound(out["trace"].get("hop2_start", t0) if sc.get("redirect") else t0, sc["connect"])
        est = tr["established"][0] if tr["established"] else INF
        if est > b and E > b:
            bad("bound/connect", f"connect={sc['connect']} from {t0}: no connection by {b}, request ended {end}")
    if sc.get("sock_connect") and tr["attempts"]:
        b = bound(tr["attempts"][0], sc["sock_connect"])
        est = tr["established"][0] if tr["established"] else INF
        if est > b and E > b:
            # known finding K1 is ONLY: every single attempt kept its own sock_connect window and the next address was
            # tried with a fresh one; anything else (an attempt overrunning its window) is reported as an ordinary bound violation
            ends = list(tr["abandoned"][:len(tr["attempts"])])
            if len(ends) < len(tr["attempts"]):
                ends.append(est if est != INF else E)           # the last attempt: established, or still running at the end
            each_ok = len(ends) == len(tr["attempts"]) and all(x <= bound(a, sc["sock_connect"]) for a, x in zip(tr["attempts"], ends))
            kind = "per-address-retry" if (len(tr["attempts"]) > 1 and each_ok) else "single"
            bad("bound/sock_connect/" + kind,
                f"sock_connect={sc['sock_connect']} from {tr['attempts'][0]}: no connection by {b}, request ended {end}, attempts at {tr['attempts']}",
                phase=(kind == "single"))
    if sc.get("sock_read") and tr["established"] and tr["eof_at"] is None:
        marks = peer_owes_marks(sc, tr, INF)
        everything = [t for t in tr["delivered"]] + ([sent_time(sc, tr)] if sent_time(sc, tr) is not None else [])
        if marks and max(marks) == max(everything):      # the latest event is one after which the peer owes us bytes
            last = max(marks)
            b = bound(last, sc["sock_read"])
            if think_end is not None:
                b = max(b, bound(think_end, sc["sock_read"]))   # not while the consumer is not reading
            if E > b:
                if sc.get("interim"):
                    bad("bound/sock_read/after-interim-1xx-response",
                        f"sock_read={sc['sock_read']}: a 1xx interim response arrived, then the peer went silent at {last}; the wait "
                        f"for the final response head must fail by {b}, ended {end} (data_received drops the read timer for the "
                        "EMPTY_PAYLOAD of the interim message)", phase=False)
                else:
                    bad("bound/sock_read", f"sock_read={sc['sock_read']}: last activity {last}, must fail by {b}, ended {end}")
    # ---- a sock_read timeout may fire only after the peer was silent for sock_read while the client was
    #      willing to read (request sent, transport not paused by the client itself)
    if r == "E_SOCK_TIMEOUT" and sc.get("sock_read"):
        sent = sent_time(sc, tr)
        if tr["eof_at"] is not None:
            E = min(E, tr["eof_at"])      # once the whole response has arrived the peer's silence is no stall
        starts = sorted(set(peer_owes_marks(sc, tr, E) + [t for t, k in tr["pauses"] if k == "r" and t <= E]))
        pause_starts = sorted(t for t, k in tr["pauses"] if k == "p" and t <= E)
        best = 0
        def paused_at(x):      # paused by the client at instant x (after the events of that instant)
            last = [k for t, k in tr["pauses"] if t <= x]
            return bool(last) and last[-1] == "p"
        for i, b in enumerate(starts):
            if paused_at(b):
                continue
            stop = min([E] + [x for x in starts if x > b] + [x for x in tr["delivered"] if x > b] +
                       [p for p in pause_starts if p >= b])
            best = max(best, stop - b)
        if best < sc["sock_read"]:
            bad("false-timeout/sock_read" + ("/compressed-slow-consumer" if sc.get("gz") else ""),
                f"SocketTimeoutError at {end} although the peer was never silent for sock_read={sc['sock_read']} ms while the "
                f"client was willing to read: deliveries {tr['delivered']}, request sent {sent}, client paused/resumed reading "
                f"{tr['pauses'][:12]}, longest willing silence {best} ms", phase=not sc.get("gz"))
    if r == "E_CONN_TIMEOUT" and not (sc.get("connect") or sc.get("sock_connect")):
        bad("false-timeout/connect", "ConnectionTimeoutError although neither connect nor sock_connect is configured")
    if r == "E_TIMEOUT" and not out.get("eff_total"):
        bad("false-timeout/total", "TimeoutError although no total timeout is configured")
    # ---- cancellation vs timeout, and the caller's cancel count
    c0 = sc.get("c0", 0)
    cancel_hit = sc.get("cancel") is not None and sc["cancel"] <= E        # the caller cancelled while the request ran
    wleak = c0 > 0 and sc.get("body", 0) > 65536 and sc.get("wresume") is not None
    if r == "E_CANCELLED" and not cancel_hit:
        if wleak:
            bad("spurious-cancel/writer-cancel-leaks-to-precancelled-caller",
                f"nobody cancelled the caller during the request (task.cancelling()={c0} from earlier, handled requests) "
                "yet CancelledError surfaced: the body writer's cancellation is re-raised by "
                "`_wait_released`/`wait_for_close` because `task.cancelling()` is non-zero", phase=False)
        else:
            bad("timeout-surfaced-as-cancel", f"nobody cancelled the caller during the request (task.cancelling()={c0} before) "
                "yet it ended with CancelledError instead of the documented timeout error / its result")
    if r != "pending" and out.get("c_after", -1) >= 0:
        want = c0 + (1 if (cancel_hit and r == "E_CANCELLED") else 0)
        if out["c_after"] != want and not (cancel_hit and r != "E_CANCELLED"):
            bad("cancel-count-not-restored", f"task.cancelling() was {c0} before the request and is {out['c_after']} after it "
                f"(expected {want}; outcome {r})")
    if sc.get("cancel") is not None and r == "pending" and out["c_before"] >= 0:
        bad("cancel-not-delivered", f"the caller was cancelled at {sc['cancel']} while the request was running; the request "
            "never returned (cancellation must end the request at once)")
    elif cancel_hit and r == "E_CANCELLED" and end is not None and end > sc["cancel"]:
        bad("cancel-delayed", f"the caller was cancelled at {sc['cancel']} but CancelledError surfaced only at {end}")
    if cancel_hit and r not in ("E_CANCELLED", "pending"):
        swallowed_tie = r == "E_TIMEOUT" and out.get("eff_total") and sc["cancel"] == bound(t0, out["eff_total"]) and out["hdr_at"] < 0 \
            and tr["established"]
        if swallowed_tie:
            bad("cancel-swallowed/total-timeout-same-instant-awaiting-headers",
                "the caller's cancellation arrived in the same loop iteration as the total timeout while awaiting the response "
                "head: the nested TimerContexts of _request and ClientResponse.start both uncancel(), the request raises "
                "TimeoutError and the cancellation request is lost", phase=False)
        else:
            bad("cancel-swallowed", f"the caller was cancelled at {sc['cancel']} while the request was running, yet it ended with {r} at {end}")
    # ---- residue
    if r != "pending":
        if out["acquired"] != 0:
            bad("residue/slot-not-freed", f"{out['acquired']} slot(s) still acquired after the request ended")
        if out["live"]:
            bad("residue/live-task", f"tasks of the request still alive: {out['live']}")
        if out["dns_waiters"] - out.get("c_waits_dns", 0) > 0:
            bad("residue/dns-waiter-left", "a per-waiter future of the ended request is still registered")
        if out["open_socks"]:
            bad("residue/socket-open", "a socket of an abandoned connect attempt was not closed")
        if r != "ok":
            complete = tr["eof_at"] is not None and tr["eof_at"] <= end
            # a redirect's first hop was a complete exchange: its connection may sit in the pool
            legit = 1 if (sc.get("redirect") and out["trace"].get("hop1_eof_at") is not None) else 0
            if out["open_r"] - legit > 0 and not complete:
                bad("residue/connection-not-closed", "the connection of a timed-out/cancelled exchange is still open")
            if out["pooled_r"] - legit > 0 and not complete:
                bad("residue/connection-pooled", "the connection of a timed-out/cancelled exchange went back to the pool")
        if sc.get("gz") and out["follow"] == "E_SOCK_TIMEOUT":
            bad("session-unusable/stale-read-timer-on-pooled-connection",
                "the exchange completed and its connection was pooled, yet a sock_read timer armed for it fired on the idle "
                "connection; the next request that reuses it fails with SocketTimeoutError at once", phase=False)
        elif out["follow"] != "ok" or out["follow_other"] != "ok":
            bad("session-unusable", f"follow-up requests: same host {out['follow']}, other host {out['follow_other']}")
    # ---- others
    c = out["c"]
    if c not in ("none", "ok", "pending"):
        bad("others/co-request-failed/" + c, "a request sharing the pool / the DNS lookup was failed or cancelled")
    if c == "pending" and r != "pending":
        could = (sc.get("co") == "pool" and sc.get("holder") is not None and sc["holder"] >= 0) or \
                (sc.get("co") == "pool" and sc.get("holder") is None) or \
                (sc.get("co") in ("dnsfirst", "dnswait") and sc.get("dns") is not None and sc["dns"] >= 0) or \
                (sc.get("co") == "dnsafter" and sc.get("dns") is not None and sc["dns"] > sc["c_at"])
        if could:
            lost = sc.get("co") == "pool" and out["waiters"] >= 1 and out["acquired"] == 0
            if lost:
                bad("others/pool-cowaiter-never-woken", "a free slot and a parked co-request: the wake-up was consumed by the "
                    "cancelled request and not passed on (same root cause as F8)", phase=False)
            else:
                bad("others/co-request-never-resumed", "the co-request is still parked although its slot / its lookup became available")
    if out["loop_excs"]:
        bad("loop-exception", f"{out['loop_excs']} exception(s) reached the loop's exception handler")


# ------------------------------------------------------------------------------ WebSocket close
WS_VALUES = [400, 2500, 4999, 5000, 7300]


def gen_ws(rng):
    """ws_connect with every way of passing the timeouts x peer silent / answering during the closing
    handshake x caller cancellation around the close"""
    kind = rng.choice(["default", "obj", "obj", "obj", "float"])
    if kind == "default":
        arg = ["default"]
    elif kind == "float":
        arg = ["float", rng.choice(WS_VALUES)]
    else:
        arg = ["obj", rng.choice([None, None, 700, 3000]), rng.choice([None] + WS_VALUES + WS_VALUES)]
    sc = {"ws": 1, "stall": "wsclose", "arg": arg, "recv": rng.choice([None, None, 300, 6000]),
          "close_at": rng.choice([10, 1000, 1003, 4200])}
    bound = {"default": 10000, "float": arg[-1], "obj": arg[-1]}[kind]
    r = rng.random()
    sc["peer"] = -1 if r < 0.6 else sc["close_at"] + rng.choice([1, 90, 2499, 2500, 2501, 9000, 12000])
    sc["cancel"] = None
    if rng.random() < 0.3:
        sc["cancel"] = sc["close_at"] + rng.choice([1, 90, (bound or 3000), (bound or 3000) - 1, (bound or 3000) + 1, 2500])
    return sc


def ws_model_line(sc):
    def o(v):
        return "-" if v is None else str(v)
    a = sc["arg"]
    if a[0] == "default":
        k = "default - -"
    elif a[0] == "float":
        k = f"float {a[1]} -"
    else:
        k = f"obj {o(a[1])} {o(a[2])}"
    peer = None if sc.get("peer", -1) < 0 else sc["peer"]
    return f"ws {k} {o(sc.get('recv'))} {sc['close_at']} {o(peer)} {o(sc.get('cancel'))}"


def ws_impl_line(out):
    if "harness" in out:
        return "harness=" + out["harness"] + " " + out.get("harness_detail", "")
    def o(v):
        return "none" if v is None else str(v)
    r = out["r"]
    if r == "closed":
        rr = f"closed@{out['r_at']} code={int(out['code']) if out['code'] is not None else '-'}"
    elif r == "pending":
        rr = "pending@-1 code=-"
    else:
        rr = f"{r}@{out['r_at']} code=-"
    return f"recv={o(out['eff_recv'])} close={o(out['eff_close'])} r={rr}"


def ws_oracle(ctx, sc, out):
    """the property on the real code: whatever way the timeouts were passed, close() against a silent
    peer returns by the configured ws_close; afterwards nothing is left"""
    def bad(clause, detail):
        ctx.violation(f"C18/ws-close/{clause}", sc, detail + " | " + ws_impl_line(out) +
                      f" acq={out.get('acquired')} open={out.get('open_r')} live={out.get('live')} follow={out.get('follow')}")
    if "harness" in out:
        ctx.violation("C18/harness/" + out["harness"], sc, out.get("harness_detail", ""))
        return
    a = sc["arg"]
    want_close = 10000 if a[0] == "default" else a[-1]          # documented: timeout's own ws_close / the 10 s default
    want_recv = sc["recv"] if sc.get("recv") is not None else (a[1] if a[0] == "obj" else None)
    if out["eff_close"] != want_close:
        bad("bound-discarded", f"effective ws_close is {out['eff_close']} ms, configured {want_close} ms "
            f"(timeout={a}, receive_timeout={sc.get('recv')})")
    if out["eff_recv"] != want_recv:
        bad("receive-bound-wrong", f"effective ws_receive is {out['eff_recv']} ms, configured {want_recv} ms")
    tc = out["close_called"]
    r = out["r"]
    if want_close is not None and tc >= 0:
        b = bound(tc, want_close)
        end = out["r_at"] if r != "pending" else None
        if end is None or end > b:
            bad("bound", f"ws_close={want_close} from {tc}: close() must be over by {b}, ended {end}")
    if r.startswith("E_OTHER"):
        bad("error-kind/" + r, "close() raised something that is not the caller's cancellation")
    if r != "pending":
        if out["acquired"]:
            bad("residue/slot-not-freed", "slot still acquired after close()")
        if out["open_r"]:
            bad("residue/connection-not-closed", "the WebSocket's connection is still open after close()")
        if out["live"]:
            bad("residue/live-task", f"tasks still alive: {out['live']}")
        if out["follow"] != "ok":
            bad("session-unusable", f"follow-up request: {out['follow']}")


def check_ws(ctx):
    n = 250 if ctx.quick else 4000
    cases = []
    for f in sorted(glob.glob(os.path.join(os.path.dirname(os.path.dirname(os.path.abspath(__file__))), "corpus", "C18", "*.json"))):
        with open(f) as fh:
            c = json.load(fh)
            if c.get("ws"):
                cases.append(c)
    cases += [gen_ws(ctx.rng) for _ in range(n)]
    outs = [c18env.run_ws_scenario(sc) for sc in cases]
    ml = ctx.model([ws_model_line(sc) for sc in cases])
    for i, (sc, out) in enumerate(zip(cases, outs)):
        il = ws_impl_line(out)
        ctx.case(sc, sample=({"scenario": sc, "impl": il} if i % 100 == 0 else None))
        ctx.hit("stall:wsclose", "ws:" + out.get("r", "?"))
        ws_oracle(ctx, sc, out)
        if ml is not None:
            ctx.compare(sc, il, ml[i])


# ------------------------------------------------------------------------------ TimerContext alone
def run_timer_ctx(c0, depth, ops):
    """the real helpers.TimerContext: a task with `c0` handled cancellations enters it `depth` times
    (nested), parks; `ops` (F = TimerContext.timeout(), X = Task.cancel()) happen before it runs again"""
    import asyncio
    from aiohttp.helpers import TimerContext
    loop = c18env.DLoop()
    asyncio.set_event_loop(loop)
    res = {}

    async def main():
        timer = TimerContext(loop)
        gate = loop.create_future()

        async def worker():
            me = asyncio.current_task()
            for _ in range(c0):
                me.cancel()
                try:
                    await asyncio.sleep(0)
                except asyncio.CancelledError:
                    pass
            try:
                if depth == 1:
                    with timer:
                        await gate
                else:
                    with timer:
                        with timer:
                            await gate
                res["r"] = "result"
            except asyncio.CancelledError:
                res["r"] = "E_CANCELLED"
            except asyncio.TimeoutError:
                res["r"] = "E_TIMEOUT"
            res["cnl"] = me.cancelling()
        t = loop.create_task(worker())
        for _ in range(c0 + 2):
            await asyncio.sleep(0)
        for ch in ops:
            if ch == "F":
                timer.timeout()
            else:
                t.cancel()
        if not ops:
            gate.set_result(None)
        await asyncio.sleep(0.01)
        return res
    try:
        return loop.run_until_complete(main())
    finally:
        asyncio.set_event_loop(None)
        loop.close()


def check_timer(ctx):
    import itertools
    cases = []
    for c0 in (0, 1, 2, 3):
        for depth in (1, 2):
            for n in range(0, 4 if ctx.quick else 6):
                for ops in itertools.product("FX", repeat=n):
                    cases.append((c0, depth, "".join(ops)))
    ml = ctx.model([f"tc {c0} {depth} {ops or '-'}" for c0, depth, ops in cases])
    for i, (c0, depth, ops) in enumerate(cases):
        out = run_timer_ctx(c0, depth, ops)
        il = f"{out.get('r')} cnl={out.get('cnl')}"
        case = {"timer_ctx": 1, "stall": "timerctx", "c0": c0, "depth": depth, "ops": ops}
        ctx.case(case, sample=({"scenario": case, "impl": il} if i % 40 == 0 else None))
        ctx.hit("timerctx:" + str(out.get("r")))
        timer_oracle(ctx, case, out)
        if ml is not None:
            ctx.compare(case, il, ml[i])


def timer_oracle(ctx, case, out):
    """documented contract of the timeout context, on the real class alone"""
    c0, depth, ops = case["c0"], case["depth"], case["ops"]
    ext = ops.count("X")
    fired = "F" in ops
    want = "E_CANCELLED" if ext else ("E_TIMEOUT" if fired else "result")
    if depth == 2 and ext == 1 and fired:
        return        # known: nested contexts swallow one coinciding external cancellation (judged in the request scenarios)
    if out.get("r") != want:
        ctx.violation(f"C18/timer-context/{'timeout-surfaced-as-cancel' if want == 'E_TIMEOUT' else 'wrong-outcome'}", case,
                      f"task.cancelling()={c0} before, ops={ops!r}, depth={depth}: raised {out.get('r')}, expected {want}")
    elif want == "E_TIMEOUT" and out.get("cnl") != c0:
        ctx.violation("C18/timer-context/cancel-count-not-restored", case,
                      f"task.cancelling() was {c0} before the timeout and is {out.get('cnl')} after it")


def check(ctx):
    check_timer(ctx)
    check_ws(ctx)
    n = 6000 if ctx.quick else 60000
    cases = []
    for f in sorted(glob.glob(os.path.join(os.path.dirname(os.path.dirname(os.path.abspath(__file__))), "corpus", "C18", "*.json"))):
        with open(f) as fh:
            c = json.load(fh)
            if not c.get("ws"):
                cases.append(c)
    cases += [gen_scenario(ctx.rng) for _ in range(n)]
    cases += [gen_pool_race(ctx.rng) for _ in range(n // 10)]
    cases += [gen_pause_resume(ctx.rng) for _ in range(n // 10)]
    cases += [gen_cancel_upload(ctx.rng) for _ in range(n // 10)]
    cases += [gen_framing(ctx.rng) for _ in range(n // 5)]
    cases += [gen_tls(ctx.rng) for _ in range(n // 8)]
    cases += [gen_dns_after(ctx.rng) for _ in range(n // 12)]
    cases += [gen_compressed_slow(ctx.rng) for _ in range(n // 60)]
    cases += [gen_interim(ctx.rng) for _ in range(n // 40)]
    cases += [gen_expect100(ctx.rng) for _ in range(n // 40)]
    cases += [gen_overlap(ctx.rng) for _ in range(n // 20)]
    cases += [gen_redirect(ctx.rng) for _ in range(n // 30)]
    for sc in cases:
        # the calling task may already carry handled cancellation requests (request made from an
        # `except CancelledError:` handler, or after a swallowed cancel): cancelling() in {0, 1, 2}
        if "c0" not in sc:
            sc["c0"] = ctx.rng.choice([0, 0, 0, 1, 1, 2])
        if not sc.get("ws") and "ceil_thr" not in sc and ctx.rng.random() < 0.25:
            sc["ceil_thr"] = ctx.rng.choice([1000, 2500, 4999, 7300, 10000])      # ClientTimeout.ceil_threshold
        if "per_request" not in sc and ctx.rng.random() < 0.2:
            sc["per_request"] = 1                                                  # timeouts passed with the request
        if ctx.rng.random() < 0.05:
            for k in ("connect", "sock_connect", "sock_read"):                     # 0 = "no timeout" for these three
                if sc.get(k) is None and ctx.rng.random() < 0.5:
                    sc[k] = 0
        if sc["c0"] and sc.get("body", 0) > 65536 and sc.get("wresume") is not None:
            sc["oracle_only"] = 1      # known finding C18-K6 (writer cancel leaks to a pre-cancelled caller): not in the model
    outs = [c18env.run_scenario(to_env(sc)) for sc in cases]
    ml = ctx.model([model_line(sc) if not sc.get("oracle_only") else "run @0:R" for sc in cases])
    for i, (sc, out) in enumerate(zip(cases, outs)):
        il = impl_line(out)
        ctx.case(sc, sample=({"scenario": {k: v for k, v in sc.items() if k != "resp"}, "impl": il} if i % 400 == 0 else None))
        ctx.hit("stall:" + sc["stall"], "r:" + str(out.get("r")))
        oracle(ctx, sc, out)
        if ml is not None and not sc.get("oracle_only"):
            ctx.compare(sc, il, ml[i])


def replay(ctx, case):
    if case.get("timer_ctx"):
        timer_oracle(ctx, case, run_timer_ctx(case["c0"], case["depth"], case["ops"]))
        return
    if case.get("ws"):
        ws_oracle(ctx, case, c18env.run_ws_scenario(case))
        return
    out = c18env.run_scenario(to_env(case))
    oracle(ctx, case, out)
