"""C07 — connection pool: limits hold, nothing leaks, no waiter is forgotten.

Implementation under test: aiohttp.connector.BaseConnector (connect, _get, _available_connections,
_wait_for_available_connection, _release_waiter, _release_acquired, _release, _close_immediately),
driven label by label on a hand-stepped virtual loop (harness/common/c07_pool.py).
Model: lean/AioModel/C07.lean; theorems: lean/AioProps/C07.lean.
"""
import contextlib
import itertools
import signal

from .common import c07_session

from .common.c07_pool import Pool

PROPERTY = "C07"
LEAN_MODULES = ["AioProps.C07"]
THEOREMS = [
    "Aio.C07.limit_inv",
    "Aio.C07.attempts_counted",
    "Aio.C07.no_leak",
    "Aio.C07.close_closes_all",
    "Aio.C07.every_open_connection_tracked",
    "Aio.C07.cleanup_partitions",
    "Aio.C07.endpointKey_eq_iff",
    "Aio.C07.endpointKey_default_port",
    "Aio.C07.release_waiter_wakes",
    "Aio.C07.no_forgotten_waiter_partial",
    "Aio.C07.f7_limit_exceeded_unfixed",
    "Aio.C07.f8_lost_wakeup_unfixed",
    "Aio.C07.race_lost_wakeup_unfixed",
    "Aio.C07.after_close_leak_unfixed",
    "Aio.C07.trace_orphan_unfixed",
]
RULE = ("a case = (limit, limit_per_host, key of each of N tasks, label sequence); labels: spawn / tick (one ready "
        "callback) / attempt ok|fail / cancel / connect-timeout / release to pool|close / idle connection lost / connector "
        "close / shuffle order. Generator classes: guided walk over enabled labels, saturate (limit 1, one key, cancels of "
        "woken waiters), per-host (limit_per_host 1, two keys), reuse (pooling, fast path, lost idle connections), close-at-"
        "any-step, keepalive (several idle connections per host released at different virtual times, time passing, the "
        "keep-alive sweep firing in between, reuse, close), close-in-hook (close() while a task is suspended in each of the five trace hooks, before/after the callback "
        "returns, then everything runs to completion; the run fails as machinery error if one hook is never hit), traced (suspending on_connection_reuseconn/queued_start/queued_end/create_start/create_end callbacks "
        "resolved by label, any subset), noise (arbitrary labels incl. disabled ones), scripted scenarios; thorough adds the exhaustive exploration "
        "of every reachable state and transition for N<=3 tasks (all placements of cancel/fail/close). Plus ClientSession-level "
        "scenarios: (i) request body / expect100 / peer / ending, (ii) response consumption: response headers (plain, advertising "
        "Upgrade, keep-alive, close) x framing x segmentation x consumer (streaming to EOF while keeping the response, read, "
        "release, context manager), (iii) URL spellings of one endpoint vs distinct endpoints under limit_per_host; first family "
        "was 810 scenarios (limit kind x request body kind x expect100 x scripted peer x how the caller ends the exchange) judged by "
        "a direct oracle. Non-trivial = at least one task reached the pool; distinct by content.")
TRUSTED_BASE = [
    "the hand-written model AioModel/C07.lean is tied to connector.py only by trace conformance (state projection after every label)",
    "CPython asyncio semantics assumed by the model: ready callbacks run FIFO; Task.cancel() cancels a pending awaited future or sets "
    "must_cancel; asyncio.timeout converts its own cancellation into TimeoutError (exercised by the correspondence, not proved)",
    "force_close and SSL abort/_cleanup_closed are not modelled; the keep-alive clock is a label (`monotonic` replaced by a "
    "virtual clock) and the sweep `_cleanup()` may fire at any time while its timer is armed (a superset of the real timer "
    "schedule); trace callbacks are modelled as await points "
    "(one Trace per request, each selected hook suspends once); the ClientSession/ClientResponse layer (release of the Connection "
    "when the request writer is still pending) is NOT modelled in Lean: 810 session-level scenarios are judged by a direct oracle only",
    "random.shuffle in _release_waiter is replaced by a label-given order (every order is a possible shuffle result)",
]
ASSUMPTIONS = [
    "theorems are about the model with the five repairs switched on (Fixes.all); for the code as it is (Fixes.none) the "
    "deviations are kernel-checked counterexamples and the direct oracle reports them on the real connector",
    "no_forgotten_waiter (global quiescence form) is NOT proved; proved instead: the wake-up step (release_waiter_wakes, "
    "no_forgotten_waiter_partial) for every state; the rest is covered by correspondence + exhaustive small-scope exploration",
    "limit_inv bounds the connector's own counters; that every handed-out open connection is in _acquired is shown only for "
    "connection attempts (attempts_counted) — for established connections it is checked by the direct oracle's harness-side count",
]

FINISHED = set("dXTEQ")


# ------------------------------------------------------------------------------- oracle
class Judge:
    """the property evaluated on the real connector alone, after every label.
    Uses only harness-side facts (Pool.in_use, task states, transports) and the connector's own
    counters for the 'nothing remains counted' clause; never the Lean model."""

    def __init__(self, limit, lph):
        self.limit, self.lph = limit, lph
        self.found = {}       # clause -> (index, detail)
        self.flags = set()
        self.prev = None
        self.closed_seen = False

    def __call__(self, p, lab, idx):
        states = [p.task_state(t) for t in range(len(p.tasks))]
        ready = bool(p.loop._ready)
        total, per = p.in_use()
        # history facts used to name the violation
        if self.prev is not None and lab == "k":
            for t, (a, b) in enumerate(zip(self.prev, states)):
                if a != b:
                    if a[0] == "W" and a.endswith("!") and b in ("X", "T"):
                        self.flags.add("woken-waiter-cancelled")
                    if a[0] == "W" and b[0] == "w":
                        self.flags.add("woken-waiter-lost-race")
                    if "~" in a and a.endswith("!") and a[0] in "uc" and b in ("X", "T"):
                        self.flags.add("cancelled-in-trace-callback")
                    self.last_move = (a, b)
        # (1) limits
        over = (self.limit and total > self.limit) or (self.lph and any(x > self.lph for x in per))
        if over and "limit" not in self.found:
            a, b = getattr(self, "last_move", ("?", "?")) if lab == "k" else ("?", "?")
            how = ("fastpath-pooled-connection" if a == "s" and b[0] in "hu" else
                   "after-wait-pooled-connection" if a.startswith("W") and b[0] in "hu" else
                   "new-connection-attempt" if b.startswith("c") else "other")
            if p.conn._closed:
                how = "on-closed-connector"
            self.found["limit"] = (idx, how, f"in use {total} (per host {per}) with limit={self.limit} limit_per_host={self.lph}")
        # (0) connect() may only end with a Connection, CancelledError, TimeoutError, OSError of the attempt,
        #     or ClientConnectionError("Connector is closed") — never with an internal error
        for t, st in enumerate(states):
            if st.startswith("?(") and st != "?(running)":
                self.found.setdefault("raised", (idx, st[2:-1] + ("-after-close" if p.conn._closed else ""),
                                                 f"connect() of task {t} raised {st[2:-1]}"))
        closed = p.conn._closed
        if lab == "C" and self.prev is not None and not self.closed_seen:
            for st in self.prev:
                if "~" in st:
                    self.flags.add("close-while-suspended-in:" + st.split("~")[1][0])
            # tasks parked on a pending future when close() was called: close must fail them
            self.waiting_at_close = {t for t, st in enumerate(self.prev) if st == "w"}
        if closed:
            self.closed_seen = True
        if not ready:
            # (2) nobody waits while there is capacity / on a closed connector
            # a woken waiter still inside an application trace callback holds the wake-up: not quiescent for the pool
            promised = any(st[0] == "W" and "~" in st for st in states)
            for t, st in enumerate(states):
                if st == "w" and not (promised and not closed):
                    k = p.keys[t]
                    cap = (not self.limit or total < self.limit) and (not self.lph or per[k] < self.lph)
                    if closed and t in getattr(self, "waiting_at_close", ()):
                        self.found.setdefault("close-waiter", (idx, "waiter-not-failed", f"task {t} was waiting when the connector was closed and is still parked"))
                    elif closed:
                        self.found.setdefault("parked-closed", (idx, "waiter-parked-on-closed-connector", f"task {t} parked forever on a closed connector"))
                    elif cap:
                        why = ("woken-waiter-cancelled" if "woken-waiter-cancelled" in self.flags else
                               "woken-waiter-lost-race" if "woken-waiter-lost-race" in self.flags else "no-wakeup")
                        self.found.setdefault("stuck", (idx, why, f"task {t} (host {k}) parked with nothing ready while in use "
                                                        f"{total} (per host {per}), limit={self.limit} limit_per_host={self.lph}"))
            # (3) nothing remains counted once every request is over
            if all(st == "i" or st in FINISHED for st in states) and any(st != "i" for st in states):
                c = p.conn
                left = []
                if c._acquired:
                    left.append("acquired")
                real_left = [x for x in c._acquired if not isinstance(x, p.mod._TransportPlaceholder)]
                if any(len(v) for v in c._acquired_per_host.values()):
                    left.append("acquired-per-host")
                if any(len(v) for v in c._waiters.values()):
                    left.append("waiters")
                if left:
                    # known F22b = what close() forgets: per-host entries, and the placeholder of a connect() made after
                    # close; real connections or waiters left on a closed connector are something else
                    closed_how = ("on-closed-connector" if not real_left and "waiters" not in left
                                  else "on-closed-connector/" + ("connections" if real_left else "waiters"))
                    self.found.setdefault("leak", (idx, (closed_how if closed else "+".join(left)),
                                                   f"all requests over, still counted: {left}"))
        # (5) conservation: every open connection the connector created is exactly one of
        #     {counted in _acquired, idle in the pool, still in connect()'s hands inside on_connection_create_end}
        pend = {p.created_by[t] for t, (letter, _) in p.trace_wait.items() if letter == "e"}
        acq = {id(x) for x in p.conn._acquired}
        idl = [id(pr) for q in p.conn._conns.values() for pr, _ in q]
        for tr in p.transports:
            if tr.closing:
                continue
            n = (id(tr.proto) in acq) + idl.count(id(tr.proto)) + (tr.cid in pend)
            if n == 0 and not (p.conn._closed):
                how = ("orphaned-by-cancellation-in-trace-callback" if "cancelled-in-trace-callback" in self.flags
                       else "dropped-by-keepalive-sweep" if lab == "S" else "open-connection-untracked")
                self.found.setdefault("conserve", (idx, how, f"connection {tr.cid} is open but neither in _acquired nor in the "
                                                              f"idle pool (after label {lab})"))
            elif n > 1:
                self.found.setdefault("conserve2", (idx, "open-connection-tracked-twice",
                                                    f"connection {tr.cid} is tracked {n} times (acquired/idle/new)"))
        # (4) close closes every connection created
        # (a connection whose on_connection_create_end callback has not returned yet is still in connect()'s hands)
        pending_new = {p.created_by[t] for t, (letter, _) in p.trace_wait.items() if letter == "e"}
        if closed:
            self.seen_pending_while_closed = getattr(self, "seen_pending_while_closed", set()) | pending_new
        if closed and any(not tr.closing for tr in p.transports if tr.cid not in pending_new):
            left = {tr.cid for tr in p.transports if not tr.closing and tr.cid not in pending_new}
            how = ("orphaned-by-cancellation-in-trace-callback" if "cancelled-in-trace-callback" in self.flags
                   else "new-connection-not-closed-after-create-end-callback"
                   if left & getattr(self, "seen_pending_while_closed", set())
                   else "transport-left-open")
            self.found.setdefault("close-open", (idx, how, "a transport is open after connector close"))
        self.prev = states


SIG = {"limit": "C07/limit-exceeded/", "stuck": "C07/lost-wakeup/", "parked-closed": "C07/close/",
       "leak": "C07/leak/", "close-open": "C07/close/", "close-waiter": "C07/close/", "raised": "C07/connect-raised/",
       "conserve": "C07/conservation/", "conserve2": "C07/conservation/", "hang": "C07/liveness/", "api": "C07/api-call-raised/"}


class Hang(Exception):
    """one synchronous step of the real code did not return within the budget (e.g. a loop in _release_waiter)"""


@contextlib.contextmanager
def watchdog(seconds=20.0):
    """liveness guard: a scenario is a few hundred synchronous steps of a millisecond; if one does not come back
    the check must end with a replay instead of hanging"""
    def on_alarm(signum, frame):
        raise Hang()
    old = signal.signal(signal.SIGALRM, on_alarm)
    signal.setitimer(signal.ITIMER_REAL, seconds)
    try:
        yield
    finally:
        signal.setitimer(signal.ITIMER_REAL, 0)
        signal.signal(signal.SIGALRM, old)


def signature(clause, how):
    # the orphan left by a cancellation inside a trace callback is one finding (C07-F23), whether it is noticed
    # when it drops out of the bookkeeping or when close() fails to close it
    if how == "orphaned-by-cancellation-in-trace-callback":
        return "C07/close/" + how
    return SIG[clause] + how


def run_case(case, want_proj=True, observe=None):
    """-> (projections, judge, enabled-at-end)"""
    limit, lph, keys, labels = case["limit"], case["lph"], case["keys"], case["labels"]
    p = Pool(limit, lph, keys, case.get("mask", 0), case.get("ka", 15))
    j = Judge(limit, lph)
    out = []
    try:
        with watchdog():
            for i, lab in enumerate(labels):
                j.at = i
                try:
                    p.do(lab)
                except Hang:
                    raise
                except Exception as e:      # release()/close()/_cleanup()/Task.cancel() are the application's calls: must not raise
                    j.found["api"] = (i, f"{lab[0]}-raised-{type(e).__name__}", f"label {lab} raised {e!r}")
                    break
                if want_proj:
                    out.append(p.project())
                j(p, lab, i)
        return out, j
    except Hang:
        j.found["hang"] = (getattr(j, "at", 0), "step-did-not-terminate",
                           f"label #{getattr(j, 'at', 0)} ({labels[getattr(j, 'at', 0)]}) did not return within 20 s")
        return out, j
    finally:
        p.dispose()


def shrink(case, clause):
    """greedy removal of labels while the same clause of the property still fails"""
    labels = list(case["labels"])

    def fails(ls):
        _, j = run_case({**case, "labels": ls}, want_proj=False)
        return clause in j.found
    changed = True
    while changed:
        changed = False
        i = len(labels) - 1
        while i >= 0:
            cand = labels[:i] + labels[i + 1:]
            if fails(cand):
                labels = cand
                changed = True
            i -= 1
    return {**case, "labels": labels}


def report(ctx, case, j, budget):
    """turn the judge's raw findings into signatures (after minimisation)"""
    if "hang" in j.found:
        idx, how, detail = j.found["hang"]
        ctx.violation(signature("hang", how), {**case, "labels": case["labels"][:idx + 1]}, detail)
        return
    for clause in list(j.found):
        ctx.hit("oracle-raw:" + clause)
        # the minimisation budget is per (clause, preliminary classification), so that the many instances of a known
        # finding cannot use up the budget of a different violation of the same clause
        bkey = (clause, j.found[clause][1])
        left = budget.setdefault(bkey, budget.get(clause, 0))
        if left <= 0:
            continue
        budget[bkey] = left - 1
        small = shrink(case, clause)
        _, j2 = run_case(small, want_proj=False)
        if clause not in j2.found:
            continue
        idx, how, detail = j2.found[clause]
        ctx.violation(signature(clause, how), small, detail + f" after label #{idx} of {' '.join(small['labels'])}")


# ------------------------------------------------------------------------------- generators
WEIGHTS = {"k": 4.0, "s": 3.0, "o": 3.0, "f": 0.6, "c": 0.8, "m": 0.3, "r": 1.5, "x": 1.0, "l": 0.3, "C": 0.04, "t": 3.0, "S": 0.5}
PROFILES = {
    "guided": {},
    "saturate": {"c": 2.5, "m": 0.8, "x": 2.0, "r": 0.6, "s": 4.0},
    "perhost": {"c": 1.5, "x": 2.0, "r": 0.8, "s": 4.0, "p": 1.5},
    "reuse": {"r": 4.0, "x": 0.3, "l": 0.8, "s": 4.0},
    "close": {"C": 0.5},
    "traced": {"s": 5.0, "t": 2.0, "c": 1.2, "r": 2.5},
    "traced-close": {"C": 0.4, "c": 1.2},
    # several idle connections per host released at different times, the keep-alive sweep in between, reuse, close
    "keepalive": {"r": 6.0, "x": 0.3, "s": 4.0, "o": 5.0, "S": 2.5, "C": 0.08, "c": 0.2, "m": 0.05, "f": 0.2, "l": 0.4},
    # close() is called while a task is suspended in one chosen trace hook (see walk)
    "close-in-hook": {"s": 5.0, "t": 0.6, "r": 3.0, "x": 1.5, "c": 0.3, "m": 0.1, "C": 0.001},
}
HOOK_BITS = {"r": 0, "q": 1, "Q": 2, "s": 3, "e": 4}


def gen_params(rng, profile):
    """-> (limit, limit_per_host, keys, mask of suspending trace hooks)"""
    if profile == "keepalive":
        n = rng.randint(3, 6)
        keys = [0] * n if rng.random() < 0.6 else [rng.randrange(2) for _ in range(n)]
        return rng.choice([0, 3, 4, 6]), rng.choice([0, 0, 3]), keys, (31 if rng.random() < 0.1 else 0)
    if profile == "close-in-hook":
        n = rng.randint(2, 4)
        return 1, rng.choice([0, 0, 1]), [0] * n if rng.random() < 0.8 else [rng.randrange(2) for _ in range(n)], 0
    if profile.startswith("traced"):
        n = rng.randint(2, 5); h = rng.randint(1, 2)
        mask = rng.choice([31, 31, 8, 1, 2 | 4, 16, rng.randrange(1, 32)])
        return rng.choice([1, 1, 2, 0]), rng.choice([0, 0, 1]), [rng.randrange(h) for _ in range(n)], mask
    lim, lph, keys = _gen_params(rng, profile)
    return lim, lph, keys, (rng.randrange(1, 32) if rng.random() < 0.15 else 0)


def _gen_params(rng, profile):
    if profile == "saturate":
        n = rng.randint(3, 6); keys = [0] * n if rng.random() < 0.7 else [rng.randrange(2) for _ in range(n)]
        return rng.choice([1, 1, 2]), rng.choice([0, 0, 1]), keys
    if profile == "perhost":
        n = rng.randint(3, 6); h = rng.randint(2, 3)
        return rng.choice([0, 0, 2, 3]), rng.choice([1, 1, 2]), [rng.randrange(h) for _ in range(n)]
    if profile == "reuse":
        n = rng.randint(2, 6); h = rng.randint(1, 3)
        return rng.choice([1, 1, 2, 3]), rng.choice([0, 0, 1]), [rng.randrange(h) for _ in range(n)]
    n = rng.randint(1, 6); h = rng.randint(1, 3)
    return rng.choice([0, 1, 1, 2, 2, 3]), rng.choice([0, 0, 1, 1, 2, 3]), [rng.randrange(h) for _ in range(n)]


def walk(rng, profile, judge_cb=None, hook=None):
    """online guided walk: returns (case, projections, judge).
    With `hook` (profile close-in-hook): that trace hook (and a random subset of the others) suspends; as soon as some
    task is suspended in it the connector is closed — before or after the callback returns —, then every callback is
    allowed to return and every task to run, so that the suspended connect() finishes on the closed connector."""
    limit, lph, keys, mask = gen_params(rng, profile)
    if hook is not None:
        mask = (1 << HOOK_BITS[hook]) | (rng.randrange(32) if rng.random() < 0.4 else 0)
    phase = 0
    ka = rng.choice([10, 15, 3, 0]) if profile == "keepalive" else 15
    if profile in ("reuse", "guided", "close") and rng.random() < 0.12:
        mask |= 32        # force_close connector
    p_adv = 0.22 if profile == "keepalive" else 0.02
    nk = max(keys) + 1
    w = dict(WEIGHTS); w.update(PROFILES[profile])
    p = Pool(limit, lph, keys, mask, ka)
    j = Judge(limit, lph)
    labels, out = [], []
    try:
        first = "p" + ".".join(map(str, rng.sample(range(nk), nk)))
        for i in range(rng.randint(4, 45) if hook is None else 60):
            if i == 0:
                lab = first
            elif rng.random() < w.get("p", 0.3) / 10:
                lab = "p" + ".".join(map(str, rng.sample(range(nk), rng.randint(0, nk))))
            elif phase != 1 and rng.random() < p_adv:
                lab = "a" + str(rng.choice([1, 2, 4, 7, 11, 16]))
            else:
                en = p.enabled()
                if not en:
                    break
                if hook is not None:
                    sus = [t for t in range(len(keys)) if ("~" + hook) in p.task_state(t)]
                    if phase == 0 and sus:
                        phase = 1
                        pre = rng.choice(["", "", "t", "tc", "c"])   # callback returns / task cancelled just before close
                        forced = [x + str(sus[0]) for x in pre] + ["C"]
                    if phase == 1:
                        lab = forced.pop(0)
                        if not forced:
                            phase = 2
                            w = dict(w); w.update({"t": 6.0, "k": 6.0, "s": 1.0, "c": 0.4})
                        labels.append(lab)
                        with watchdog():
                            p.do(lab)
                        out.append(p.project()); j(p, lab, i)
                        continue
                if rng.random() < 0.04:   # a label that is (probably) disabled: must be a no-op
                    lab = rng.choice("socmrxlt") + str(rng.randrange(len(keys)))
                else:
                    lab = rng.choices(en, weights=[w[e[0]] for e in en])[0]
            labels.append(lab)
            try:
                with watchdog():
                    p.do(lab)
            except Hang:
                raise
            except Exception as e:
                j.found["api"] = (i, f"{lab[0]}-raised-{type(e).__name__}", f"label {lab} raised {e!r}")
                out.append("api-call-raised")
                break
            out.append(p.project())
            j(p, lab, i)
        return {"limit": limit, "lph": lph, "mask": mask, "ka": ka, "keys": keys, "labels": labels}, out, j
    except Hang:
        j.found["hang"] = (len(labels) - 1, "step-did-not-terminate", f"label {labels[-1]} did not return within 20 s")
        return {"limit": limit, "lph": lph, "mask": mask, "ka": ka, "keys": keys, "labels": labels}, out, j
    finally:
        p.dispose()


def noise(rng):
    n = rng.randint(1, 5); h = rng.randint(1, 3)
    keys = [rng.randrange(h) for _ in range(n)]
    labs = ["p" + ".".join(map(str, rng.sample(range(h), h)))]
    for _ in range(rng.randint(3, 40)):
        r = rng.random(); t = rng.randrange(n)
        labs.append("k" if r < 0.3 else rng.choice(["s%d", "s%d", "o%d", "o%d", "f%d", "c%d", "m%d", "r%d", "x%d", "l%d", "t%d", "t%d"]) % t
                    if r < 0.95 else "C" if r < 0.97 else "p" + ".".join(map(str, rng.sample(range(h), rng.randint(0, h)))))
    return {"limit": rng.choice([0, 1, 1, 2, 3]), "lph": rng.choice([0, 0, 1, 2]), "mask": rng.choice([0, 0, 31, rng.randrange(32)]),
            "keys": keys, "labels": labs}


def L(s):
    return s.split()


SCRIPTED = [
    # F7: pooled connection taken on the fast path although the limit is reached
    {"limit": 1, "lph": 0, "keys": [0, 1, 0], "labels": L("p0.1 s0 k o0 k r0 s1 k o1 k s2 k")},
    # F8: woken waiter cancelled before it runs
    {"limit": 1, "lph": 0, "keys": [0, 0, 0], "labels": L("p0 s0 k o0 k s1 k s2 k x0 c1 k k k")},
    # woken waiter loses the race for its own host; a waiter of another host with capacity is never woken
    {"limit": 0, "lph": 1, "keys": [0, 1, 0, 1, 0], "labels": L("p0.1 s0 k o0 k s1 k o1 k s2 k s3 k s4 k p1.0 x0 p0.1 x1 k k k k")},
    # connect() on a connector that was closed: placeholder / per-host entries stay, later requests park forever
    {"limit": 1, "lph": 1, "keys": [0, 0, 0], "labels": L("p0 s0 k o0 k C s1 k x0")},
    {"limit": 1, "lph": 0, "keys": [0, 0, 0], "labels": L("p0 C s0 k o0 k s1 k")},
    # plain life cycles
    {"limit": 2, "lph": 1, "keys": [0, 1, 0, 1], "labels": L("p1.0 s0 s1 s2 s3 k k k k o0 f1 k k k k o2 k r0 r2 k k")},
    {"limit": 1, "lph": 0, "keys": [0, 0], "labels": L("p0 s0 k s1 k m1 k m0 k o0 k")},
    {"limit": 2, "lph": 0, "keys": [0, 0, 1], "labels": L("p0.1 s0 k o0 k r0 l0 s1 k o1 k r1 s2 k C k")},
    # a pooled connection is being reused; the task is cancelled inside the on_connection_reuseconn callback; close
    {"limit": 1, "lph": 0, "mask": 1, "keys": [0, 0], "labels": L("p0 s0 k o0 k r0 s1 k c1 k C")},
    # three requests, one slot, on_connection_create_start suspends: only one may pass the capacity check
    {"limit": 1, "lph": 0, "mask": 8, "keys": [0, 0, 0], "labels": L("p0 s0 s1 s2 k k k t0 t1 t2 k k k o0 k x0 k k")},
    {"limit": 0, "lph": 1, "mask": 31, "keys": [0, 0, 0], "labels": L("p0 s0 k t0 k o0 k t0 k s1 s2 k k t1 t2 k k r0 k t1 k t1 k k t2 k")},
    # keep-alive: three idle connections of one host released at t=0,4,8 (keep-alive 10); sweep at t=12 (mixed
    # expired / fresh), reuse, sweep again, close
    {"limit": 3, "lph": 0, "ka": 10, "keys": [0, 0, 0, 0], "labels":
     L("p0 s0 s1 s2 k k k o0 o1 o2 k k k r0 a4 r1 a4 r2 a4 S s3 k r3 a7 S a11 S C")},
    {"limit": 0, "lph": 0, "ka": 10, "keys": [0, 1, 0, 1], "labels":
     L("p0.1 s0 s1 s2 s3 k k k k o0 o1 o2 o3 k k k k r0 r1 a6 r2 r3 a6 S a6 S C")},
    # _get meets an expired and a lost connection before a fresh one
    {"limit": 3, "lph": 0, "ka": 10, "keys": [0, 0, 0, 0], "labels":
     L("p0 s0 s1 s2 k k k o0 o1 o2 k k k r0 a6 r1 l1 a6 r2 s3 k C")},
    # a connection lost while in use is released: not pooled, slot returned, the waiter gets it (Connection.release path)
    {"limit": 1, "lph": 1, "keys": [0, 0], "labels": L("p0 s0 k o0 k s1 k l0 r0 k o1 k x1")},
    # roll-back of a failed on_connection_reuseconn: slot and per-host entry returned, waiter woken
    {"limit": 0, "lph": 1, "mask": 1, "keys": [0, 0, 0], "labels": L("p0 s0 k o0 k r0 s1 k s2 k c1 k k o2 k x2")},
    # force_close connector (bit 5): nothing is ever pooled
    {"limit": 2, "lph": 0, "mask": 32, "keys": [0, 0, 0], "labels": L("p0 s0 k o0 k r0 s1 k o1 k r1 s2 k C")},
    # keepalive_timeout = 0: a connection is reusable only in the instant it was released
    {"limit": 2, "lph": 0, "ka": 0, "keys": [0, 0, 0], "labels": L("p0 s0 k o0 k r0 s1 k r1 a1 s2 k S C")},
    # both limits bind, two hosts, connect timeout on a waiter, close twice
    {"limit": 2, "lph": 1, "keys": [0, 0, 1, 1], "labels": L("p1.0 s0 s1 s2 s3 k k k k m1 k o0 o2 k k x0 k o3 k C C")},
    # close() while a task is suspended in each trace hook; the callback then returns and connect() finishes
    {"limit": 1, "lph": 0, "mask": 16, "keys": [0, 0], "labels": L("p0 s0 k o0 k C t0 k")},          # create_end
    {"limit": 1, "lph": 1, "mask": 16, "keys": [0, 0], "labels": L("p0 s0 k o0 k t0 C k s1 k")},     # create_end, returned first
    {"limit": 1, "lph": 0, "mask": 8, "keys": [0, 0], "labels": L("p0 s0 k C t0 k o0 k")},           # create_start
    {"limit": 1, "lph": 0, "mask": 1, "keys": [0, 0], "labels": L("p0 s0 k o0 k r0 s1 k C t1 k x1")},  # reuseconn
    {"limit": 1, "lph": 0, "mask": 2, "keys": [0, 0], "labels": L("p0 s0 k o0 k s1 k C t1 k k x0")},   # queued_start
    {"limit": 1, "lph": 0, "mask": 4, "keys": [0, 0], "labels": L("p0 s0 k o0 k s1 k x0 k C t1 k o1 k")},  # queued_end
    {"limit": 1, "lph": 0, "mask": 16, "keys": [0, 0], "labels": L("p0 s0 k o0 k C c0 k")},          # create_end, cancelled after close
    # woken while still inside on_connection_queued_start; cancelled inside on_connection_queued_end
    {"limit": 1, "lph": 0, "mask": 6, "keys": [0, 0, 0], "labels": L("p0 s0 k o0 k s1 k s2 k t2 k x0 t1 k c1 k k t2 k")},
]


def model_line(fx, case):
    return (f"run {fx} {case['limit']} {case['lph']} {case.get('mask', 0)} {case.get('ka', 15)} {'.'.join(map(str, case['keys']))} "
            f"{' '.join(case['labels'])}")


# ------------------------------------------------------------------------------- which repairs does the tree have?
def detect_fixes():
    """the model has one switch per repaired deviation; look at four tiny scenarios to see which
    behaviour the tree under test has (so that the check keeps working once a fix is committed)"""
    def last(case):
        out, _ = run_case(case)
        return out[-1]
    f7 = "acq=1 " in last(SCRIPTED[0])
    f8 = ",w" not in last(SCRIPTED[1]).split("tasks=")[1].split(" ")[0]
    race = last(SCRIPTED[2]).split("tasks=")[1].split(" ")[0].split(",")[3] != "w"
    close = "host=0 " in last(SCRIPTED[3]) and ",Q," in last(SCRIPTED[3])
    trclose = "open=0 " in last(SCRIPTED[8])
    return "".join("1" if b else "0" for b in (f7, f8, race, close, trclose))


# ------------------------------------------------------------------------------- exhaustive small scope
def explore(ctx, fx, limit, lph, keys, perms, budget, max_states, mask=0, ka=None):
    """every reachable state (identified by its full projection + shuffle order) and every transition
    of the real connector for the given tasks; each transition is compared with the model and judged"""
    nk = max(keys) + 1
    base = {"limit": limit, "lph": lph, "mask": mask, "ka": ka or 15, "keys": keys}
    init_lab = "p" + ".".join(map(str, range(nk)))
    seen = {}
    frontier = [[init_lab]]
    edges = []          # (labels, projection)
    n_states = 0
    while frontier and n_states < max_states:
        nxt = []
        for path in frontier:
            p = Pool(limit, lph, keys, mask, ka or 15)
            try:
                for lab in path:
                    p.do(lab)
                en = [e for e in p.enabled() if e[0] != "m"]
                if ka and p.clock < 2 * ka:      # time may pass (bounded), in steps of 0.6 keep-alive periods
                    en.append("a" + str(max(1, (ka * 3) // 5)))
                cur_perm = p.shuf.perm
            finally:
                p.dispose()
            en += ["p" + ".".join(map(str, q)) for q in perms if list(q) != cur_perm]
            for lab in en:
                case = {**base, "labels": path + [lab]}
                p = Pool(limit, lph, keys, mask, ka or 15)
                j = Judge(limit, lph)
                try:
                    for i, l2 in enumerate(case["labels"]):
                        p.do(l2)
                        j(p, l2, i)
                    proj = p.project()
                    key = proj + f" clock={p.clock}" + " used=" + ",".join(str(t0) for q in p.conn._conns.values() for _, t0 in q) + " perm=" + ".".join(map(str, p.shuf.perm)) + " fl=" + ",".join(sorted(j.flags))
                finally:
                    p.dispose()
                edges.append((case, proj))
                ctx.case(("x", limit, lph, mask, tuple(keys), tuple(case["labels"])), nontrivial=True)
                if key not in seen:
                    seen[key] = True
                    n_states += 1
                    nxt.append(case["labels"])
                    if j.found:
                        report(ctx, case, j, budget)
        frontier = nxt
    outs = ctx.model(["last " + model_line(fx, c)[4:] for c, _ in edges])
    if outs is not None:
        for (c, proj), m in zip(edges, outs):
            ctx.compare(c, proj, m, "BaseConnector vs Aio.C07.step (exhaustive exploration)")
    return n_states, len(edges), not frontier


# ------------------------------------------------------------------------------- check
def check(ctx):
    rng = ctx.rng
    fx = detect_fixes()
    ctx.extra["fixes_detected(f7,f8,race,close,trclose)"] = fx
    ctx.hit("fixes:" + fx)
    budget = {c: (15 if ctx.quick else 60) for c in SIG}
    cases = []

    for c in SCRIPTED:
        out, j = run_case(c)
        cases.append((c, out, j, "scripted"))
    plan = [("guided", 800), ("saturate", 600), ("perhost", 600), ("reuse", 500), ("close", 400), ("traced", 1100),
            ("traced-close", 400)]
    plan.append(("keepalive", 700))
    hook_plan = [(h, 120) for h in "rqQse"]
    mult = 1 if ctx.quick else 12
    for prof, n in plan:
        for _ in range(n * mult):
            c, out, j = walk(rng, prof)
            cases.append((c, out, j, prof))
    for h, n in hook_plan:
        for _ in range(n * mult):
            c, out, j = walk(rng, "close-in-hook", hook=h)
            cases.append((c, out, j, "close-in-hook:" + h))
    for _ in range(500 * mult):
        c = noise(rng)
        out, j = run_case(c)
        cases.append((c, out, j, "noise"))

    outs = ctx.model([model_line(fx, c) for c, _, _, _ in cases])
    for i, (c, out, j, prof) in enumerate(cases):
        last = out[-1] if out else ""
        if "tasks=" not in last:
            last = next((o for o in reversed(out) if "tasks=" in o), "")
        nontriv = "tasks=" in last and any(ch in last.split("tasks=")[1] for ch in "wWVchdXTEQ")
        ctx.case((c["limit"], c["lph"], c.get("mask", 0), tuple(c["keys"]), tuple(c["labels"])), nontrivial=nontriv,
                 sample={"case": model_line(fx, c)[:160], "last": last} if i % 499 == 0 else None)
        ctx.hit("gen:" + prof)
        for lab in c["labels"]:
            ctx.hit("label:" + lab[0])
        for o in out:
            if "tasks=" not in o:
                continue
            for tok in o.split("tasks=")[1].split(" ")[0].split(","):
                if "~" in tok:
                    ctx.hit("trace-hook-suspended:" + tok.split("~")[1][0])
        for st in (last.split("tasks=")[1].split(" ")[0].split(",") if last else []):
            ctx.hit("end-state:" + st.rstrip("!0123456789"))
        for f in j.flags:
            ctx.hit("event:" + f)
        if j.found:
            report(ctx, c, j, budget)
        if outs is not None:
            ctx.compare(c, "|".join(out), outs[i], "BaseConnector vs Aio.C07.step (state projection after every label)")
    missing = [h for h in "rqQse" if not ctx.hits.get("event:close-while-suspended-in:" + h)]
    if missing:
        from .common.guard import MachineryError
        raise MachineryError(f"generator blind spot: close() was never generated while a task was suspended in trace hook(s) {missing}")

    check_sessions(ctx)

    if not ctx.quick:
        scopes = []
        for keys in ([0], [0, 0], [0, 1], [0, 0, 0], [0, 0, 1], [0, 1, 0]):
            for limit, lph in ((1, 0), (2, 0), (0, 1), (2, 1), (1, 1)):
                scopes.append((limit, lph, keys))
        complete = True
        tot_s = tot_e = 0
        scopes = [(a, b, c, 0) for a, b, c in scopes]
        # with suspending trace hooks (every hook; create_start only; queued_start+queued_end)
        scopes += [(1, 0, [0, 0], 31), (0, 1, [0, 0], 31), (1, 1, [0, 1], 31), (1, 0, [0, 0, 0], 8), (1, 0, [0, 0, 0], 6),
                   (1, 0, [0, 0, 0], 1)]
        scopes = [(a, b, c, d, None) for a, b, c, d in scopes]
        # with the keep-alive clock (time may pass twice the keep-alive timeout, the sweep may fire whenever armed)
        scopes += [(0, 0, [0, 0], 0, 10), (2, 0, [0, 0, 0], 0, 10), (0, 0, [0, 1, 0], 0, 5)]
        for limit, lph, keys, mask, ka in scopes:
            nk = max(keys) + 1
            perms = list(itertools.permutations(range(nk))) if nk > 1 else []
            ns, ne, done = explore(ctx, fx, limit, lph, keys, perms, budget, max_states=9000, mask=mask, ka=ka)
            tot_s += ns; tot_e += ne
            complete = complete and done
            ctx.hit("explore:" + ("complete" if done else "truncated"))
        ctx.extra["exhaustive_small_scope"] = (f"{len(scopes)} scopes (N<=3 tasks, H<=2, limits<=2): {tot_s} reachable states, "
                                               f"{tot_e} transitions, each compared with the model and judged; complete={complete}")
        ctx.exhaustive = complete


def check_sessions(ctx):
    """ClientSession-level scenarios (direct oracle only, see harness/common/c07_session.py)"""
    n = 0
    for sc in c07_session.all_scenarios():
        obs = c07_session.run_scenario(sc)
        n += 1
        ctx.case(("session", tuple(sorted(sc.items()))), nontrivial=obs.get("first") != "timeout",
                 sample={"session": sc, "obs": {k: v for k, v in obs.items() if k != "steps"}} if n % 271 == 0 else None)
        ctx.hit("session:first=" + str(obs.get("first")), "session:ending=" + sc["ending"], "session:body=" + sc["body"],
                "session:peer=" + sc["peer"] + ("+expect100" if sc["expect100"] else ""))
        for sig, detail in c07_session.judge(sc, obs):
            ctx.violation("C07/" + sig, {"kind": "session", **sc}, detail)
    # family 2: the connection goes back when the body has been received, whatever the headers / framing / consumer
    for sc in c07_session.consume_scenarios():
        obs = c07_session.run_consume(sc)
        n += 1
        ctx.case(("session", tuple(sorted(sc.items()))), nontrivial=True)
        ctx.hit("consume:headers=" + sc["resp_headers"], "consume:consumer=" + sc["consumer"],
                "consume:" + sc["framing"] + "/" + sc["timing"])
        for sig, detail in c07_session.judge_consume(sc, obs):
            ctx.violation("C07/" + sig, {"kind": "session", **sc}, detail)
    # family 3: limit_per_host is per endpoint, not per URL spelling
    for sc in c07_session.spelling_scenarios():
        obs = c07_session.run_spelling(sc)
        n += 1
        ctx.case(("session", sc["lph"], tuple(sc["names"])), nontrivial=True)
        ctx.hit("spelling:pairs" if len(sc["names"]) <= 4 else "spelling:all")
        for sig, detail in c07_session.judge_spelling(sc, obs):
            ctx.violation("C07/" + sig, {"kind": "session", **sc}, detail)
    # family 4: redirects, errors, timeouts, raise_for_status, several exchanges on one session
    for sc in c07_session.hop_scenarios():
        obs = c07_session.run_hops(sc)
        n += 1
        ctx.case(("session", sc["limit"], sc["lph"], sc["mode"], tuple(sc["hops"])), nontrivial=True)
        ctx.hit("hops:mode=" + sc["mode"], *["hops:" + h for h in sc["hops"]], *["hops:result=" + r for r in obs.get("results", [])])
        for sig, detail in c07_session.judge_hops(sc, obs):
            ctx.violation("C07/" + sig, {"kind": "session", **sc}, detail)
    ctx.extra["session_scenarios"] = n
    check_keys(ctx)


def check_keys(ctx):
    """correspondence for the endpoint part of ClientRequest.connection_key: the real keys of all URL spellings fall
    into the same classes as Aio.C07.endpointKey(raw_host, explicit_port, is_ssl) (yarl's parsing is trusted)"""
    from yarl import URL
    names = list(c07_session.SPELLINGS)
    extra = {"ipv4": "http://127.0.0.1/", "ipv4-port": "http://127.0.0.1:80/", "ipv6": "http://[::1]/", "ipv6-port": "http://[::1]:80/",
             "ws": "ws://h0/", "wss": "wss://h0/", "wss-port": "wss://h0:443/", "idna": "http://bücher.example/",
             "idna-punycode": "http://xn--bcher-kva.example:80/", "port-0443": "https://h0:0443/"}
    c07_session.SPELLINGS.update({k: (v, None) for k, v in extra.items()})
    try:
        names = list(c07_session.SPELLINGS)
        obs = c07_session.run_spelling({"family": "spelling", "lph": 100, "names": names})
    finally:
        for k in extra:
            c07_session.SPELLINGS.pop(k, None)
    real = obs.get("key_list", [])
    if len(real) != len(names):
        from .common.guard import MachineryError
        raise MachineryError(f"connection keys: {len(real)} keys recorded for {len(names)} requests")
    lines = []
    for nme in names:
        u = URL(dict(c07_session.SPELLINGS, **{k: (v, None) for k, v in extra.items()})[nme][0])
        host = u.raw_host or ""
        lines.append("key " + (".".join(str(ord(ch)) for ch in host) or "-") + " " +
                     ("-" if u.explicit_port is None else str(u.explicit_port)) + " " + ("1" if u.scheme in ("https", "wss") else "0"))
    outs = ctx.model(lines)
    if outs is None:
        return
    for i in range(len(names)):
        for k in range(i + 1, len(names)):
            ctx.compare({"kind": "keys", "a": names[i], "b": names[k]}, real[i] == real[k], outs[i] == outs[k],
                        "ClientRequest.connection_key equality vs Aio.C07.endpointKey equality")
            ctx.case(("keys", names[i], names[k]), nontrivial=True)


def replay(ctx, case):
    if case.get("kind") == "session":
        sc = {k: v for k, v in case.items() if k != "kind"}
        fam = sc.get("family")
        if fam == "consume":
            res = c07_session.judge_consume(sc, c07_session.run_consume(sc))
        elif fam == "spelling":
            res = c07_session.judge_spelling(sc, c07_session.run_spelling(sc))
        elif fam == "hops":
            res = c07_session.judge_hops(sc, c07_session.run_hops(sc))
        else:
            res = c07_session.judge(sc, c07_session.run_scenario(sc))
        for sig, detail in res:
            ctx.violation("C07/" + sig, case, detail)
        return
    _, j = run_case(case, want_proj=False)
    for clause, (idx, how, detail) in j.found.items():
        ctx.violation(signature(clause, how), case, detail + f" after label #{idx}")
