"""C06 — client connection reuse never mixes responses.

Implementation under test: the real ClientSession / BaseConnector / Connection / ResponseHandler /
ClientResponse / HttpResponseParser, driven in-process on the virtual-time loop with an in-memory
transport and a scripted peer (harness/common/c06_mem.py).
Model: lean/AioModel/C06.lean (one connection), C06World.lean (session), C06Http.lean (parser instance);
theorems: lean/AioProps/C06.lean.
"""
import json, os, random
from .common import c06_mem as M
from .common.codec import hx, unhx
from .common.httpgen import generate as _gen_http

PROPERTY = "C06"
LEAN_MODULES = ["AioProps.C06"]
THEOREMS = []          # filled in below (kept next to the Lean file's list)
RULE = ("histories: adaptive random walks on the real ClientSession (2-6 GET/HEAD requests on 1-3 connection keys) against a "
        "scripted peer; per request one of 13 peer behaviours (Content-Length, chunked, complete surplus response, partial "
        "surplus, truncated body + close, body until close, Connection: close, 100-continue, 204/304, HTTP/1.0, garbage, "
        "101 upgrade, silence), unsolicited complete/partial responses on idle connections, bytes before the first request, "
        "peer close/reset at any point; delivery cut whole / at head end / at body end / random / single byte, so surplus "
        "and unsolicited bytes fall before release, between release and re-acquisition, and after; caller ops read / "
        "release / close / cancel; virtual time steps across the keep-alive and total timeouts; connector force_close. "
        "Closing window: ops F (the transport starts closing: peer FIN read) and H (the transport holds connection_lost "
        "back after transport.close()) separate 'transport closing' from 'connection_lost delivered' (op X); drawn in "
        "the walks and scripted for FIN-while-idle, garbage-while-idle, FIN/garbage while a request waits, each followed "
        "by a same-key request before X; every connector.connect() result is logged with the closing state of its transport. "
        "Framing class (every run): final statuses 200/201/205/206/300/404/500 with Content-Length or chunked content, head "
        "and body in one read or the body in a later read (before or after the caller's read()), then a same-key "
        "request; the walks draw such statuses for 30 % of the plain answers; oracle: a complete read must return "
        "the whole framed body unless the status is 1xx/204/304 or the request was HEAD. Protocol switches: 101 with "
        "the Upgrade token spelt websocket/WebSocket/Websocket/WEBSOCKET/tcp/TCP. Keep-alive sweep class (every run): "
        "2-3 different keys (host, port, proxy, scheme) with idle connections released at staggered times so that the "
        "connector's cleanup timer fires while several are alive, then one request per key in both orders. "
        "Spellings: Connection as case-insensitive comma list / repeated field / without space (close, Close, CLOSE, "
        "'keep-alive, close', 'foo,close'), HTTP/1.0 Keep-Alive spellings, Transfer-Encoding Chunked/CHUNKED. Deterministic "
        "lifecycle class (every run): each not-reused clause once (announced close, HTTP/1.0, body until close, released "
        "unread, closed by caller, read/request cancelled, truncated, reset, lost while waiting, parse failure, "
        "204/304/100+final reused), each followed by a same-key request. sock_read class (oracle + expectations, no "
        "model): silence, stalled body, interim then silence => socktimeout and a new connection; idle time in the pool "
        "and re-armed reads => no timeout, same connection. "
        "Interim responses: 100/102/103, one to three in a row, in the same read as the final response or in earlier reads "
        "with other ops in between. "
        "Connection-key classes: (a) random walks over 3 keys that vary host, port incl. explicit default, scheme, ssl= "
        "(True/False/two fingerprints), proxy address, proxy settings (header value, header name, URL user, URL password, "
        "second header) and server_hostname; (b) every run, exhaustively: for 6 base keys every single-component change "
        "(and no change), both orders, URL spelling variants: request 1 answered and pooled, request 2 (and 1 again) - the "
        "all four schemes http/https/ws/wss on one explicit port (only TLS-or-not may separate connections), the second "
        "request also as ws_connect (judged by the connection its handshake is written on) - the "
        "REAL ClientRequest.connection_key of every request pair in every history is compared with the keyspec the model "
        "uses (equal real keys for differing specs = violation), and the connection each request is written on is "
        "compared with the model and judged by the oracle. The recorded op list is replayed on the Lean model and the observable state after every op is "
        "compared (exchange phase, connection held, connections written to, status + marker, body/error kind; per "
        "connection: connected, reusable-from-pool, holder). non-trivial = at least one response head delivered or one "
        "connection closed; distinct by op list.")
TRUSTED_BASE = [
    "the HTTP/1 parser is the shared model lean/AioModel/Http.lean (validated by C03's run); C06's theorems treat it as an arbitrary function",
    "in-memory transport: delivers data_received/connection_lost synchronously, close() reports connection_lost on the next loop iteration; no flow control, no TLS",
    "every harness op is followed by running the loop to quiescence, so ops are atomic; interleavings inside one op follow asyncio's FIFO order on the real side and are transcribed by hand on the model side",
    "time.monotonic in aiohttp.connector is replaced by the virtual clock; the keep-alive cleanup timer is observed only through 'reusable' (connected, pooled, young enough)",
    "ghost tags: the model stamps a parser's output with the tags of all chunks that parser instance consumed; the direct oracle attributes delivered responses to peer units by their X-U marker and body tokens",
]
ASSUMPTIONS = [
    "responses carry no Content-Encoding and bodies stay far below the read buffer limit (decompression and back-pressure pauses are C09/C08)",
    "redirects are not followed (allow_redirects=False); request bodies only in the oracle-only Expect: 100-continue class (POST, 10-byte body as bytes / async generator / unseekable stream - the latter two of unknown size, sent chunked; early final response without 100, 100 then final, 103+100+final, final with Connection: close; each in one read and unit by unit; then a same-key request): the transport notes when a request head follows a request whose announced body was not written - the Lean model has no request bodies; websocket payload parser not modelled (an upgraded connection only has to be never reused)",
]

THEOREMS = [
    "Aio.C06.release_dirty_closes",
    "Aio.C06.closed_never_acquired",
    "Aio.C06.closing_never_acquired",
    "Aio.C06.emptyBody_rfc9112",
    "Aio.C06.upgrade_token_case_insensitive",
    "Aio.C06.tryAcquire_same_key",
    "Aio.C06.getLoop_same_key",
    "Aio.C06.acquired_clean_fixed",
    "Aio.C06.own_bytes_conn",
    "Aio.C06.own_bytes_conn_partial",
    "Aio.C06.cex_unsolicited_while_idle",
    "Aio.C06.cex_surplus_same_read",
    "Aio.C06.cex_bytes_before_first_request",
    "Aio.C06.cex_partial_surplus_reused",
    "Aio.C06.fixed_blocks_cex",
]


def generate(repo):
    return _gen_http(repo)


# ------------------------------------------------------------------------------ keys
PROXIES = [None, "p1:3128", "p2:3128"]
# proxy settings beyond the proxy address (field 6 of the keyspec, only with a proxy):
#   kind "hdr": proxy_headers=…;  kind "cred": credentials in the proxy URL (become Proxy-Authorization)
PCONF = [None,
         ("hdr", {"X-P": "1"}), ("hdr", {"X-P": "2"}),            # same name, other value
         ("hdr", {"X-Q": "1"}),                                   # other name
         ("cred", "alice:pw"), ("cred", "bob:pw"), ("cred", "alice:other"),   # other user / other password
         ("hdr", {"X-P": "1", "X-Q": "1"}), ("hdr", {"X-P": "1", "X-Q": "2"})]
SNIS = [None, "sni1", "sni2"]
_FP = {}


def _fingerprint(which="a"):
    if which not in _FP:
        import aiohttp
        _FP[which] = aiohttp.Fingerprint((b"\x01" if which == "a" else b"\x02") * 32)
    return _FP[which]


SCHEMES = ["http", "https", "ws", "wss"]      # field 3 of the keyspec; bit 0 = TLS (what the connection key is about)


def canon(spec):
    """the keyspec as the connection key sees it: of the scheme only TLS-or-not matters"""
    f = spec.split(".")
    f[2] = str(int(f[2]) & 1)
    return ".".join(f)


def keyparams(spec, j, variant=0):
    """keyspec 'host.port.isSsl.ssl.proxy.proxyConf.sni' -> (url, kwargs) of session.get"""
    host, port, sch, ssl_, proxy, pconf, sni = [int(x) for x in spec.split(".")]
    scheme = SCHEMES[sch]
    default = 443 if sch & 1 else 80
    name = f"h{host}"
    if variant & 1:
        name = name.upper()
    hostport = name if (port == default and not (variant & 2)) else f"{name}:{port}"
    url = f"{scheme}://{hostport}/{j}"
    kw = {}
    if ssl_ == 1:
        kw["ssl"] = False
    elif ssl_ == 2:
        kw["ssl"] = _fingerprint("a")
    elif ssl_ == 3:
        kw["ssl"] = _fingerprint("b")
    if proxy:
        conf = PCONF[pconf] if pconf else None
        cred = conf[1] + "@" if conf and conf[0] == "cred" else ""
        kw["proxy"] = f"http://{cred}{PROXIES[proxy]}"
        if conf and conf[0] == "hdr":
            kw["proxy_headers"] = dict(conf[1])
    if sni:
        kw["server_hostname"] = SNIS[sni]
    if variant & 4:
        kw["_ws"] = True
    if variant & 8:
        kw["_post"] = 10
        kw["_body"] = "agen" if variant & 16 else "stream" if variant & 32 else "bytes"
    return url, kw


# ------------------------------------------------------------------------------ peer units
CONN_CLOSE = [b"Connection: close", b"Connection: Close", b"connection: CLOSE", b"Connection: keep-alive, close",
              b"Connection: foo,close", b"Connection:close", b"Connection: close , bar", b"Connection: foo\r\nConnection: close"]
CONN_KA = [b"Connection: keep-alive", b"Connection: Keep-Alive", b"connection: KEEP-ALIVE", b"Connection: foo, keep-alive"]


def bk(kind):
    """base kind: 'cl:205' (Content-Length framed response with status 205) -> 'cl'; '101:WebSocket' -> '101'"""
    return kind.split(":")[0]


def unit(u, kind, n):
    """-> (bytes, head_len, final?, kind)"""
    body = (b"%d;" % u) * (n // len(b"%d;" % u) + 1)
    body = body[:n]
    xu = b"X-U: %d\r\n" % u
    kind, _, arg = kind.partition(":")
    arg, _, te = arg.partition("~")          # chunked:<status>~<spelling of the transfer coding>
    sl = b"HTTP/1.1 %s Status\r\n" % arg.encode() if (arg and kind in ("cl", "chunked")) else b"HTTP/1.1 200 OK\r\n"
    if kind == "cl":
        head = sl + xu + b"Content-Length: %d\r\n\r\n" % n
        return head + body, len(head), True
    if kind == "chunked":
        head = sl + xu + b"Transfer-Encoding: " + (te or "chunked").encode() + b"\r\n\r\n"
        k = n // 2
        parts = [body[:k], body[k:]]
        enc = b"".join(b"%x\r\n%s\r\n" % (len(p), p) for p in parts if p) + b"0\r\n\r\n"
        return head + enc, len(head), True
    if kind == "close":
        # Connection is a case-insensitive, comma-separated list (RFC 9110 7.6.1)
        line = CONN_CLOSE[int(arg)] if arg else b"Connection: close"
        head = b"HTTP/1.1 200 OK\r\n" + xu + line + b"\r\nContent-Length: %d\r\n\r\n" % n
        return head + body, len(head), True
    if kind == "eofbody":
        head = b"HTTP/1.1 200 OK\r\n" + xu + b"\r\n"
        return head + body, len(head), True
    if kind == "100":
        head = b"HTTP/1.1 100 Continue\r\n\r\n"
        return head, len(head), False
    if kind == "102":
        head = b"HTTP/1.1 102 Processing\r\n" + xu + b"\r\n"
        return head, len(head), False
    if kind == "103":
        head = b"HTTP/1.1 103 Early Hints\r\n" + xu + b"Link: </s.css>; rel=preload\r\n\r\n"
        return head, len(head), False
    if kind == "204":
        head = b"HTTP/1.1 204 No Content\r\n" + xu + b"\r\n"
        return head, len(head), True
    if kind == "304":
        head = b"HTTP/1.1 304 Not Modified\r\n" + xu + b"Content-Length: 5\r\n\r\n"
        return head, len(head), True
    if kind == "http10":
        head = b"HTTP/1.0 200 OK\r\n" + xu + b"Content-Length: %d\r\n\r\n" % n
        return head + body, len(head), True
    if kind == "http10ka":
        line = CONN_KA[int(arg)] if arg else b"Connection: keep-alive"
        head = b"HTTP/1.0 200 OK\r\n" + xu + line + b"\r\nContent-Length: %d\r\n\r\n" % n
        return head + body, len(head), True
    if kind == "101":
        # protocol names are case-insensitive (RFC 9110 7.8): IIS answers `Upgrade: WebSocket`
        head = (b"HTTP/1.1 101 Switching Protocols\r\n" + xu + b"Connection: upgrade\r\nUpgrade: "
                + (arg or "websocket").encode() + b"\r\n\r\n")
        return head + body, len(head), True
    if kind == "headonly":   # answer to HEAD: announces a body that is not sent
        head = b"HTTP/1.1 200 OK\r\n" + xu + b"Content-Length: %d\r\n\r\n" % n
        return head, len(head), True
    if kind == "garbage":
        head = b"HTP/1.1 200 OK\r\n" + xu + b"\r\n"
        return head, len(head), True
    raise ValueError(kind)


class Peer:
    """scripted peer: decides what to send, records what it sent (for the oracle)"""

    def __init__(self, rng):
        self.rng = rng
        self.pending = {}     # c -> bytearray not yet delivered
        self.units = {}       # c -> list of dict(u, start, head, end, kind, final)
        self.sent = {}        # c -> bytes appended so far
        self.answered = {}    # c -> number of requests answered
        self.close_after = set()
        self.next_u = 100

    def add(self, c, kind, n, truncate=None, partial=None):
        b, head_len, final = unit(self.next_u, kind, n)
        full_len = len(b)
        if truncate is not None:
            b = b[:max(head_len, len(b) - truncate)]
        if partial is not None:
            b = b[:partial]
        start = self.sent.get(c, 0)
        self.units.setdefault(c, []).append({"u": self.next_u, "start": start, "head": min(head_len, len(b)),
                                              "end": start + len(b), "kind": kind, "final": final,
                                              "open": kind == "eofbody" or truncate is not None,
                                              "partial": partial is not None,
                                              "decl_end": (start + full_len) if truncate is not None else None})
        self.pending.setdefault(c, bytearray()).extend(b)
        self.sent[c] = start + len(b)
        self.next_u += 1
        return len(b)

    def respond(self, c, skip):
        rng = self.rng
        n = rng.choice([0, 1, 3, 7, 12, 30])
        r = rng.random()
        main = "headonly" if (skip and rng.random() < 0.8) else "cl"
        if main == "cl" and rng.random() < 0.3:
            # other final statuses with a framed body (2xx/3xx/4xx/5xx incl. 205, 206, 300): only 1xx/204/304 end at the empty line
            main = rng.choice(["cl:205", "cl:205", "cl:201", "cl:206", "cl:300", "cl:404", "cl:500", "chunked:205", "chunked:404"])
            n = max(n, 3)
        if r < 0.42:
            self.add(c, main, n)
        elif r < 0.50:
            self.add(c, "chunked" if rng.random() < 0.6 else "chunked:200~" + rng.choice(["Chunked", "CHUNKED", "gzip, chunked"][:2]), n)
        elif r < 0.60:
            self.add(c, main, max(n, 3)); self.add(c, "cl", rng.choice([0, 4]))            # complete surplus response
        elif r < 0.66:
            self.add(c, main, n)
            self.add(c, "cl", 4, partial=rng.choice([1, 5, 17, 20, 30]))                    # partial surplus
        elif r < 0.71:
            self.add(c, "cl", max(n, 3), truncate=rng.randint(1, 3)); self.close_after.add(c)
        elif r < 0.76:
            self.add(c, "eofbody", n); self.close_after.add(c)
        elif r < 0.81:
            self.add(c, "close" if rng.random() < 0.5 else "close:%d" % rng.randrange(len(CONN_CLOSE)), n)
        elif r < 0.89:
            # interim responses (100 / 102 / 103, one or several) before the final one; the delivery cut
            # decides whether they arrive with the final response or in separate reads
            for _ in range(rng.choice([1, 1, 1, 2, 3])):
                self.add(c, rng.choice(["100", "102", "103", "103"]), 0)
            self.add(c, main, n)
        elif r < 0.92:
            self.add(c, rng.choice(["204", "304"]), 0)
        elif r < 0.95:
            self.add(c, rng.choice(["http10", "http10ka", "http10ka:1", "http10ka:2", "http10ka:3"]), n)
        elif r < 0.97:
            self.add(c, "garbage", 0)
        elif r < 0.985:
            self.add(c, rng.choice(["101", "101:WebSocket", "101:Websocket", "101:TCP", "101:tcp"]), rng.choice([0, 4]))
        else:
            pass  # silence

    def cut(self, c):
        """how many pending bytes to deliver next"""
        rng = self.rng
        p = self.pending[c]
        delivered = self.sent[c] - len(p)
        r = rng.random()
        bounds = []
        for un in self.units.get(c, []):
            for b in (un["start"] + un["head"], un["end"]):
                if delivered < b <= delivered + len(p):
                    bounds.append(b - delivered)
        if r < 0.35 or len(p) == 1:
            return len(p)
        if r < 0.65 and bounds:
            return rng.choice(bounds)
        if r < 0.75:
            return 1
        return rng.randint(1, len(p))


def gen_walk(rng, cfg, keyset, max_req, max_ops=48):
    """returns next_op(R) closure for M.run_scenario plus the Peer (records units)"""
    peer = Peer(rng)
    st = {"nreq": 0, "ops": 0, "idle_rounds": 0}

    def next_op(R):
        st["ops"] += 1
        if st["ops"] > max_ops:
            return None
        conn = R.conn
        cands = []
        trs = conn.transports
        # peer: answer requests it has seen
        for tr in trs:
            c = tr.idx
            if len(tr.reqs) > peer.answered.get(c, 0) and not tr.closed:
                peer.answered[c] = len(tr.reqs)
                peer.respond(c, R.meta[tr.reqs[-1]]["skip"])
        live = [tr.idx for tr in trs if not tr.closing and not tr.closed]
        for tr in trs:
            if tr.closing and not tr.closed:      # closing, connection_lost still to be delivered
                cands += [("X", tr.idx, rng.random() < 0.3)] * 3
        for c in live:
            if rng.random() < 0.06:
                cands += [("F", c)] * 2
            if rng.random() < 0.03 and not trs[c].hold:
                cands += [("H", c)] * 2
        for c in live:
            if peer.pending.get(c):
                cands += [("deliver", c)] * 6
            elif c in peer.close_after:
                cands += [("pclose", c)] * 4
            else:
                cands += [("unsolicited", c)] * (2 if R.holder(c) is None else 1)
                cands += [("pclose", c)]
        for j in range(len(R.tasks)):
            s, _ = R.render_exch(j)
            ph = s.split(",")[0]
            if ph == "head":
                cands += [("D", j)] * 6 + [("L", j), ("C", j)]
            elif ph == "reading":
                cands += [("K", j), ("C", j)]
            elif ph == "wait":
                cands += [("K", j)]
        if st["nreq"] < max_req:
            cands += [("Q",)] * 5
        cands += [("A", 1), ("A", 1)]
        if rng.random() < (0.15 if len(keyset) > 1 else 0.04):
            cands += [("A", cfg["keepalive"]), ("A", cfg["keepalive"] + 1), ("A", cfg["keepalive"] // 2), ("A", cfg["keepalive"] // 2)]
            if cfg["total"]:
                cands += [("A", cfg["total"] - 1), ("A", cfg["total"])]
        only_time = all(x[0] in ("A", "unsolicited", "pclose") for x in cands)
        if only_time:
            st["idle_rounds"] += 1
            if st["idle_rounds"] > 2 and rng.random() < 0.6:
                return None
        ch = rng.choice(cands)
        if ch[0] == "deliver":
            c = ch[1]
            n = peer.cut(c)
            data = bytes(peer.pending[c][:n]); del peer.pending[c][:n]
            return ("R", c, data)
        if ch[0] == "pclose":
            peer.close_after.discard(ch[1])
            return ("X", ch[1], rng.random() < 0.3)
        if ch[0] == "unsolicited":
            c = ch[1]
            if rng.random() < 0.6:
                peer.add(c, rng.choice(["cl", "cl", "close", "101", "101:WebSocket", "garbage"]), rng.choice([0, 4, 9]))
            else:
                peer.add(c, "cl", 4, partial=rng.choice([1, 5, 17, 25]))
            n = peer.cut(c)
            data = bytes(peer.pending[c][:n]); del peer.pending[c][:n]
            return ("R", c, data)
        if ch[0] == "Q":
            st["nreq"] += 1
            spec = rng.choice(keyset) if rng.random() < 0.25 else keyset[0]
            early = b""
            if rng.random() < 0.05:
                c = len(trs)
                b, hl, _ = unit(peer.next_u, "cl", 4)
                if rng.random() < 0.4:
                    b = b[:rng.choice([3, 17, 25])]
                early = b
                st["early"] = (peer.next_u, b, hl)
                peer.next_u += 1
            return ("Q", spec, rng.random() < 0.15, early)
        return ch

    return next_op, peer, st


# ------------------------------------------------------------------------------ oracle
def _units_by_conn(R, peer_units, early_units):
    """conn -> list of units with absolute stream offsets (early bytes come first on their conn)"""
    return peer_units


def _dechunk(b):
    out, i = b"", 0
    while True:
        j = b.find(b"\r\n", i)
        if j < 0:
            return out
        try:
            n = int(b[i:j], 16)
        except ValueError:
            return out
        if n == 0:
            return out
        out += b[j + 2:j + 2 + n]
        i = j + 2 + n + 2


def unit_complete(stream, un):
    """the bytes of this unit that were delivered form a complete message (head + announced body)"""
    import re as _re
    b = stream[un["start"]:un["end"]]
    h = b.find(b"\r\n\r\n")
    if h < 0:
        return False
    m = _re.search(rb"\r\nContent-Length: (\d+)\r\n", b[:h + 2])
    if bk(un["kind"]) in ("cl", "close", "http10", "http10ka"):
        return m is not None and len(b) - (h + 4) >= int(m.group(1))
    if bk(un["kind"]) == "chunked":
        return b.endswith(b"0\r\n\r\n")
    return True


def oracle(ctx, R, units, case):
    """The property on the real run alone.
    units: {conn: [ {u,start,head,end,kind,final}, … ]} in stream order of that connection."""
    # stream bookkeeping: per conn list of (start, end, holder, opidx)
    chunks, off, stream = {}, {}, {}
    written = {}          # conn -> list of (opidx, j)
    first_fail = {}       # j -> opidx of first state in which it is failed
    held_before = {}      # j -> connection the exchange held in the state before it failed
    prev_ex = []
    for i, s in enumerate(R.states):
        ex = s[2:s.index("] C[")].split(";") if s.startswith("E[") and "] C[" in s else []
        for j, e in enumerate(ex):
            if e.startswith("failed") and j not in first_fail:
                first_fail[j] = (i, e.rsplit("err:", 1)[-1])
                pc = prev_ex[j].split(",")[1] if j < len(prev_ex) and prev_ex[j] else "-"
                held_before[j] = None if pc == "-" else int(pc)
        prev_ex = ex
    def phase_before(opi, j):
        """phase of exchange j in the state before op `opi` ran"""
        if opi <= 0 or opi - 1 >= len(R.states):
            return None
        st = R.states[opi - 1]
        ex = st[2:st.index("] C[")].split(";") if "] C[" in st else []
        return ex[j].split(",")[0] if j < len(ex) and ex[j] else None

    dirty = {}            # conn -> (reason)
    viol = []
    req_off = {}          # (c, j) -> stream offset when request j was written on c
    legit_end = {}        # c -> end offset of the response to the current holder (None = open ended)
    legit_unit = {}       # c -> the unit that is the response to the current holder
    shifted = set()       # connections that received bytes while nobody held them
    shift_off = {}        # … and the stream offset of the first such byte

    def u_at(c, pos):
        for un in units.get(c, []):
            if un["start"] <= pos < un["end"]:
                return un
        return None

    def set_legit(c, j):
        o = off.get(c, 0)
        req_off[(c, j)] = o
        le = None
        found = False
        for un in units.get(c, []):
            if un["start"] >= o and un["final"]:
                le = None if un.get("open") else un["end"]
                found = True
                legit_unit[c] = un
                break
        legit_end[c] = (le if found else "none-yet")

    # failures become visible in the state after op i; a later write on the same conn is a reuse after failure
    fail_marks = {}
    for j, (i, kind) in first_fail.items():
        fail_marks.setdefault(i, []).append((j, kind))
    used_so_far = {}
    ev_by_op = {}
    for ev in R.events:
        pass
    for ev in R.events:
        k = ev[0]
        if k == "write":
            _, c, j, opi = ev
            # failures observed strictly before this op taint the connections those exchanges used
            for i in sorted(fail_marks):
                if i < opi:
                    for (fj, kind) in fail_marks.pop(i):
                        # the connection the exchange still held when it failed (none if it had released it before)
                        fc = held_before.get(fj)
                        if fc is None and kind != "connclosed" and used_so_far.get(fj) and R.ops[i][0] == "Q":
                            fc = None
                        if fc is not None:
                            dirty.setdefault(fc, "after-" + kind.replace("E_OTHER", "error"))
            prev = written.setdefault(c, [])
            if prev:
                creator = prev[0][1]
                if canon(R.meta[creator]["key"]) != canon(R.meta[j]["key"]):
                    viol.append(("C06/wrong-key-reuse", f"request {j} ({R.meta[j]['key']}) written on connection {c} opened for {R.meta[creator]['key']}"))
                # surplus of the previous exchange that is still undelivered does not count; only what arrived
                if c in dirty:
                    viol.append((f"C06/dirty-reuse/{dirty[c]}", f"request {j} written on connection {c} although: {dirty[c]}"))
            prev.append((opi, j))
            used_so_far.setdefault(j, []).append(c)
            set_legit(c, j)
        elif k == "recv":
            _, c, data, holder, opi = ev
            s = off.get(c, 0)
            e = s + len(data)
            chunks.setdefault(c, []).append((s, e, holder, opi))
            off[c] = e
            stream[c] = stream.get(c, b"") + data
            if holder is None:
                shifted.add(c)      # from here on the peer's units and the client's exchanges are out of step
                shift_off.setdefault(c, s)
                if written.get(c):
                    # narrow the known "bytes while idle" shape: bytes that belong to the response the last holder
                    # was actually given (the rest of its framed body, or the final response behind an interim one
                    # it was completed with) are NOT unsolicited - the connection was released before its response ended
                    li = written[c][-1][1]
                    lu = legit_unit.get(c)
                    r = R.resps[li] if li < len(R.resps) else None
                    xu = r.headers.get("X-U") if r is not None else None
                    own = False
                    if (lu is not None and r is not None and lu["start"] <= s < lu["end"] and not R.meta[li]["skip"]
                            and not (r.status in (204, 304) and xu == str(lu["u"]))):   # (HEAD/204/304 end at the empty line)
                        if xu == str(lu["u"]):
                            own = True
                        else:
                            o = req_off.get((c, li), 0)
                            own = any(un["start"] >= o and un["end"] <= lu["start"] and not un["final"] and xu == str(un["u"])
                                      for un in units.get(c, []))
                    dirty.setdefault(c, "own-response-bytes-arrive-after-release" if own else "bytes-while-idle")
            else:
                le = legit_end.get(c)
                if le == "none-yet":
                    set_legit(c, holder) if False else None
                    # the response unit may have been planned after the request was written
                    o = req_off.get((c, holder), 0)
                    for un in units.get(c, []):
                        if un["start"] >= o and un["final"]:
                            le = None if un.get("open") else un["end"]
                            legit_end[c] = le
                            legit_unit[c] = un
                            break
                if le not in (None, "none-yet") and e > le:
                    # a COMPLETE further message that has fully arrived before the holder's response was even
                    # started sits in the protocol's queue when the connection is released: a different
                    # (stronger) defect than bytes the protocol cannot see yet
                    lu = legit_unit.get(c)
                    complete = (lu is not None and unit_complete(stream[c], lu) and  # (else the stream is garbled: one message to the client)
                                c not in shifted and not (lu["kind"] == "headonly" and not R.meta[holder]["skip"]) and
                                any(un["start"] >= le and un["end"] <= e and un["final"] and un["kind"] != "garbage"
                                    and unit_complete(stream[c], un) for un in units.get(c, [])))
                    if complete and phase_before(opi, holder) == "wait":
                        dirty.setdefault(c, "complete-surplus-message-queued-before-response-started")
                    else:
                        dirty.setdefault(c, "surplus-bytes")
            if holder is not None:
                o = req_off.get((c, holder), 0)
                for un in units.get(c, []):
                    if un["start"] >= o and un["final"]:
                        # the answer itself says the connection ends with it
                        r = R.resps[holder] if holder < len(R.resps) else None
                        if (bk(un["kind"]) in ("close", "http10", "eofbody") and un["start"] + un["head"] <= e
                                and r is not None and r.headers.get("X-U") == str(un["u"])):
                            dirty.setdefault(c, "peer-announced-close")
                        break
            for un in units.get(c, []):
                if bk(un["kind"]) == "101" and un["start"] + un["head"] <= e and un["start"] >= req_off.get((c, holder), 1 << 60):
                    dirty.setdefault(c, "upgraded")
        elif k == "acquire":
            _, c, j, opi, closing = ev
            if closing:
                viol.append(("C06/dirty-reuse/handed-out-while-transport-closing",
                             f"the connector handed connection {c} to request {j} although its transport was already closing "
                             f"({dirty.get(c, 'closed')}; connection_lost not delivered yet)"))
        elif k == "shortbody":
            _, c, pj, seen, expected, j, opi = ev
            viol.append(("C06/dirty-reuse/request-body-" + ("never-sent" if seen == 0 else "cut-short"),
                         f"request {j} written on connection {c} although only {seen} of the "
                         + (f"{expected} body bytes" if expected >= 0 else "chunked body (no last-chunk)")
                         + f" announced by request {pj} were sent on it"))
        elif k == "peerclose":
            dirty.setdefault(ev[1], "peer-closed")
        elif k in ("cancel", "close"):
            _, j, c, opi = ev
            if c is not None:
                dirty.setdefault(c, "after-" + k)
        elif k == "release":
            _, j, c, opi = ev
            if c is not None:
                le = legit_end.get(c)
                if le is None or le == "none-yet" or off.get(c, 0) < le:
                    dirty.setdefault(c, "unread-body")

    # ---- response_from_own_bytes
    def tags(c, a, b):
        return {h for (s, e, h, _) in chunks.get(c, []) if s < b and a < e}

    by_u = {}
    for c, us in units.items():
        for un in us:
            by_u[un["u"]] = (c, un)
    for j in range(len(R.tasks)):
        r = R.resps[j]
        if r is None:
            continue
        xu = r.headers.get("X-U")
        import re as _re
        us = [int(m.group(1)) for part in (xu or "").split(",") for m in [_re.match(r"\s*(\d+)", part)] if m]
        us = [int(x) for x in us if int(x) in by_u]
        if not us:
            viol.append(("C06/stale-bytes/unattributable-response", f"response {j} (status {r.status}) carries no known unit marker: {xu!r}"))
            continue
        # a head assembled from several peer units (a partial unit followed by another): every one of them counts
        bad = []
        for u in us:
            c, un = by_u[u]
            bad += [t for t in tags(c, un["start"], un["start"] + un["head"]) if t != j]
        u = us[-1]
        c, un = by_u[u]
        rt = R.rtasks[j]
        body_tags = set()
        if rt is not None and rt.done() and not rt.cancelled() and rt.exception() is None:
            body = rt.result()
            toks = set(body.split(b";")[:-1]) if body else set()
            if un.get("open"):
                # body delimited by connection close: everything the peer sent until then is this body
                if body:
                    lim = un["decl_end"] if un.get("decl_end") else off.get(c, 0) + 1
                    bad += [t for t in tags(c, un["start"] + un["head"], lim) if t != j]
            else:
                exp = (b"%d;" % u) * (len(body) // len(b"%d;" % u) + 1)
                if body and body != exp[:len(body)] and not bad and bk(un["kind"]) in ("cl", "chunked", "close", "http10", "http10ka"):
                    # (a head that is itself foreign is reported as such; a HEAD-style unit consumed by a GET is the peer's lie)
                    viol.append(("C06/stale-bytes/mixed-body", f"response {j} body (unit {u}) holds foreign bytes: {body[:40]!r}"))
                if un["end"] > un["start"] + un["head"] and body:
                    body_tags = tags(c, un["start"] + un["head"], un["end"])
                    bad += [t for t in body_tags if t != j]
                # the response ends where its framing says (RFC 9112 6.3: only 1xx/204/304 and answers to HEAD end at the
                # empty line): a complete read that returns less leaves the rest on the connection as "another response"
                full = un["end"] - un["start"] - un["head"]
                if (bk(un["kind"]) in ("cl", "chunked", "close", "http10", "http10ka") and len(us) == 1 and not bad
                        and not R.meta[j]["skip"] and not (100 <= r.status < 200 or r.status in (204, 304))
                        and shift_off.get(c, 1 << 60) >= un["start"] + un["head"] and unit_complete(stream.get(c, b""), un)):
                    want = (b"%d;" % u) * (full // len(b"%d;" % u) + 1)
                    if bk(un["kind"]) != "chunked" and len(body) < full or bk(un["kind"]) == "chunked" and len(body) < len(_dechunk(stream[c][un["start"] + un["head"]:un["end"]])):
                        viol.append(("C06/framing/response-body-ends-before-its-announced-end",
                                     f"response {j} (status {r.status}, unit {u}) was completed with {len(body)} body bytes although its framing announces more; the rest stays on connection {c}"))
        if bad:
            t = bad[0]
            if t is None:
                before = [w for w in written.get(c, []) if True]
                first_write = min((opi for (opi, _) in written.get(c, [])), default=1 << 60)
                arrived = min((opi for (s, e, h, opi) in chunks.get(c, []) if s < un["end"] and un["start"] < e), default=0)
                sig = ("C06/stale-bytes/bytes-before-first-request" if arrived < first_write or (arrived == first_write and un["start"] == 0 and R.ops[arrived][0] == "Q")
                       else "C06/stale-bytes/unsolicited-response-while-idle")
            else:
                # when did the last byte of the stale unit arrive, and had exchange t been given its head by then?
                arr = max((opi for (s_, e_, h, opi) in chunks.get(c, []) if s_ < un["end"] and un["start"] < e_), default=0)
                if phase_before(arr, t) == "wait" and unit_complete(stream.get(c, b""), un) and c not in shifted:
                    sig = "C06/stale-bytes/surplus-message-queued-before-response-started"
                else:
                    sig = "C06/stale-bytes/surplus-after-body-end-in-same-read"
            viol.append((sig, f"response {j} is unit {u} of connection {c} whose bytes arrived while holder={t}"))
    # ---- a failure that predates the request: a request that fails in the very op in which it was issued, on a
    #      connection that had served another request before, was handed a connection that had already failed
    qops = [i for i, o in enumerate(R.ops) if o[0] == "Q"]
    for j, (i, kind) in first_fail.items():
        if j < len(qops) and i == qops[j] and kind not in ("cancelled",):
            for c in used_so_far.get(j, []):
                if len([w for w in written.get(c, []) if w[1] != j]) > 0 and min(w[0] for w in written[c]) < i:
                    viol.append(("C06/stale-failure/request-fails-at-once-on-reused-connection",
                                 f"request {j} failed with {kind} in the step in which it was issued, on connection {c} that had served a request before"))
                    break
    # ---- only final responses are responses: an interim 1xx (other than 101) must never be handed out
    for j in range(len(R.tasks)):
        r = R.resps[j]
        if r is not None and 100 <= r.status < 200 and r.status != 101:
            viol.append(("C06/not-final/interim-1xx-handed-out-as-response",
                         f"request {j} was completed with the interim response {r.status}; its final response is still outstanding on the connection"))
    # ---- connection key: the REAL ClientRequest.connection_key of two requests may be equal only if they agree
    #      on host, port, scheme, TLS settings, proxy address, proxy settings and server name
    names = ["host", "port", "scheme", "tls-settings", "proxy-address", "proxy-settings", "server-hostname"]
    js = sorted(R.real_keys)
    for a in range(len(js)):
        for b in range(a + 1, len(js)):
            i, j = js[a], js[b]
            si, sj = canon(R.meta[i]["key"]).split("."), canon(R.meta[j]["key"]).split(".")
            diff = [names[x] for x in range(7) if si[x] != sj[x]]
            same_real = R.real_keys[i] == R.real_keys[j]
            if same_real and diff:
                viol.append(("C06/connection-key/equal-although-" + "+".join(diff) + "-differ",
                             f"requests {i} ({R.meta[i]['key']}) and {j} ({R.meta[j]['key']}) get equal connection keys"))
            elif not same_real and not diff:
                ctx.compare({"keys": True, **case}, "different", "equal", "real ConnectionKey equality vs model Key equality")
    for sig, detail in viol:
        ctx.violation(sig, case, detail)
    return viol


# ------------------------------------------------------------------------------ check
def cfg_draw(rng):
    r = rng.random()
    cfg = {"forceClose": False, "keepalive": 120, "total": 0}
    if r < 0.08:
        cfg["forceClose"] = True
    elif r < 0.35:
        cfg["keepalive"] = rng.choice([8, 16])
    if rng.random() < 0.3:
        cfg["total"] = rng.choice([16, 32])
    return cfg


KEYSETS_SAME = [["1.80.0.0.0.0.0"]]


def key_variants(rng):
    base = [1, 80, 0, 0, 0, 0, 0]
    out = [base]
    for _ in range(2):
        k = list(base)
        f = rng.randrange(7)
        if f == 0: k[0] = 2
        elif f == 1: k[1] = 8080
        elif f == 2: k[2] = rng.choice([1, 2, 3]); k[1] = 443 if rng.random() < 0.4 else 80
        elif f == 3: k[3] = rng.choice([1, 2, 3])
        elif f == 4: k[4] = rng.choice([1, 2])
        elif f == 5:
            k[4] = 1; k[5] = rng.choice([1, 2, 4, 5, 7]); out.append([1, 80, 0, 0, 1, rng.choice([0, 1, 2, 3, 4, 5, 6, 8]), 0])
        else: k[6] = rng.choice([1, 2])
        out.append(k)
    return [".".join(map(str, k)) for k in out]


def key_pairs():
    """(k1, k2): k2 differs from k1 in exactly one component of the connection key, or not at all.
    Every component the property names (host, port, TLS settings, proxy) in every flavour the
    request API offers: proxy address, proxy header NAME, proxy header VALUE, proxy user, proxy password."""
    out = []

    def vary(base, field, values):
        for v in values:
            k = list(base); k[field] = v
            if k != base:
                out.append((base, k))
    b0 = [1, 80, 0, 0, 0, 0, 0]
    vary(b0, 0, [2]); vary(b0, 1, [8080]); vary(b0, 2, [1]); vary(b0, 3, [1, 2]); vary(b0, 4, [1]); vary(b0, 6, [1])
    out.append((b0, [1, 443, 1, 0, 0, 0, 0]))
    b1 = [1, 80, 0, 0, 1, 1, 0]                    # via proxy p1 with proxy header X-P: 1
    vary(b1, 4, [2]); vary(b1, 5, [0, 2, 3, 4, 7])
    b2 = [1, 80, 0, 0, 1, 4, 0]                    # via proxy p1 as alice:pw
    vary(b2, 5, [0, 5, 6, 1])
    b3 = [1, 443, 1, 2, 0, 0, 1]                   # https, fingerprint a, server_hostname sni1
    vary(b3, 3, [0, 1, 3]); vary(b3, 6, [0, 2]); vary(b3, 1, [8443])
    b4 = [1, 80, 0, 0, 1, 7, 0]                    # two proxy headers
    vary(b4, 5, [8, 1])
    b5 = [1, 443, 1, 0, 2, 5, 0]                   # https origin through proxy p2 as bob
    vary(b5, 5, [4, 0]); vary(b5, 4, [1])
    for b in (b0, b1, b2, b3, b4, b5):
        out.append((b, list(b)))
    # scheme component over all four schemes on one explicit port, so that only TLS-or-not differs:
    # http/ws share connections, https/wss share connections, nothing else does
    for s1 in range(4):
        for s2 in range(s1, 4):
            out.append(([1, 8080, s1, 0, 0, 0, 0], [1, 8080, s2, 0, 0, 0, 0]))
    out.append(([1, 8080, 2, 0, 1, 1, 0], [1, 8080, 3, 0, 1, 1, 0]))      # ws / wss through a proxy
    sp = lambda k: ".".join(map(str, k))
    return [(sp(a), sp(b)) for a, b in out]


def pair_walk(k1, k2, third, stop_after_second_request=False):
    """request with k1, answered and read; then a request with k2 while that connection idles in the
    pool (and optionally k1 again): which connection does each one get?"""
    peer = Peer(random.Random(0))
    st = {"i": 0}

    def last_conn(R, j):
        return R.used[j][-1] if R.used[j] else None

    def next_op(R):
        i = st["i"]; st["i"] += 1
        keys = [k1, k2] + ([k1] if third else [])
        n = i // 3
        if n >= len(keys):
            return None
        step = i % 3
        if step == 0:
            return ("Q", keys[n], False, b"")
        if stop_after_second_request and n == 1:
            return None        # (a ws_connect handshake is not answered: only the connection it is written on matters)
        c = last_conn(R, n)
        if c is None:
            return ("A", 1)
        if step == 1:
            k = peer.add(c, "cl", 4)
            data = bytes(peer.pending[c][:k]); del peer.pending[c][:k]
            return ("R", c, data)
        return ("D", n)
    return next_op, peer


def scripted_walk(steps):
    """steps refer to requests by number; the connection is looked up when the step runs:
    ("Q",) | ("resp", j) | ("D", j) | ("F", j) | ("H", j) | ("X", j, os) | ("garbage", j) | ("A", d)
    where F/H/X/garbage act on the connection request j was written on"""
    K = "1.80.0.0.0.0.0"
    peer = Peer(random.Random(0))
    it = iter(steps)

    def next_op(R):
        for st in it:
            if st[0] == "Q":
                return ("Q", K, False, b"")
            if st[0] in ("D", "A", "L", "C", "K"):
                return st
            c = R.used[st[1]][-1] if st[1] < len(R.used) and R.used[st[1]] else None
            if c is None:
                continue
            if st[0] == "send":            # ("send", j, kind, n, "head" | "all"): one unit, its head first or whole
                start = len(peer.pending.get(c, b""))
                peer.add(c, st[2], st[3])
                un = peer.units[c][-1]
                n = un["head"] if st[4] == "head" else un["end"] - un["start"]
                data = bytes(peer.pending[c][:start + n]); del peer.pending[c][:start + n]
                return ("R", c, data)
            if st[0] == "rest":            # what is still pending for that connection
                if not peer.pending.get(c):
                    continue
                data = bytes(peer.pending[c]); del peer.pending[c][:]
                return ("R", c, data)
            if st[0] == "resp" or st[0] == "garbage":
                n = peer.add(c, "cl" if st[0] == "resp" else "garbage", 4)
                data = bytes(peer.pending[c][:n]); del peer.pending[c][:n]
                return ("R", c, data)
            if st[0] == "X":
                return ("X", c, st[2])
            return (st[0], c)
        return None
    return next_op, peer


def sweep_walk(keys, gaps, order):
    """keep-alive sweep with idle connections of several keys: request i (key keys[i]) is answered and read,
    then gaps[i] time units pass; the connector's cleanup timer fires in between; afterwards one request per
    key in `order` - each must get the connection that was opened for ITS key (or a new one)."""
    peer = Peer(random.Random(0))
    plan = []
    for i, k in enumerate(keys):
        plan += [("Q", k), ("resp", i), ("D", i), ("A", gaps[i])]
    for n, ki in enumerate(order):
        plan += [("Q", keys[ki]), ("resp", len(keys) + n), ("D", len(keys) + n)]
    it = iter(plan)

    def next_op(R):
        for st in it:
            if st[0] == "Q":
                return ("Q", st[1], False, b"")
            if st[0] == "A":
                if st[1] > 0:
                    return st
                continue
            if st[0] == "D":
                return st
            c = R.used[st[1]][-1] if st[1] < len(R.used) and R.used[st[1]] else None
            if c is None:
                continue
            n = peer.add(c, "cl", 4)
            data = bytes(peer.pending[c][:n]); del peer.pending[c][:n]
            return ("R", c, data)
        return None
    return next_op, peer


def sweep_cases(quick):
    ka = 120   # keep-alive in units (15 s): the cleanup timer fires 120 units after the first release
    KA = "1.80.0.0.0.0.0"; KB = "2.80.0.0.0.0.0"; KC = "1.8080.0.0.0.0.0"; KD = "1.80.0.0.1.1.0"; KE = "1.443.1.0.0.0.0"
    out = []
    for keys in ([KA, KB], [KA, KC], [KA, KD], [KA, KE], [KA, KB, KC]):
        for gaps in ([60, 60], [40, 80], [100, 20], [119, 1], [60, 61], [1, 119], [60, 180]):
            g = (gaps + [0])[:len(keys)] if len(keys) == 2 else [gaps[0] // 2, gaps[0] - gaps[0] // 2, gaps[1]]
            for order in ([1, 0], [0, 1]) if len(keys) == 2 else ([2, 1, 0], [1, 2, 0]):
                out.append((keys, g, order))
    return out if not quick else out[::2] + out[1:8:2]


CLOSING_WINDOW = [
    # FIN read on an idle pooled connection, next request before connection_lost
    [("Q",), ("resp", 0), ("D", 0), ("F", 0), ("Q",), ("resp", 1), ("D", 1), ("X", 0, False), ("Q",), ("resp", 2), ("D", 2)],
    # … connection_lost with an error afterwards
    [("Q",), ("resp", 0), ("D", 0), ("F", 0), ("A", 1), ("Q",), ("X", 0, True), ("resp", 1), ("D", 1)],
    # garbage on an idle pooled connection: the protocol closes the transport, connection_lost held back
    [("Q",), ("resp", 0), ("D", 0), ("H", 0), ("garbage", 0), ("Q",), ("resp", 1), ("D", 1), ("X", 0, False)],
    # garbage while a request waits, transport closing, then another request, then connection_lost
    [("Q",), ("H", 0), ("garbage", 0), ("Q",), ("X", 0, False), ("resp", 1), ("D", 1)],
    # FIN while a request waits for its head; a second request meanwhile; then connection_lost (retry of request 0)
    [("Q",), ("F", 0), ("Q",), ("X", 0, False), ("resp", 0), ("resp", 1), ("D", 0), ("D", 1)],
    # response complete, released by the caller while the transport is held closing
    [("Q",), ("H", 0), ("resp", 0), ("D", 0), ("F", 0), ("Q",), ("A", 1), ("X", 0, True), ("resp", 1), ("D", 1)],
]


def framing_cases():
    """responses whose end the client must find by their framing, and protocol switches, each followed by a
    same-key request: status x (head and body in one read | body in a later read); Upgrade token spellings"""
    out = []
    for st in ("200", "201", "205", "206", "300", "404", "500"):
        for kind in ("cl", "chunked"):
            for how in ("all", "head"):
                out.append([("Q",), ("send", 0, f"{kind}:{st}", 7, how), ("D", 0), ("rest", 0), ("A", 1), ("Q",),
                            ("resp", 1), ("D", 1)])
                out.append([("Q",), ("send", 0, f"{kind}:{st}", 7, how), ("rest", 0), ("D", 0), ("Q",), ("resp", 1), ("D", 1)])
    # every "such a connection is not reused" clause once, deterministically, each followed by a same-key request
    tail = [("A", 1), ("Q",), ("resp", 1), ("D", 1)]
    for i in range(len(CONN_CLOSE)):                                   # the peer announces the close, any spelling
        out.append([("Q",), ("send", 0, f"close:{i}", 4, "all"), ("D", 0)] + tail)
        out.append([("Q",), ("send", 0, f"close:{i}", 4, "head"), ("D", 0), ("rest", 0)] + tail)
    for i in range(len(CONN_KA)):                                      # HTTP/1.0 stays open only with keep-alive
        out.append([("Q",), ("send", 0, f"http10ka:{i}", 4, "all"), ("D", 0)] + tail)
    out.append([("Q",), ("send", 0, "http10", 4, "all"), ("D", 0)] + tail)
    for te in ("chunked", "Chunked", "CHUNKED"):
        out.append([("Q",), ("send", 0, f"chunked:200~{te}", 6, "all"), ("D", 0)] + tail)
        out.append([("Q",), ("send", 0, f"chunked:200~{te}", 6, "head"), ("D", 0), ("rest", 0)] + tail)
    out.append([("Q",), ("send", 0, "eofbody", 4, "all"), ("D", 0), ("X", 0, False)] + tail)        # body until close
    out.append([("Q",), ("send", 0, "cl", 9, "head"), ("L", 0)] + tail)                          # released unread
    out.append([("Q",), ("send", 0, "cl", 9, "head"), ("L", 0), ("rest", 0)] + tail)
    out.append([("Q",), ("send", 0, "cl", 9, "head"), ("C", 0)] + tail)                          # closed by the caller
    out.append([("Q",), ("send", 0, "cl", 9, "all"), ("C", 0)] + tail)
    out.append([("Q",), ("send", 0, "cl", 9, "head"), ("D", 0), ("K", 0)] + tail)                # read cancelled
    out.append([("Q",), ("K", 0)] + tail)                                                       # request cancelled
    out.append([("Q",), ("send", 0, "cl", 9, "head"), ("D", 0), ("X", 0, False)] + tail)          # truncated by the peer
    out.append([("Q",), ("send", 0, "cl", 9, "head"), ("D", 0), ("X", 0, True)] + tail)
    out.append([("Q",), ("X", 0, False), ("resp", 0), ("D", 0)] + tail)                          # lost while waiting (one retry)
    out.append([("Q",), ("garbage", 0)] + tail)                                                 # failed
    out.append([("Q",), ("send", 0, "204", 0, "all"), ("D", 0)] + tail)                          # bodiless: reused
    out.append([("Q",), ("send", 0, "304", 0, "all"), ("D", 0)] + tail)
    out.append([("Q",), ("send", 0, "100", 0, "all"), ("send", 0, "cl", 4, "all"), ("D", 0)] + tail)
    for tok in ("websocket", "WebSocket", "Websocket", "WEBSOCKET", "tcp", "TCP"):
        out.append([("Q",), ("send", 0, f"101:{tok}", 0, "all"), ("D", 0), ("A", 1), ("Q",), ("resp", 1), ("D", 1)])
        out.append([("Q",), ("send", 0, f"101:{tok}", 4, "head"), ("Q",), ("rest", 0), ("resp", 1), ("D", 1)])
    return out


SOCK_READ = 16      # units (2 s): below aiohttp's 5 s ceil threshold, so the timer is exact
SOCK_READ_CASES = [
    # (steps, expected final (phase, error) per request, expected connections per request)
    ([("Q",), ("A", 17), ("Q",), ("resp", 1), ("D", 1)], ["failed:socktimeout", "done"], ["0", "1"]),                      # silence
    ([("Q",), ("send", 0, "cl", 9, "head"), ("D", 0), ("A", 17), ("Q",), ("resp", 1), ("D", 1)], ["failed:socktimeout", "done"], ["0", "1"]),
    ([("Q",), ("resp", 0), ("D", 0), ("A", 17), ("Q",), ("resp", 1), ("D", 1)], ["done", "done"], ["0", "0"]),                # idle time is not read time
    ([("Q",), ("send", 0, "204", 0, "all"), ("D", 0), ("A", 17), ("Q",), ("resp", 1), ("D", 1)], ["done", "done"], ["0", "0"]),
    ([("Q",), ("send", 0, "103", 0, "all"), ("A", 17), ("Q",), ("resp", 1), ("D", 1)], ["failed:socktimeout", "done"], ["0", "1"]),
    ([("Q",), ("A", 10), ("send", 0, "cl", 9, "head"), ("A", 10), ("rest", 0), ("D", 0), ("A", 17), ("Q",), ("resp", 1), ("D", 1)],
     ["done", "done"], ["0", "0"]),                                                                                        # every read re-arms the timer
    ([("Q",), ("send", 0, "cl", 9, "head"), ("A", 17), ("D", 0), ("Q",), ("resp", 1), ("D", 1)], ["failed:socktimeout", "done"], ["0", "1"]),
]


def expect_walk(script, split):
    """POST with a 10-byte body and Expect: 100-continue; the peer answers with the scripted units
    (it has seen only the request head when it starts); the caller reads the response; then a GET with
    the same key.  `split`: every unit in its own read."""
    K = "1.80.0.0.0.0.0"
    peer = Peer(random.Random(0))
    st = {"i": 0, "plan": None}

    def next_op(R):
        i = st["i"]; st["i"] += 1
        if i == 0:
            return ("Q", K, False, b"")
        if st["plan"] is None:
            c = R.used[0][-1] if R.used[0] else None
            if c is None:
                return None
            sizes = [peer.add(c, {"final": "cl", "final-close": "close"}.get(k, k), 4) for k in script]
            chunks = sizes if split else [sum(sizes)]
            st["plan"] = [("R", c, n) for n in chunks] + [("D", 0), ("A", 1), ("Q", K, False, b""), ("A", 1)]
        if not st["plan"]:
            return None
        op = st["plan"].pop(0)
        if op[0] == "R":
            c, n = op[1], op[2]
            data = bytes(peer.pending[c][:n]); del peer.pending[c][:n]
            return ("R", c, data)
        return op
    return next_op, peer


def run_case(ctx, cfg, seed, keyset, max_req, variant_seed):
    rng = random.Random(seed)
    next_op, peer, st = gen_walk(rng, cfg, keyset, max_req)
    vr = random.Random(variant_seed)
    variants = {}

    def kp(spec, j):
        v = variants.setdefault(j, vr.randrange(4))
        return keyparams(spec, j, v)
    R = M.run_scenario(cfg, next_op, kp)
    units = {c: list(us) for c, us in peer.units.items()}
    return R, units, variants


def early_fixup(R, units):
    """bytes handed over inside _create_connection precede everything else on that connection:
    shift the peer's unit offsets and add the early unit"""
    for ev in R.events:
        if ev[0] == "recv" and ev[3] is None and R.ops[ev[4]][0] == "Q" and R.ops[ev[4]][3]:
            c, data = ev[1], ev[2]
            us = units.setdefault(c, [])
            if us and us[0].get("early"):
                continue
            for un in us:
                un["start"] += len(data); un["end"] += len(data)
            hl = data.find(b"\r\n\r\n")
            try:
                u = int(data.split(b"X-U: ")[1].split(b"\r\n")[0])
            except Exception:
                u = -1
            us.insert(0, {"u": u, "start": 0, "head": (hl + 4) if hl >= 0 else len(data), "end": len(data),
                          "kind": "cl", "final": True, "early": True})


def make_case(cfg, R, units, variants):
    return {"cfg": cfg, "ops": [list(o[:2]) + [o[2]] + [hx(o[3])] if o[0] == "Q" else
                                ([o[0], o[1], hx(o[2])] if o[0] == "R" else list(o)) for o in R.ops],
            "units": {str(c): us for c, us in units.items()}, "variants": {str(k): v for k, v in variants.items()}}


def ops_of_case(case):
    ops = []
    for o in case["ops"]:
        if o[0] == "Q":
            ops.append(("Q", o[1], bool(o[2]), unhx(o[3])))
        elif o[0] == "R":
            ops.append(("R", o[1], unhx(o[2])))
        elif o[0] == "X":
            ops.append(("X", o[1], bool(o[2])))
        else:
            ops.append(tuple(o))
    return ops


def run_fixed(case):
    ops = ops_of_case(case)
    it = iter(ops)
    variants = {int(k): v for k, v in case.get("variants", {}).items()}
    R = M.run_scenario(case["cfg"], lambda R: next(it, None), lambda spec, j: keyparams(spec, j, variants.get(j, 0)))
    units = {int(c): us for c, us in case["units"].items()}
    return R, units


def model_line(cfg, ops, fix=None):
    if fix is None:
        fix = bool(os.environ.get("C06_MODEL_FIX"))   # experiment: compare a patched tree with the model of the candidate repair
    ops = [("Q", canon(o[1]), o[2], o[3]) if o[0] == "Q" else o for o in ops]
    return "run " + M.cfg_token(cfg, fix) + " " + " ".join(M.op_token(o) for o in ops)


def evaluate(ctx, R, units, variants, cfg, where, sample=False):
    early_fixup(R, units)
    case = make_case(cfg, R, units, variants)
    nontriv = any(r is not None for r in R.resps) or any(tr.closed for tr in R.conn.transports)
    ctx.case(("walk", [M.op_token(o) for o in R.ops], M.cfg_token(cfg)), nontrivial=nontriv,
             sample={"ops": [M.op_token(o)[:60] for o in R.ops][:14], "final": R.states[-1][:160] if R.states else ""} if sample else None)
    for o in R.ops:
        ctx.hit("op:" + o[0])
    for us in units.values():
        for un in us:
            ctx.hit("unit:" + un["kind"] + (":partial" if un["end"] - un["start"] < un["head"] else ""))
    for s in R.states[-1:]:
        for e in s[2:s.index("] C[")].split(";"):
            if e:
                ctx.hit("final:" + e.split(",")[0] + (":" + e.rsplit("err:", 1)[1] if "err:" in e else ""))
    if R.loop_excs:
        ctx.hit("loop-exception")
    viol = oracle(ctx, R, units, case)
    for sig, _ in viol:
        ctx.hit("oracle:" + sig)
    return case, viol


def check(ctx):
    rng = ctx.rng
    n_same = 4000 if ctx.quick else 100000
    n_keys = 800 if ctx.quick else 20000
    if os.environ.get("C06_SCALE"):      # experiments on a loaded box only: fewer random histories
        n_same = int(n_same * float(os.environ["C06_SCALE"])); n_keys = int(n_keys * float(os.environ["C06_SCALE"]))
    jobs = []
    for i in range(n_same + n_keys):
        cfg = cfg_draw(rng)
        keyset = KEYSETS_SAME[0] if i < n_same else key_variants(rng)
        jobs.append((cfg, rng.getrandbits(48), keyset, rng.randint(2, 6), rng.getrandbits(32)))
    lines, recs = [], []
    state = {"n_pred": 0}

    def flush():
        """replay the batch on the model, compare, forget it"""
        if not lines:
            return
        outs = ctx.model(lines)
        if outs is not None:
            for (case, rstates, rops, viol), out in zip(recs, outs):
                parts = out.split(" | ")
                ghost = parts[-1] if parts and parts[-1].startswith("G[") else "G[?]"
                states = parts[:-1]
                if os.environ.get("C06_MODEL_FIX"):
                    states = [x.replace("err:dirty", "err:connclosed") for x in states]
                ok = ctx.compare(case, rstates, states, "ClientSession history vs Aio.C06.World.run")
                if not ok:
                    for i, (a, b) in enumerate(zip(rstates, states)):
                        if a != b:
                            ctx.hit("mismatch-at:" + rops[i][0])
                            break
                    continue
                # ghost semantics: the model's own-bytes verdict and the oracle's must agree on which exchanges got foreign bytes
                pred = sorted(int(x) for x in ghost[2:-1].split(",") if x)
                got = sorted({int(d.split()[1]) for s, d in viol if s.startswith("C06/stale-bytes/")})
                state["n_pred"] += bool(pred)
                ctx.compare({"ghost": True, **case}, got, pred, "oracle stale-bytes verdict vs model ghost tags")
        del lines[:], recs[:]

    # corpus first
    cdir = os.path.join(os.path.dirname(os.path.dirname(os.path.abspath(__file__))), "corpus", "C06")
    if os.path.isdir(cdir):
        for fn in sorted(os.listdir(cdir)):
            if fn.endswith(".json"):
                with open(os.path.join(cdir, fn)) as f:
                    case = json.load(f)
                R, units = run_fixed(case)
                c2, viol = evaluate(ctx, R, units, {int(k): v for k, v in case.get("variants", {}).items()}, case["cfg"], "corpus")
                recs.append((c2, R.states, R.ops, viol)); lines.append(model_line(case["cfg"], R.ops))
                ctx.hit("corpus")
    # connection-key class: every single-component difference, both orders, with URL spelling variants
    pcfg = {"forceClose": False, "keepalive": 120, "total": 0}
    for (ka, kb) in key_pairs():
        for (k1, k2) in ((ka, kb), (kb, ka)):
            for variant in ((0, 3, 4) if ctx.quick else (0, 1, 2, 3, 4, 7)):
                # bit 2: the second request is a ws_connect (any scheme), judged by where its handshake is written
                next_op, peer = pair_walk(k1, k2, third=bool(variant & 1) and not variant & 4,
                                          stop_after_second_request=bool(variant & 4))
                variants = {0: 0, 1: variant, 2: (variant ^ 3) & 3}
                R = M.run_scenario(pcfg, next_op, lambda spec, j: keyparams(spec, j, variants.get(j, 0)))
                units = {c: list(us) for c, us in peer.units.items()}
                case, viol = evaluate(ctx, R, units, variants, pcfg, "keypair")
                ctx.hit("keypair:" + ("same" if canon(k1) == canon(k2) else "differs") + (":ws_connect" if variant & 4 else ""))
                recs.append((case, R.states, R.ops, viol)); lines.append(model_line(pcfg, R.ops))
                del R
    flush()
    # keep-alive sweep (the connector's _cleanup timer) while idle connections of several keys are alive
    for (keys, gaps, order) in sweep_cases(ctx.quick):
        next_op, peer = sweep_walk(keys, gaps, order)
        R = M.run_scenario(pcfg, next_op, lambda spec, j: keyparams(spec, j, 0))
        units = {c: list(us) for c, us in peer.units.items()}
        case, viol = evaluate(ctx, R, units, {}, pcfg, "sweep")
        ctx.hit("keepalive-sweep")
        recs.append((case, R.states, R.ops, viol)); lines.append(model_line(pcfg, R.ops))
        del R
    flush()
    # framing by status / protocol switch spellings, then a same-key request
    for steps in framing_cases():
        next_op, peer = scripted_walk(steps)
        R = M.run_scenario(pcfg, next_op, lambda spec, j: keyparams(spec, j, 0))
        units = {c: list(us) for c, us in peer.units.items()}
        case, viol = evaluate(ctx, R, units, {}, pcfg, "framing")
        ctx.hit("framing-class")
        recs.append((case, R.states, R.ops, viol)); lines.append(model_line(pcfg, R.ops))
        del R
    flush()
    # transport closing but connection_lost not yet delivered, at the moment of the next acquire
    for steps in CLOSING_WINDOW:
        next_op, peer = scripted_walk(steps)
        R = M.run_scenario(pcfg, next_op, lambda spec, j: keyparams(spec, j, 0))
        units = {c: list(us) for c, us in peer.units.items()}
        case, viol = evaluate(ctx, R, units, {}, pcfg, "closing-window")
        ctx.hit("closing-window")
        recs.append((case, R.states, R.ops, viol)); lines.append(model_line(pcfg, R.ops))
        del R
    flush()
    # sock_read timeout (oracle only: the model has one timer, the total timeout): a timed-out connection is not
    # reused, a reused connection does not bring an old timeout with it, reads re-arm the timer
    scfg = {"forceClose": False, "keepalive": 120, "total": 0, "sockRead": SOCK_READ}
    for steps, want, wconn in SOCK_READ_CASES:
        next_op, peer = scripted_walk(steps)
        R = M.run_scenario(scfg, next_op, lambda spec, j: keyparams(spec, j, 0))
        units = {c: list(us) for c, us in peer.units.items()}
        case, viol = evaluate(ctx, R, units, {}, scfg, "sock_read")
        ctx.hit("sock-read-class")
        ex = R.states[-1][2:R.states[-1].index("] C[")].split(";") if R.states else []
        got = [e.split(",")[0] + (":" + e.rsplit("err:", 1)[1] if "err:" in e else "") for e in ex]
        gconn = [e.split(",")[2] for e in ex]
        ctx.compare({"sock_read": True, **case}, [got, gconn], [want, wconn], "sock_read timeout expectations (timed-out => new connection; idle time is not read time)")
        del R
    # request bodies with Expect: 100-continue (oracle only: the model has no request bodies):
    # early final response without 100 / 100 then final / interim 103 then 100 then final; then a same-key request
    for script in (["final"], ["100", "final"], ["103", "100", "final"], ["final-close"]):
        for split in (False, True):
            # body kinds: bytes (known size), async generator and unseekable stream (size unknown, sent chunked)
            for body in (8, 8 | 16, 8 | 32):
                next_op, peer = expect_walk(script, split)
                variants = {0: body, 1: 0}
                R = M.run_scenario(pcfg, next_op, lambda spec, j: keyparams(spec, j, variants.get(j, 0)))
                units = {c: list(us) for c, us in peer.units.items()}
                evaluate(ctx, R, units, variants, pcfg, "expect100")
                ctx.hit("expect100:" + "+".join(script) + ":" + {8: "bytes", 24: "agen", 40: "stream"}[body])
                del R
    for n, (cfg, seed, keyset, max_req, vs) in enumerate(jobs):
        if ctx.time_left() is not None and ctx.time_left() < 20:
            ctx.notes.append(f"time budget: stopped after {n} of {len(jobs)} histories")
            break
        R, units, variants = run_case(ctx, cfg, seed, keyset, max_req, vs)
        case, viol = evaluate(ctx, R, units, variants, cfg, "walk", sample=(n % 97 == 0))
        recs.append((case, R.states, R.ops, viol)); lines.append(model_line(cfg, R.ops))
        del R
        if len(lines) >= 400:
            flush()
    flush()
    ctx.extra["histories_with_model_predicted_stale_delivery"] = state["n_pred"]
    if os.environ.get("C06_DUMP"):
        with open(os.environ["C06_DUMP"], "w") as f:
            json.dump(ctx.mismatches[:10], f, default=repr)


def replay(ctx, case):
    R, units = run_fixed(case)
    early_fixup(R, units)
    oracle(ctx, R, units, case)
