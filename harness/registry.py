"""What MANIFEST.json claims (regenerate with ./tools_manifest.py)."""

NOTES = ("All checks: ./check <Cnn> --tier quick|thorough. Exit 0 = held (KNOWN-FINDING lines possible), 1 = VIOLATION, "
         "2 = machinery broken. Lean project in lean/ (no Mathlib dependency in models; proofs use core tactics). "
         "See DESIGN.md.")

CHECKS = [
    {
        "property_id": "C04",
        "text": ("Kernel-checked theorems about the Lean model of aiohttp/http_writer.py: header serialisation succeeds iff no "
                 "forbidden character (table regenerated from the source regex each run) and, when it succeeds, the bytes split at "
                 "CRLF into exactly start line + one line per header + terminator with no bare CR/LF, for all code-point strings; a "
                 "refused block writes nothing; for all write/send_headers programs chunked output decodes (reference RFC 9112 "
                 "decoder) to the written data and a declared length is honoured exactly. The model is tied to the code by a "
                 "differential correspondence run (serializer on every special code point in every position + random strings; "
                 "StreamWriter on random and small-exhaustive op programs) plus a direct oracle on the real bytes."),
        "note": ("Trusted: Lean kernel; the hand-written model (validated by correspondence only); zlib output taken as oracle column; "
                 "CIMultiDict ordering; only the concatenation of transport writes is modelled. Header block assumed to have >= 1 field."),
        "technique": "Lean 4 theorem (induction over op sequences / code-point strings) + generated-table re-check + model/implementation differential correspondence",
    },
]

_PENDING = "not yet built in this round — planned per DESIGN.md §8; no claim is made until its model, theorems and correspondence exist"
NOT_APPLICABLE = [
    {"property_id": p, "reason": _PENDING}
    for p in ["C01", "C02", "C03", "C05", "C06", "C07", "C08", "C09", "C10", "C11", "C12", "C13", "C14", "C15", "C16", "C17", "C18", "C19", "C20"]
]
