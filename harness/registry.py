"""What MANIFEST.json claims (regenerate with ./tools_manifest.py).
One JSON file per claimed property in harness/registry.d/ (keys: property_id, text, note, technique)."""
import glob, json, os

NOTES = ("All checks: ./check <Cnn> --tier quick|thorough. Exit 0 = held (KNOWN-FINDING lines possible), 1 = VIOLATION, "
         "2 = machinery broken. Lean project in lean/ (models import nothing; proofs use core tactics). "
         "known_findings.json lists known (unrepaired) and fixed (repaired by fix: commits, replayed each run) findings. See DESIGN.md.")

_D = os.path.join(os.path.dirname(os.path.abspath(__file__)), "registry.d")
CHECKS = [json.load(open(p)) for p in sorted(glob.glob(os.path.join(_D, "C*.json")))]

_PENDING = "not yet built in this round — planned per DESIGN.md §8; no claim is made until its model, theorems and correspondence exist"
_claimed = {c["property_id"] for c in CHECKS}
NOT_APPLICABLE = [{"property_id": f"C{i:02d}", "reason": _PENDING} for i in range(1, 21) if f"C{i:02d}" not in _claimed]
