"""What MANIFEST.json claims (regenerate with ./tools_manifest.py)."""

NOTES = ("All checks: ./check <Cnn> --tier quick|thorough. Exit 0 = held (KNOWN-FINDING lines possible), 1 = VIOLATION, "
         "2 = machinery broken. Lean project in lean/ (no Mathlib dependency in models; proofs use core tactics). "
         "See DESIGN.md.")

CHECKS = [
    {
        "property_id": "C04",
        "text": ("Kernel-checked theorems about the Lean model of aiohttp/http_writer.py: header serialisation succeeds iff no "
                 "forbidden character (table regenerated from the source regex each run) and, when it succeeds, the bytes split at "
                 "CRLF into exactly start line + one line per header + terminator with no bare CR/LF, for all code-point strings; a "
                 "refused block writes nothing; for all write/send_headers programs chunked output decodes (reference RFC 9112 "
                 "decoder) to the written data and a declared length is honoured exactly. The model is tied to the code by a "
                 "differential correspondence run (serializer on every special code point in every position + random strings; "
                 "StreamWriter on random and small-exhaustive op programs) plus a direct oracle on the real bytes."),
        "note": ("Trusted: Lean kernel; the hand-written model (validated by correspondence only); zlib output taken as oracle column; "
                 "CIMultiDict ordering; only the concatenation of transport writes is modelled. Header block assumed to have >= 1 field."),
        "technique": "Lean 4 theorem (induction over op sequences / code-point strings) + generated-table re-check + model/implementation differential correspondence",
    },
    {
        "property_id": "C01",
        "text": ("Kernel-checked theorems about the Lean model of the pure-Python request parser (aiohttp/http_parser.py): whatever request head "
                 "is accepted is a strict RFC 9112 reading (token method, request-target free of CTL/whitespace, HTTP/d.d; field lines "
                 "token ':' OWS value OWS with values free of forbidden controls; reported field list = that reading, in order; no singleton "
                 "header twice); Content-Length with Transfer-Encoding is rejected; a derived length is 1*DIGIT; a request's Transfer-Encoding "
                 "must end in a single chunked; obs-fold, bare LF in the request line, missing/duplicate Host on HTTP/1.1 are rejected — for all "
                 "byte strings, all limits and all behaviours of yarl. Character-class tables are regenerated from the source regexes on every "
                 "run. The model is tied to the code by differential correspondence on grammar-generated and mutated request streams (42 "
                 "mutation classes, 3 segmentations each); a direct oracle compares the real parser with an independent strict RFC 9112 reader "
                 "(messages, fields, body bytes, accept/reject in both directions) and the real server (AppRunner over an in-memory transport) "
                 "must answer every rejected stream with a 4xx and close, and every complete request with a response."),
        "note": ("Trusted: Lean kernel; hand-written model (validated by correspondence); yarl accept/reject as oracle column; the strict reference "
                 "reader (harness/common/rfc9112.py, lean/AioProps/HttpSpec.lean) is my reading of RFC 9112; method compared after upper-casing; "
                 "chunked-body strictness (chunk-size/extension/trailer classes) is carried by correspondence + reference reader, not yet by a theorem; "
                 "decompression and back-pressure are outside this model. Seven parser defects found here were repaired by fix: commits and are replayed as fixed findings."),
        "technique": "Lean 4 soundness theorem (accepted ⇒ strict reading) + per-class rejection lemmas + regenerated tables + model/implementation correspondence + independent reference reader",
    },
    {
        "property_id": "C03",
        "text": ("Kernel-checked laws on which the resumable parser's segmentation independence rests, for all byte strings and limits: a line "
                 "terminator found in a prefix is found at the same place in every extension (strict CRLF and lax LF); the early checks made on a "
                 "buffered partial line only reject what the check on the completed line rejects too (strict and lax; exactly the laws the "
                 "unchanged code violated: F1-F3, now fixed); Content-Length and close-delimited bodies are delivered compositionally under every "
                 "split; a rejected parser stays rejected and silent. The step from these laws to whole-stream independence is carried by the "
                 "correspondence run, which validates the Lean model against the real request and response parsers at EVERY single cut of every "
                 "generated stream (plus pairs, k-cuts, byte-at-a-time, with/without EOF, limits within ±1 of line lengths, unequal limits), "
                 "and by a direct oracle comparing all segmentations of the real parser with each other."),
        "note": ("Trusted: Lean kernel; hand-written model; yarl oracle column; outcome relation ≈ (accepted ⇒ identical events; rejected ⇒ rejected or "
                 "incomplete with prefix-comparable events; exception class may differ). The full two-cut theorem for the chunked state machine is not "
                 "proved (model-level laws + correspondence at every cut instead). Back-pressure pauses and decompression: see C09."),
        "technique": "Lean 4 lemmas (separator stability, early-check soundness, body compositionality) + all-cuts model/implementation correspondence + cross-segmentation oracle",
    },
    {
        "property_id": "C07",
        "text": ("Kernel-checked theorems over all label sequences (all interleavings at await granularity of spawn, event-loop callback, attempt ok/fail, "
                 "cancel, timeout, release, lost idle connection, close, any shuffle) about a Lean model of BaseConnector's pool: with the repairs "
                 "switched on, global and per-host limits always hold, every connection attempt is counted, with no live request nothing stays counted, "
                 "after close every created connection is closed and nothing is counted or queued, and every _release_waiter with an eligible live "
                 "waiter wakes exactly one. The model carries a flag per repair and the harness probes the tree to pick the flags, so it models the "
                 "code that exists; the unrepaired behaviours (F7 fast path ignoring the limit, F8 lost wake-up, race lost wake-up, closed-connector "
                 "residue) are kernel-checked counterexamples. Tied to the real connector by trace conformance after every label on a hand-stepped "
                 "virtual loop (guided generators + exhaustive small-scope exploration) and a direct oracle on the real object."),
        "note": ("Theorems are for the repaired model (two of the four repairs are now committed as fix:; F7 and the closed-connector cases are known "
                 "findings). Global no-forgotten-waiter at quiescence is proved only as the wake-up step (partial). Trusted: model faithfulness "
                 "(correspondence), asyncio FIFO and cancel semantics; traces, keepalive expiry, force_close, SSL cleanup not modelled."),
        "technique": "Lean 4 invariants by induction over label sequences + decide +kernel counterexamples + trace conformance under a virtual loop",
    },
    {
        "property_id": "C08",
        "text": ("Kernel-checked theorems about a Lean model of streams.StreamReader and the pause/resume half of BaseProtocol, for all limits and all "
                 "finite interleavings of feed_data, chunk markers, feed_eof, set_exception, connection loss with read(n), read(), readany, "
                 "readuntil/readline, readexactly, readchunk, read_nowait, the async iterators and coroutine resumption: bytes taken plus bytes "
                 "buffered equal bytes fed, in order; returned bytes are exactly the taken bytes unless a call raised; end-of-stream from "
                 "read/readany/read(-1)/readchunk only after all data; readchunk True flags sit on sender boundaries; while not paused size ≤ high "
                 "water and chunk count ≤ chunk high water; pause/resume happen exactly at the water marks; a blocked reader never has reading "
                 "paused when limit > 0 (kernel-checked counterexample for limit = 0, a known finding). Tied to the code by a per-step differential "
                 "run (random + exhaustive short sequences) plus a direct oracle on the real object."),
        "note": ("Trusted: Lean kernel; hand-written model (correspondence only). Single consumer; no cancellation, unread_data, re-entrant feeding from "
                 "resume_reading or chunk hook. End-of-stream for readuntil/readexactly/iterators, readchunk not crossing boundaries and op-level resume "
                 "are covered by correspondence and oracle only."),
        "technique": "Lean 4 invariant proofs by induction over op sequences + regenerated constants + step-wise correspondence + direct oracle",
    },
    {
        "property_id": "C14",
        "text": ("Kernel-checked theorems about the Lean model of web_urldispatcher: for all index-consistent route tables (nested and domain sub-apps) "
                 "and all paths, the prefix-index walk equals the documented linear rule (longest fixed prefix, registration order, method); 404/405 iff "
                 "statements with a complete Allow set for flat tables; registration ops preserve index consistency (add_subapp re-indexing partial); "
                 "the template matcher inverts substitution (url_for partial, under yarl laws); no normalize_path redirect candidate starts with '//'. "
                 "Tied to the code by a differential run (random and exhaustive small tables, all nested indexes compared) and a direct oracle "
                 "against a Python twin of the documented rule."),
        "note": ("yarl quoting, normpath and re character classes (regenerated per run) are oracle columns; sub-app verdicts are final; paths start with '/'. "
                 "Five reproduced deviations (quoted-literal resources never match: dynamic/sub-app/static/url_for; KeyError mounting a sub-app that holds a "
                 "domain resource) are known findings."),
        "technique": "Lean 4 refinement proof (index walk ≡ linear spec) + invariants + generated tables + differential correspondence",
    },
    {
        "property_id": "C16",
        "text": ("Kernel-checked theorems about the Lean model of cookiejar.py, for all histories of responses, clock advances, clear/clear_domain, "
                 "save+load and queries: the cookies attached to a request are exactly those RFC 6265 §5.4 selects from what the jar has recorded — never "
                 "to a host that does not domain-match, host-only only to the exact host, Secure only over https/wss, not after the recorded deadline, "
                 "path-scoped for paths with ≤1 trailing slash, nothing in scope withheld — and a response can change no cookie, host-only mark or "
                 "deadline outside its own host's domain. The full refinement to an RFC 6265 reference store is false for the unchanged code; eight "
                 "deviations are kernel-checked counterexamples and known findings. Tied to the code by differential correspondence (outputs and full "
                 "jar state incl. heap and dict order) and a direct oracle comparing the real CookieJar, the real parse path and a real ClientSession "
                 "against a Python twin of the reference store."),
        "note": ("Trusted: Lean kernel; hand-written model; http.cookies/_cookie_helpers parsing, int(), _parse_date, yarl, heapq not modelled; reference store = "
                 "my reading of RFC 6265 §5 (no public-suffix list, CookieJar's IP policy); observation is a name→value map; ASCII hosts; every response has a host."),
        "technique": "Lean 4 invariants over all op sequences + selection refinement to an RFC 6265 reference + decide +kernel counterexamples + differential correspondence + reference-store oracle",
    },
    {
        "property_id": "C19",
        "text": ("Kernel-checked theorems about a Lean model of multipart.py over a lazy StreamReader model: the sliding boundary window finds the first "
                 "delimiter for every split across reads and never a false one; the read_chunk loop over any sequence of fresh-chunk sizes ≥ the delimiter "
                 "length returns exactly the part content and terminates within |content|+4 calls (delimiter-free encoded content, CR-free boundary); "
                 "base64 alignment loses no byte and yields whole quartets unless fewer than four characters are available (that escape is reachable: a "
                 "finding); a declared MultipartWriter.size equals the bytes written and is declared iff no part is encoded; the gathering loop cannot "
                 "spin and at most two calls succeed after EOF. Tied to the code by event-by-event differential runs (writer round trips under lazy "
                 "segmentations and all read APIs, mutation stream under small limits, FormData→post()) plus a direct round-trip/size/termination/limits oracle."),
        "note": ("Trusted: Lean kernel; hand-written model; zlib and quoted-printable are oracle columns; stream = lazy non-empty segments. The step from "
                 "_read_chunk_from_stream to the abstract chunk loop, next/nesting/readline/length mode, parse_content_disposition, FormData and post() are "
                 "covered by correspondence/oracle only; full drive-loop termination is _partial. Seven reproduced deviations are known findings."),
        "technique": "Lean 4 theorems (invariant + induction over arbitrary chunkings) + generated-table re-check + differential correspondence with a scripted lazy-stream consumer",
    },
    {
        "property_id": "C20",
        "text": ("Kernel-checked theorems about Lean models of CleanupContext and Application signals with sub-applications, AppRunner setup/cleanup, "
                 "web._run_app, and the shutdown path (Server.pre_shutdown/shutdown, RequestHandler.shutdown/close, ceil_timeout): for all n and all "
                 "failing sets cleanup code never runs twice nor without completed start-up (every tree, both entries); it runs exactly for what "
                 "started, in reverse order, for one application through AppRunner; for trees and run_app under stated no-raise hypotheses (_partial) "
                 "with kernel-checked counterexamples for each excluded case. For all schedules: no handler starts after pre_shutdown; idle connections "
                 "are closed when Server.shutdown starts; an in-flight handler finishing within T completes with its response; all handlers are finished "
                 "or cancelled by 2T plus rounding; every transport is closed if cleanup returns. Tied to the code by differential correspondence "
                 "(incl. web.run_app itself) on a virtual-time loop with in-memory transports plus a direct oracle on the real event log and timestamps."),
        "note": ("Trusted: hand-written models (correspondence); aiosignal; asyncio scheduling; in-memory transports and virtual clock; handlers as sleep/body "
                 "oracles; no exact ties between handler completion and deadlines. Eight reproduced deviations (run_app setup outside try, on_shutdown raising, "
                 "sub-app contexts after failed start-up, cleanup error hiding later apps, cross-app order, idle close delayed by on_shutdown, in-flight body "
                 "dropped after pre_shutdown, shutdown_timeout=0) are known findings."),
        "technique": "Lean 4 theorems (induction over chains, all-schedule invariants of a timed state machine) + decide +kernel counterexamples + trace correspondence under virtual time",
    },
]


_PENDING = "not yet built in this round — planned per DESIGN.md §8; no claim is made until its model, theorems and correspondence exist"
NOT_APPLICABLE = [
    {"property_id": p, "reason": _PENDING}
    for p in ["C02", "C05", "C06", "C09", "C10", "C11", "C12", "C13", "C15", "C17", "C18"]
]
