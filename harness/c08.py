"""C08 — stream reader: exact ordered delivery with back-pressure.

Implementation under test: aiohttp.streams.StreamReader driven through the real
aiohttp.base_protocol.BaseProtocol (only the transport object is a recording stub).
Model: lean/AioModel/C08.lean; theorems: lean/AioProps/C08.lean.

A consumer coroutine is driven by hand (`coro.send(None)`): it either finishes, raises, or
yields its waiter future (= blocked).  `w` resumes it once the future is resolved — this is
what the event loop would do, made an explicit, schedulable operation.
"""
import asyncio, itertools, sys
from .common.codec import hx

PROPERTY = "C08"
LEAN_MODULES = ["AioProps.C08"]
THEOREMS = [
    "Aio.C08.chunk_constants_ok",
    "Aio.C08.inv_exec",
    "Aio.C08.delivered_is_output",
    "Aio.C08.conservation",
    "Aio.C08.delivered_exact",
    "Aio.C08.delivered_prefix_of_fed",
    "Aio.C08.blocked_only_on_empty_buffer",
    "Aio.C08.eof_last_partial",
    "Aio.C08.readchunk_boundary_sound",
    "Aio.C08.splits_sorted_in_range",
    "Aio.C08.reading_implies_bounded",
    "Aio.C08.feed_pauses_above_high_water",
    "Aio.C08.endchunk_pauses_above_chunk_high_water",
    "Aio.C08.rnc_resumes_iff_below_low_water",
    "Aio.C08.no_stuck_pause",
    "Aio.C08.limit_zero_wedges",
    "Aio.C08.feed_eof_unpauses",
    "Aio.C08.exception_raised_by_started_reads",
    "Aio.C08.resumed_read_clean_end_after_exception",
    "Aio.C08.resumed_read_reparks_with_exception",
    "Aio.C08.resumed_reads_raise",
    "Aio.C08.no_block_with_exception",
    "Aio.C08.blocked_implies_no_exception",
]
RULE = ("operation sequences over producer ops {feed_data (sizes 0,1,2,3 and limit-1..2*limit+1), begin/end http chunk, "
        "feed_eof, set_exception, connection lost} interleaved with consumer ops {read(n), read(-1), readany, readline/"
        "readuntil (1- and 2-byte separators, max sizes), readexactly, readchunk, read_nowait, the four async iterators, "
        "set_read_chunk_size, resume-of-parked-coroutine}, limits 1..128 (chunk-count water marks 4..8); random "
        "sequences of length <= 60 from seven generator classes (mixed, chunked+readchunk, pure readchunk, chunked+mixed readers, "
        "line-oriented, flow-control boundary, error/eof heavy) plus a deterministic sweep of every water mark +-1 (bytes and chunk counts, limits 1..80, 1024 and the default 65536) and two systematic families: set_exception/feed_eof orderings x every read API x buffered content x started/resumed, and feed_eof arriving while paused for each reason (bytes, chunk count, between the marks) with the body unread and a next reader probed on the same protocol; thorough adds all sequences of length <= 5 over two 12-op alphabets (limit 1 and 2 / limit 1), quick samples 2500 of length <= 4; limit 0 is generated too (known wedge, own signature). "
        "A case is non-trivial when at least one byte is delivered or a reader blocks; distinct by content. "
        "Server-connection class: the real web.Server protocol over an in-memory transport that honours pause_reading(): 0..35 pipelined GETs + a POST "
        "whose body (sizes around the water marks of read_bufsize 16/64/256) arrives in segments, handlers released in batches, the POST "
        "handler reading nothing/part/all; 35% of the cases force both pause reasons (full request queue and body above high water) at once; a second family sends bodies several times the high-water mark in one read as many HTTP chunks and/or gzip/deflate-coded (the payload parser keeps input back while paused and refills the stream from inside resume_reading()), drained by the handler in steps below the low-water mark with the oracle evaluated after every read. Client-connection class: the same through the real client_proto.ResponseHandler + HttpResponseParser (chunked / Content-Length / close-delimited, identity/gzip/deflate, application reading before or after the first delivery). Cancel-then-reuse family: every read API parked, cancelled (pending / woken by data / woken by a chunk end), stream used again.")
TRUSTED_BASE = [
    "the client-connection class (client_proto.ResponseHandler + HttpResponseParser) and the cancel-then-reuse family (task cancellation of a parked read) are judged by the direct oracle only; neither is part of the Lean model",
    "the server-connection class (web_protocol.RequestHandler: request-queue pause + body-stream pause on one transport) is not modelled in Lean: it is judged by the direct oracle only (transport reading => body stream <= high water; blocked handler => transport not paused; exact delivery), on the real web.Server protocol",
    "the entry check of StreamReader._wait() (raise a recorded exception before parking) is not a model flag: blocked_implies_no_exception proves it unreachable without re-entrant feeding once the wake-up re-check is present",
    "behaviour flag waitRechecksException (does _wait() re-check _exception after a regular wake-up) is probed behaviourally from the imported source on every run and written to Generated/C08.lean; the model is parametric in it and every theorem is proved for both values (the findings C08-K2..K9 are proved counterexamples for false, resumed_reads_raise / no_block_with_exception the positive statements for true)",
    "the hand-written Lean model of StreamReader/BaseProtocol pause-resume (tied to the code by the correspondence run only)",
    "re-entrant feeding from inside resume_reading() (BaseProtocol.data_received(b'') with a paused parser) is not modelled: the protocol under test has no pending parser input",
    "one consumer coroutine at a time (the class documents concurrent readers as unsupported); cancellation of a parked reader and the deprecated unread_data() are not modelled",
    "the _on_chunk_received trace hook and the timer context are absent (None / TimerNoop)",
    "model loops carry a fuel bound; exhaustion would print MODEL-FUEL and be a correspondence mismatch",
]
ASSUMPTIONS = [
    "a set_exception() that arrives before feed_eof means the stream is truncated: any later end-of-stream report is judged a violation (clean-end-after-exception); set_exception after feed_eof is not (all data had arrived)",
    "begin/end chunk markers after feed_eof are producer misuse: the after-eof clauses (transport not paused, next-reader probe) are not applied to such sequences",
    "limit >= 1 for no_stuck_pause (limit = 0 wedges: proved counterexample limit_zero_wedges, reproduced on the real code)",
    "bytes taken by a call that then raises (LineTooLong, the installed exception, 'Connection closed') are not counted as lost by the oracle: an error ends exact delivery for that call",
]


def _probe_wait_rechecks(loop):
    """behavioural probe of `StreamReader._wait()`: park read(2) on an empty buffer, wake it with a chunk end
    that brings no data, record an exception before it runs, resume it: does it raise that exception?"""
    from aiohttp.streams import StreamReader
    from aiohttp.base_protocol import BaseProtocol

    class P(Exception):
        pass
    proto = BaseProtocol(loop, parser=_Parser())
    proto.transport = Transport()
    sr = StreamReader(proto, 8, loop=loop)
    sr.begin_http_chunk_receiving()
    sr.feed_data(b"x")
    assert sr.read_nowait(-1) == b"x"
    c = sr.read(2)
    fut = c.send(None)                 # parked
    sr.end_http_chunk_receiving()      # wakes it, no data
    assert fut.done()
    sr.set_exception(P())
    try:
        c.send(None)                   # parks again (old behaviour)
        c.close()
        return False
    except P:
        return True
    except StopIteration:
        return False


def generate(repo):
    from aiohttp.streams import StreamReader
    from aiohttp.base_protocol import BaseProtocol
    loop = asyncio.new_event_loop()
    try:
        def mk(limit):
            return StreamReader(BaseProtocol(loop), limit, loop=loop)
        floor = mk(0)._high_water_chunks
        big = 1 << 20
        hb = mk(big)._high_water_chunks
        div = big // hb if hb else 0
        low_div = hb // mk(big)._low_water_chunks if mk(big)._low_water_chunks else 0
        high_mul = mk(big)._high_water // big
        recheck = _probe_wait_rechecks(loop)
    finally:
        loop.close()
    return {"AioModel/Generated/C08.lean":
            "-- GENERATED by harness/c08.py from the imported aiohttp.streams / sys — do not edit\n"
            "namespace Aio.Gen.C08\n"
            "/-- `sys.maxsize` (argument of `set_read_chunk_size` in `read(-1)`) -/\n"
            f"def maxsize : Nat := {sys.maxsize}\n"
            "/-- `StreamReader(limit=0)._high_water_chunks` (the `max(4, …)` floor) -/\n"
            f"def chunkFloor : Nat := {floor}\n"
            "/-- divisor `d` with `_high_water_chunks = max(floor, limit // d)` -/\n"
            f"def chunkDiv : Nat := {div}\n"
            "/-- `_high_water_chunks // _low_water_chunks` ratio denominator (low = high // lowDiv) -/\n"
            f"def lowDiv : Nat := {low_div}\n"
            "/-- `_high_water = limit * highMul` -/\n"
            f"def highMul : Nat := {high_mul}\n"
            "/-- probe: a reader parked in read(), woken by end_http_chunk_receiving(), with set_exception() called\n"
            "before it resumes, raises that exception (i.e. `_wait()` re-checks `self._exception`) -/\n"
            f"def waitRechecksException : Bool := {'true' if recheck else 'false'}\n"
            "end Aio.Gen.C08\n"}


# ------------------------------------------------------------------ implementation runner
class Exc(Exception):
    def __init__(self, i):
        super().__init__(i); self.id = i


class Transport:
    def __init__(self):
        self.calls = []; self.paused = False
    def pause_reading(self):
        self.calls.append("P"); self.paused = True
    def resume_reading(self):
        self.calls.append("R"); self.paused = False


class _Parser:
    def pause_reading(self):
        pass


_LOOP = None


def _loop():
    global _LOOP
    if _LOOP is None:
        _LOOP = asyncio.new_event_loop()
    return _LOOP


def tok(op):
    k = op[0]
    if k == "F": return "F|" + hx(op[1])
    if k in ("B", "E", "Z", "D", "w", "k"): return k
    if k == "X": return f"X|{op[1]}"
    if k == "s": return f"s|{op[1]}"
    if k == "r": return f"r|{'all' if op[1] is None else op[1]}|{op[2]}"
    if k == "a": return f"a|{op[1]}"
    if k == "u": return f"u|{hx(op[1])}|{op[2]}|{op[3]}"
    if k == "x": return f"x|{op[1]}"
    if k == "c": return f"c|{op[1]}"
    if k == "n": return f"n|{'all' if op[1] is None else op[1]}"
    raise ValueError(op)


def untok(t):
    p = t.split("|")
    k = p[0]
    def n(x): return None if x == "all" else int(x)
    if k == "F": return ("F", b"" if p[1] == "-" else bytes.fromhex(p[1]))
    if k in ("B", "E", "Z", "D", "w", "k"): return (k,)
    if k in ("X", "s", "x"): return (k, int(p[1]))
    if k == "r": return ("r", n(p[1]), int(p[2]))
    if k in ("a", "c"): return (k, int(p[1]))
    if k == "u": return ("u", b"" if p[1] == "-" else bytes.fromhex(p[1]), int(p[2]), int(p[3]))
    if k == "n": return ("n", n(p[1]))
    raise ValueError(t)


CONSUMER_START = ("r", "a", "u", "x", "c")


class Impl:
    """the real StreamReader + BaseProtocol, one step at a time"""

    def __init__(self, limit):
        from aiohttp.streams import StreamReader
        from aiohttp.base_protocol import BaseProtocol
        loop = _loop()
        self.tr = Transport()
        self.proto = BaseProtocol(loop, parser=_Parser())
        self.proto.transport = self.tr
        self.sr = StreamReader(self.proto, limit, loop=loop)
        self.coro = None      # parked consumer coroutine
        self.fut = None
        self.kind = None      # op that started the parked coroutine

    def init_proj(self):
        sr = self.sr
        return f"init;{sr._low_water};{sr._high_water};{sr._low_water_chunks};{sr._high_water_chunks}"

    def _drive(self, coro, op):
        from aiohttp.http_exceptions import LineTooLong
        try:
            fut = coro.send(None)
        except StopIteration as e:
            self.coro = self.fut = self.kind = None
            v = e.value
            if isinstance(v, tuple):
                return ("chunk", bytes(v[0]), bool(v[1]))
            return ("data", bytes(v))
        except StopAsyncIteration:
            self.coro = self.fut = self.kind = None
            return ("stop",)
        except BaseException as e:  # noqa
            self.coro = self.fut = self.kind = None
            return self._err(e)
        self.coro, self.fut, self.kind = coro, fut, op
        return ("blocked",)

    @staticmethod
    def _err(e):
        from aiohttp.http_exceptions import LineTooLong
        if isinstance(e, Exc): return ("err", f"exc{e.id}")
        if isinstance(e, asyncio.IncompleteReadError): return ("incomplete", bytes(e.partial), e.expected)
        if isinstance(e, LineTooLong): return ("err", "linetoolong")
        if isinstance(e, RuntimeError): return ("err", "runtime")
        if isinstance(e, AssertionError): return ("err", "assertion")
        if isinstance(e, ValueError): return ("err", "value")
        return ("err", f"E_OTHER({type(e).__name__})")

    def step(self, op):
        sr = self.sr
        self.tr.calls = []
        k = op[0]
        try:
            if k == "F":
                sr.feed_data(op[1]); out = ("ok",)
            elif k == "B":
                sr.begin_http_chunk_receiving(); out = ("ok",)
            elif k == "E":
                sr.end_http_chunk_receiving(); out = ("ok",)
            elif k == "Z":
                sr.feed_eof(); out = ("ok",)
            elif k == "X":
                sr.set_exception(Exc(op[1])); out = ("ok",)
            elif k == "D":
                self.proto.transport = None; out = ("ok",)
            elif k == "s":
                sr.set_read_chunk_size(op[1]); out = ("ok",)
            elif k == "n" and self.coro is not None and self.fut.done():
                out = ("bad",)
            elif k == "n":
                out = ("data", bytes(sr.read_nowait(-1 if op[1] is None else op[1])))
            elif k == "k":
                # the task running the parked read is cancelled (harness-only op: not part of the Lean model)
                if self.coro is None:
                    out = ("bad",)
                else:
                    c = self.coro
                    self.coro = self.fut = self.kind = None
                    try:
                        c.throw(asyncio.CancelledError())
                        out = ("err", "cancel-swallowed")
                        c.close()
                    except asyncio.CancelledError:
                        out = ("err", "cancelled")
                    except StopIteration:
                        out = ("err", "cancel-swallowed")
            elif k == "w":
                if self.coro is None or not self.fut.done():
                    out = ("bad",)
                else:
                    out = self._drive(self.coro, self.kind)
            elif k in CONSUMER_START:
                if self.coro is not None:
                    out = ("bad",)
                else:
                    if k == "r":
                        n = -1 if op[1] is None else op[1]
                        c = sr.iter_chunked(n).__anext__() if op[2] else sr.read(n)
                    elif k == "a":
                        c = sr.iter_any().__anext__() if op[1] else sr.readany()
                    elif k == "u":
                        if op[3]:
                            c = sr.__aiter__().__anext__()
                        elif op[1] == b"\n":
                            c = sr.readline(max_line_length=op[2] or None)
                        else:
                            c = sr.readuntil(op[1], max_size=op[2] or None)
                    elif k == "x":
                        c = sr.readexactly(op[1])
                    else:
                        c = sr.iter_chunks().__anext__() if op[1] else sr.readchunk()
                    out = self._drive(c, op)
            else:
                raise ValueError(op)
        except BaseException as e:  # noqa
            out = self._err(e)
        return out

    def close(self):
        if self.coro is not None:
            if self.fut is not None and self.fut.done() and not self.fut.cancelled():
                self.fut.exception()
            try:
                self.coro.close()
            except BaseException:  # noqa
                pass
            self.coro = None

    def proj(self, out):
        sr = self.sr
        if out[0] == "data": o = "data:" + hx(out[1])
        elif out[0] == "chunk": o = f"chunk:{hx(out[1])}:{'1' if out[2] else '0'}"
        elif out[0] == "err": o = "err:" + out[1]
        elif out[0] == "incomplete": o = f"incomplete:{hx(out[1])}:{out[2]}"
        else: o = out[0]
        sp = sr._http_chunk_splits
        sps = "none" if sp is None else ("-" if not sp else ",".join(str(x) for x in sp))
        return ";".join([o, "".join(self.tr.calls) or "-", str(sr._size), str(sr._cursor), str(sr.total_bytes),
                         "1" if self.proto._reading_paused else "0", "1" if self.tr.paused else "0",
                         str(len(sr._buffer)), str(sr._buffer_offset), sps, str(sr._low_water), str(sr._high_water),
                         "1" if sr._waiter is not None else "0", "1" if sr._eof else "0"])


# ------------------------------------------------------------------ direct oracle
class Oracle:
    """The property evaluated on the implementation alone (python twin of the Lean *specification*:
    fed/delivered byte strings, sender boundaries, water marks).  Uses only: values returned by the
    public methods, pause/resume calls on the transport, get_read_buffer_limits(), the configured
    chunk water marks, and `_cursor` to re-synchronise after a call that raised."""

    def __init__(self, impl, case):
        self.im, self.case = impl, case
        self.fed = bytearray()
        self.pos = 0                 # bytes accounted for (delivered, or dropped by a raising call)
        self.eof = False
        self.bounds = set()          # sender boundaries: total fed at each end-of-chunk (chunked mode)
        self.chunked = False
        self.reported = set()
        self.pure_readchunk = True
        self.connected = True
        self.exc_before_eof = False  # set_exception() arrived while the stream had not ended: it is truncated
        self.marker_after_eof = False  # begin/end chunk after feed_eof: producer misuse, after-eof clauses do not apply
        self.resumed = False         # the outcome being judged comes from a resumed (previously parked) call
        self.paused_at_low0 = False  # the current pause began / persisted while the low-water mark was 0
        self.blocked_with_exc = 0    # observation only (not a clause of the property): steps after which a reader
                                     # is parked on a pending future although an exception is recorded
        self.violations = []

    def v(self, sig, detail):
        self.violations.append((sig, detail))

    def deliver(self, data, where):
        exp = bytes(self.fed[self.pos:self.pos + len(data)])
        if data != exp:
            if bytes(self.fed[:self.pos][-len(data):]) == data and data:
                kind = "duplicated"
            elif data and data in bytes(self.fed[self.pos:]):
                kind = "skipped"
            elif len(exp) < len(data):
                kind = "more-than-fed"
            else:
                kind = "reordered-or-corrupt"
            self.v(f"C08/delivery/{kind}/{where}", f"at offset {self.pos}: returned {data[:24]!r}, fed {exp[:24]!r}")
        self.pos += len(data)

    def eof_report(self, where):
        if self.exc_before_eof:
            # an error was recorded before the stream ended: not all data arrived, so no read call may
            # report a regular end of stream — it has to raise the recorded exception
            how = "resumed" if self.resumed else "started"
            self.v(f"C08/eof/clean-end-after-exception/{where}/{how}",
                   f"end of stream reported at offset {self.pos} although set_exception() preceded "
                   f"{'feed_eof' if self.eof else 'any feed_eof'}; the error was not raised")
            return
        if not self.eof:
            self.v(f"C08/eof/reported-before-feed_eof/{where}", f"end of stream reported at offset {self.pos} without feed_eof")
        elif self.pos != len(self.fed):
            self.v(f"C08/eof/reported-before-all-data/{where}",
                   f"end of stream reported at offset {self.pos} of {len(self.fed)}")

    def after(self, i, op, out):
        im, sr = self.im, self.im.sr
        k = op[0]
        limit0 = self.case["limit"] == 0
        if k == "F" and out == ("ok",) and not self.eof:
            self.fed += op[1]
        elif k == "B" and out == ("ok",):
            self.chunked = True
        elif k == "E" and out == ("ok",) and self.chunked:
            self.bounds.add(len(self.fed))
        elif k == "Z":
            self.eof = True
            # at end of stream nothing may stay paused: the next reader on this connection would block on
            # an empty buffer with the transport paused
            if self.connected and im.tr.paused and not limit0:
                buffered = len(self.fed) - max(self.pos, sr._cursor)
                low, high = sr.get_read_buffer_limits()
                why = ("bytes-above-high-water" if buffered > high else
                       "chunk-count" if self.chunked and len([b for b in self.bounds if b > max(self.pos, sr._cursor)]) >= sr._low_water_chunks
                       else "between-water-marks")
                self.v(f"C08/backpressure/paused-after-eof/{why}",
                       f"feed_eof() left the transport paused ({buffered} bytes buffered, low {low} / high {high})")
        elif k == "D":
            self.connected = False
        elif k == "X" and out == ("ok",) and not self.eof:
            self.exc_before_eof = True
        if k in ("B", "E") and self.eof:
            self.marker_after_eof = True
        self.resumed = (k == "w")
        consumer = k in CONSUMER_START or k in ("n", "w", "k")
        if consumer and out[0] not in ("bad", "blocked"):
            pos0 = self.pos
            name = {"r": "read", "a": "readany", "u": "readuntil", "x": "readexactly", "c": "readchunk",
                    "n": "read_nowait"}[op[0] if k not in ("w", "k") else self._wk]
            sk = op if k not in ("w", "k") else self._wop
            if sk[0] != "c" and out[0] in ("data", "incomplete", "stop", "chunk"):
                self.pure_readchunk = False
            if out[0] == "data":
                self.deliver(out[1], name)
                d = out[1]
                if sk[0] == "r" and sk[1] is None:
                    self.eof_report("read-all")
                elif sk[0] == "r" and sk[1] and not d: self.eof_report(name)
                elif sk[0] == "r" and sk[1] and len(d) > sk[1]:
                    self.v("C08/delivery/more-than-asked/read", f"read({sk[1]}) returned {len(d)} bytes")
                elif sk[0] == "a" and not d: self.eof_report(name)
                elif sk[0] == "u" and not d.endswith(sk[1]): self.eof_report(name)
                elif sk[0] == "u" and d.count(sk[1]) != 1 and len(sk[1]) == 1:
                    self.v("C08/delivery/line-spans-separator/readuntil", f"returned {d[:24]!r}")
                elif sk[0] == "x" and len(d) != sk[1]:
                    self.v("C08/delivery/readexactly-wrong-length/readexactly", f"asked {sk[1]} got {len(d)}")
                elif sk[0] == "n" and sk[1] is not None and len(d) > sk[1]:
                    self.v("C08/delivery/more-than-asked/read_nowait", f"read_nowait({sk[1]}) returned {len(d)} bytes")
            elif out[0] == "incomplete":
                self.deliver(out[1], name); self.eof_report(name)
            elif out[0] == "stop":
                if not (sk[0] == "r" and sk[1] == 0):     # iter_chunked(0) stops at once: read(0) is b""
                    self.eof_report(name + "-iter")
            elif out[0] == "chunk":
                self.deliver(out[1], name)
                if out[2]:
                    self.reported.add(self.pos)
                    if self.pos not in self.bounds:
                        self.v("C08/readchunk/boundary-not-senders", f"end_of_chunk=True at offset {self.pos}, sender boundaries {sorted(self.bounds)}")
                elif not out[1]:
                    self.eof_report(name)
                crossed = [b for b in self.bounds if pos0 < b < self.pos]
                if crossed:
                    self.v("C08/readchunk/crossed-boundary", f"returned [{pos0},{self.pos}) across sender boundary {crossed[0]}")
            elif out[0] == "err":
                if out[1] == "runtime" and self.connected and im.coro is None and k != "k":
                    # RuntimeError is how the reader refuses a call: legitimate only for a second concurrent
                    # reader or a lost connection — neither is the case here, so the bytes cannot be delivered
                    self.v(f"C08/delivery/read-refused-without-concurrent-reader/{name}",
                           f"step {i} ({tok(op)}): RuntimeError although no other read call is pending and the connection is up")
                # a raising call may have taken bytes it never returned: re-synchronise
                # (not when another call is parked: that one still holds the bytes it took)
                if im.coro is None:
                    if sr._cursor < self.pos:
                        self.v("C08/delivery/cursor-behind", f"_cursor {sr._cursor} < delivered {self.pos}")
                    self.pos = max(self.pos, sr._cursor)
                self.pure_readchunk = False
            took = self.pos - pos0
            # resumed when drained below the low-water mark
            if took > 0 and self.connected and not limit0:
                low, high = sr.get_read_buffer_limits()
                buffered = len(self.fed) - self.pos
                pending = len([b for b in self.bounds if b >= self.pos]) if self.chunked else 0
                if buffered < low and pending < sr._low_water_chunks and im.tr.paused:
                    self.v("C08/backpressure/not-resumed-below-low-water",
                           f"buffered {buffered} < low {low}, pending chunks {pending}, transport still paused after {name}")
        if k in CONSUMER_START and out[0] == "blocked":
            self._wk, self._wop = op[0], op
        # paused when above the high-water mark
        if self.connected and not self.eof:
            low, high = sr.get_read_buffer_limits()
            if k == "F" and out == ("ok",) and op[1]:
                # bytes held by a parked accumulating call are not in the buffer: use the public lower bound
                b = len(self.fed) - max(self.pos, sr._cursor)
                if b > high and not im.tr.paused:
                    self.v("C08/backpressure/not-paused-above-high-water", f"buffered {b} > high {high}, transport not paused after feed_data")
            if k == "E" and out == ("ok",) and self.chunked:
                pend = len([b for b in self.bounds if b > max(self.pos, sr._cursor)])
                if pend > sr._high_water_chunks and not im.tr.paused:
                    self.v("C08/backpressure/not-paused-above-chunk-high-water", f"{pend} pending chunks > {sr._high_water_chunks}, transport not paused")
        # the public predicates an application polls (`while not content.at_eof()`, is_eof(), total_bytes)
        try:
            at_eof, is_eof = sr.at_eof(), sr.is_eof()
        except BaseException as e:  # noqa
            at_eof = is_eof = None
            self.v("C08/eof/predicate-raised", repr(e)[:60])
        if is_eof is not None and bool(is_eof) != self.eof:
            self.v("C08/eof/is_eof-disagrees-with-feed_eof", f"is_eof()={is_eof} after feed_eof={'yes' if self.eof else 'no'}")
        if at_eof:
            if not self.eof:
                self.v("C08/eof/at_eof-before-feed_eof", f"at_eof() is true at offset {self.pos} without feed_eof")
            elif max(self.pos, sr._cursor) != len(self.fed):
                self.v("C08/eof/at_eof-before-all-data",
                       f"at_eof() is true with {len(self.fed) - max(self.pos, sr._cursor)} fed bytes not yet taken")
        elif self.eof and at_eof is not None and max(self.pos, sr._cursor) == len(self.fed) and im.coro is None:
            self.v("C08/eof/at_eof-false-after-all-data", "everything fed was delivered and feed_eof was called, at_eof() is false")
        if sr.total_bytes != len(self.fed):
            self.v("C08/delivery/total_bytes-differs-from-fed", f"total_bytes {sr.total_bytes}, fed {len(self.fed)}")
        if im.coro is not None and not im.fut.done() and sr._exception is not None:
            self.blocked_with_exc += 1
        if not im.tr.paused:
            self.paused_at_low0 = False
        elif sr.get_read_buffer_limits()[0] == 0:
            self.paused_at_low0 = True
        # a reader blocked on an empty buffer is never left with the transport paused
        if im.coro is not None and not im.fut.done() and self.connected:
            if im.tr.paused:
                # the known wedge is: limit 0 AND this pause dates from a moment when the low-water mark was 0
                # (nothing can be "below" it); a pause that arose after a read(n) raised the marks is judged normally
                zero = limit0 and self.paused_at_low0
                sig = "C08/stuck-pause/limit-zero" if zero else "C08/stuck-pause/reader-blocked-transport-paused"
                self.v(sig, f"step {i} ({tok(op)}): reader parked in {tok(im.kind)}, transport paused, limits {sr.get_read_buffer_limits()}")

    def next_reader_probe(self):
        """keep-alive continuation: the message ended (feed_eof) with its body not necessarily read; the
        reader of the NEXT message on the same protocol must not block with the transport paused, and must
        get its data"""
        im = self.im
        if not (self.eof and self.connected and im.coro is None) or self.marker_after_eof or self.case["limit"] == 0:
            return
        from aiohttp.streams import StreamReader
        r2 = StreamReader(im.proto, self.case["limit"], loop=_loop())
        c = r2.readany()
        try:
            fut = c.send(None)
        except BaseException as e:  # noqa
            self.v("C08/next-reader/did-not-block", repr(e)[:60])
            return
        try:
            if im.tr.paused:
                self.v("C08/stuck-pause/next-reader-blocked-transport-paused",
                       f"after feed_eof() with {len(self.fed) - self.pos} bytes of the old body unread, the next reader "
                       f"on the same protocol parks on its empty buffer while the transport is paused "
                       f"(_reading_paused={im.proto._reading_paused})")
                return
            r2.feed_data(b"nx")
            if not fut.done():
                self.v("C08/next-reader/not-woken", "feed_data did not wake the next reader")
                return
            try:
                c.send(None)
                self.v("C08/next-reader/blocked-again", "next reader parked again with data buffered")
            except StopIteration as e:
                if bytes(e.value) != b"nx":
                    self.v("C08/next-reader/wrong-data", repr(e.value)[:40])
        finally:
            c.close()

    def finish(self):
        """no loss at the end: what is still buffered is exactly the undelivered rest"""
        im, sr = self.im, self.im.sr
        self.next_reader_probe()
        held = b""
        if im.coro is not None:
            # bytes accumulated inside the parked call are neither delivered nor buffered; they are
            # fed[pos:_cursor]
            held = bytes(self.fed[self.pos:sr._cursor])
        rest = b"".join(sr._buffer)[sr._buffer_offset:]
        if sr._exception is None and im.coro is None:
            try:
                rest = sr.read_nowait(-1)
            except BaseException as e:  # noqa
                self.v("C08/delivery/final-drain-raised", repr(e)[:60])
        exp = bytes(self.fed[self.pos:])
        if held + rest != exp:
            kind = "lost" if len(held + rest) < len(exp) else "surplus-or-corrupt"
            self.v(f"C08/delivery/{kind}/final-drain", f"undelivered rest {exp[:24]!r} ({len(exp)}), buffer holds {(held + rest)[:24]!r} ({len(held + rest)})")
        if self.pure_readchunk and self.chunked:
            missed = [b for b in self.bounds if 0 < b < self.pos and b not in self.reported]
            if missed:
                self.v("C08/readchunk/boundary-not-reported", f"sender boundary {missed[0]} passed without end_of_chunk=True (pure readchunk consumer)")


def run_case(case, with_oracle=True):
    """returns (impl projections joined, oracle violations)"""
    ops = [untok(t) for t in case["ops"]]
    im = Impl(case["limit"])
    orc = Oracle(im, case) if with_oracle else None
    projs = [im.init_proj()]
    try:
        for i, op in enumerate(ops):
            out = im.step(op)
            projs.append(im.proj(out))
            if orc:
                orc.after(i, op, out)
        if orc:
            orc.finish()
    finally:
        im.close()
    if orc and orc.blocked_with_exc:
        run_case.blocked_with_exc = getattr(run_case, "blocked_with_exc", 0) + 1
    return " ".join(projs), (orc.violations if orc else [])


# ------------------------------------------------------------------ generators
def data_at(rng, t, k, nl=0.18):
    return bytes(10 if rng.random() < nl else 65 + ((t + j) % 57) for j in range(k))


class Gen:
    """adaptive random generator: mirrors only what a caller of the API knows (bytes fed so far,
    whether its coroutine is parked and its future resolved)"""

    def __init__(self, rng, limit, profile):
        self.rng, self.limit, self.profile = rng, limit, profile

    def sizes(self):
        L = self.limit
        return [0, 1, 1, 2, 3, max(L - 1, 0), L, L + 1, 2 * L - 1 if L else 0, 2 * L, 2 * L + 1]

    def producer(self, st):
        r, p = self.rng, self.profile
        x = r.random()
        if p == "chunked":
            if x < 0.30: return ("B",)
            if x < 0.62: return ("F", data_at(r, st["t"], r.choice([0, 1, 1, 2, 3])))
            if x < 0.94: return ("E",)
            if x < 0.98: return ("Z",)
            return ("X", r.randint(1, 3))
        if p == "errors":
            if x < 0.45: return ("F", data_at(r, st["t"], r.choice(self.sizes())))
            if x < 0.60: return ("Z",)
            if x < 0.75: return ("X", r.randint(1, 3))
            if x < 0.85: return ("D",)
            if x < 0.92: return ("B",)
            return ("E",)
        if x < 0.70 or (p == "flow" and x < 0.86):
            return ("F", data_at(r, st["t"], r.choice(self.sizes()), 0.35 if p == "lines" else 0.15))
        if x < 0.78: return ("B",)
        if x < 0.88: return ("E",)
        if x < 0.95: return ("Z",)
        if x < 0.98: return ("X", r.randint(1, 3))
        return ("D",)

    def consumer(self):
        r, p, L = self.rng, self.profile, self.limit
        ns = [0, 1, 2, 3, L, L + 1, 2 * L + 1, 5]
        x = r.random()
        it = 1 if r.random() < 0.2 else 0
        if p == "chunked":
            if x < 0.80: return ("c", it)
            if x < 0.88: return ("n", r.choice([None, 1, 2]))
            if x < 0.94: return ("r", r.choice([1, 2, None]), 0)
            return ("a", 0)
        if p == "purechunk":
            return ("c", 0)
        if p == "lines":
            if x < 0.55: return ("u", b"\n", 0 if it else r.choice([0, 0, 1, 3, 100]), it)
            if x < 0.75: return ("u", r.choice([b"AB", b"\n\n", b"C", b""]), r.choice([0, 2, 100]), 0)
            if x < 0.85: return ("x", r.choice(ns))
            return ("r", r.choice(ns), 0)
        if x < 0.22: return ("r", r.choice(ns), it)
        if x < 0.27: return ("r", None, 0)
        if x < 0.40: return ("a", it)
        if x < 0.52: return ("u", b"\n", 0 if it else r.choice([0, 1, 3, 100]), it)
        if x < 0.62: return ("x", r.choice(ns))
        if x < 0.76: return ("c", it)
        if x < 0.92: return ("n", r.choice([None, 0, 1, 2, L, L + 1]))
        return ("s", r.choice([1, L, L + 1, 3 * L, 7]))


def gen_sequence(rng, limit, profile, maxlen=40):
    """generate adaptively against a scratch implementation instance (needed to know whether a
    reader is parked); returns the token list"""
    g = Gen(rng, limit, "chunked" if profile in ("purechunk", "chunkmix") else profile)
    gc = Gen(rng, limit, "mixed" if profile == "chunkmix" else profile)
    im = Impl(limit)
    st = {"t": 0}
    toks = []
    n = rng.randint(3, maxlen)
    try:
        for _ in range(n):
            parked = im.coro is not None
            x = rng.random()
            if parked and im.fut.done() and x < 0.6:
                op = ("w",)
            elif parked and x < 0.12:
                op = rng.choice([("n", None), ("n", 1), ("s", limit + 1), ("w",), gc.consumer()])
            elif parked or x < (0.5 if profile != "flow" else 0.62):
                op = g.producer(st)
                if profile == "purechunk" and op[0] == "X": op = ("E",)
            else:
                op = gc.consumer()
            out = im.step(op)
            if op[0] == "F" and out == ("ok",):
                st["t"] += len(op[1])
            toks.append(tok(op))
    finally:
        im.close()
    return toks


ALPHA = [("F", b"a"), ("F", b"b\nc"), ("B",), ("E",), ("Z",), ("X", 1),
         ("r", 2, 0), ("a", 0), ("u", b"\n", 0, 0), ("c", 0), ("n", None), ("w",)]
ALPHA2 = [("F", b""), ("F", b"ab\n"), ("E",), ("Z",), ("D",), ("r", None, 0), ("x", 3), ("c", 1), ("u", b"\n", 0, 1),
          ("n", 1), ("s", 3), ("w",)]

DIRECTED = [
    # wedge at limit 0 (finding): one byte fed, read by readany, next readany parks with the transport paused
    {"limit": 0, "ops": ["F|6162", "a|0", "a|0"]},
    # chunk-count back-pressure: 5 one-byte chunks pause at limit 1 (high_water_chunks 4), readchunk drains
    {"limit": 64, "ops": ["B"] + ["F|61", "E"] * 6 + ["c|0"] * 7},
    # empty chunk after the deque was consumed re-reports the boundary
    {"limit": 4, "ops": ["B", "F|6162", "E", "c|0", "B", "E", "c|0", "c|0"]},
    # readuntil woken by data, exception set before it resumes: parks again
    {"limit": 4, "ops": ["u|0a|0|0", "F|6162", "X|1", "w", "F|0a", "w"]},
    # read(-1) accumulates across parks
    {"limit": 2, "ops": ["r|all|0", "F|616263", "w", "F|64", "w", "Z", "w"]},
    # readexactly across feeds, then incomplete
    {"limit": 2, "ops": ["x|5", "F|6162", "w", "F|63", "w", "Z", "w"]},
    # end of stream while paused by the chunk count (5 one-byte chunks, limit 16) / inside the water-mark band
    {"limit": 16, "ops": ["B"] + ["F|61", "E"] * 5 + ["Z"]},
    {"limit": 10, "ops": ["F|" + "61" * 25, "r|10|0", "Z"]},
    {"limit": 10, "ops": ["F|" + "61" * 25, "Z"]},
    # error recorded, then end of stream: every read API has to raise, never a clean end
    {"limit": 8, "ops": ["F|616263", "X|1", "Z", "c|0", "c|0"]},
    {"limit": 8, "ops": ["B", "F|6162", "E", "F|63", "X|1", "Z", "c|1", "c|1", "c|1"]},
    {"limit": 8, "ops": ["X|1", "Z", "c|0"]},
    # two-byte separator split across buffers is not recognised
    {"limit": 8, "ops": ["F|610d", "F|0a62", "u|0d0a|0|0", "Z", "w"]},
]


def all_small(alpha, n):
    for k in range(1, n + 1):
        for p in itertools.product(alpha, repeat=k):
            yield [tok(o) for o in p]


READ_APIS = [("r", 2, 0), ("r", None, 0), ("r", 2, 1), ("a", 0), ("a", 1), ("u", b"\n", 0, 0), ("u", b"\n", 0, 1),
             ("u", b"AB", 0, 0), ("x", 2), ("x", 9), ("c", 0), ("c", 1)]


def exc_eof_cases():
    """exception-versus-eof ordering, exhaustively small: every read API x {nothing, data, data with chunk
    boundaries, a line} buffered x {X Z, Z X, X alone, X F Z} x {call started afterwards, call parked before
    and resumed afterwards (woken by data / by a chunk end / by the exception itself)}"""
    pre = {"empty": [], "data": ["F|616263"], "line": ["F|610a62"], "chunks": ["B", "F|6162", "E", "F|63"],
           "chunk-end": ["B", "F|6162", "E"]}
    orders = {"XZ": ["X|1", "Z"], "ZX": ["Z", "X|1"], "X": ["X|1"], "XXZ": ["X|1", "X|2", "Z"]}
    for api in READ_APIS:
        a = tok(api)
        for pn, p in pre.items():
            for on, o in orders.items():
                # started after the producer sequence; twice (data first, then the end)
                yield {"limit": 8, "ops": p + o + [a, a, a], "gen": "exc-eof"}
                # parked first on an empty buffer, woken by the exception / the eof
                yield {"limit": 8, "ops": [a] + p + o + ["w", a], "gen": "exc-eof"}
                # parked, woken regularly by data or by a chunk end, and only then the error and the end
                yield {"limit": 8, "ops": ["B", "F|78", "a|0", a, "E"] + o + ["w", "w", a], "gen": "exc-eof"}
                yield {"limit": 8, "ops": [a, "F|79"] + o + ["w", "w", a], "gen": "exc-eof"}


def eof_paused_cases(rng, n):
    """end of stream arriving while reading is paused for each of the three reasons (bytes above high water,
    chunk count, partially drained between the marks), body (partly) unread"""
    for _ in range(n):
        limit = rng.choice([1, 2, 4, 10, 16, 64, 80])
        ops = []
        kind = rng.choice(["bytes", "band", "chunks", "chunks-drained"])
        if kind in ("bytes", "band"):
            ops.append("F|" + hx(data_at(rng, 0, 2 * limit + rng.randint(1, 3))))
            if kind == "band":
                ops.append(tok(("r", rng.randint(1, limit), 0)))
        else:
            hc = max(4, limit // 16)
            ops.append("B")
            for j in range(hc + rng.randint(1, 2)):
                ops += ["F|" + hx(data_at(rng, j, 1)), "E"]
            if kind == "chunks-drained":
                ops += [rng.choice(["c|0", "n|1", "r|1|0"])] * rng.randint(1, 2)
        ops.append("Z")
        ops += [tok(Gen(rng, limit, "mixed").consumer()) for _ in range(rng.randint(0, 2))]
        yield {"limit": limit, "ops": ops, "gen": "eof-paused"}


def _det(t, k):
    return "F|" + hx(bytes(65 + ((t + j) % 57) for j in range(k)))


def threshold_cases():
    """deterministic sweep of every water mark +-1 (runs first on every seed): bytes around high water on the way
    up and around low water on the way down, pending chunk boundaries around the chunk high/low marks (drained by
    readchunk and by read_nowait), both reasons at once, and the default-sized limit (65536: 4096/2048 chunks)"""
    for L in (1, 2, 4, 16, 64, 80):
        high = 2 * L
        for fed in (high - 1, high, high + 1, high + 2):
            if fed <= 0:
                continue
            for leave in (L - 1, L, L + 1):
                if 0 <= leave <= fed:
                    yield {"limit": L, "ops": [_det(0, fed), f"n|{fed - leave}", "a|0", "a|0"]}
            yield {"limit": L, "ops": [_det(0, fed - 1), _det(fed - 1, 1), _det(fed, 1), f"r|{L}|0", "n|all", "a|0"]}
        hc = max(4, L // 16); lc = hc // 2
        for nch in (hc - 1, hc, hc + 1, hc + 2):
            feed = []
            for j in range(nch):
                feed += [_det(j, 1), "E"]
            for rem in (lc - 1, lc, lc + 1):
                k = nch - rem
                if k < 0:
                    continue
                yield {"limit": L, "ops": ["B"] + feed + ["c|0"] * k + ["a|0", "a|0"]}
                yield {"limit": L, "ops": ["B"] + feed + ["n|1"] * k + ["a|0", "a|0"]}
                yield {"limit": L, "ops": ["B"] + feed + ["r|1|0"] * k + ["c|0"] * (rem + 1) + ["c|0"]}
            # bytes and chunk count both above their marks; bytes drained first, then the boundaries
            yield {"limit": L, "ops": ["B"] + feed + [_det(nch, high + 1), f"n|{high + 1 + nch - lc}", "n|1", "n|1", "a|0", "a|0"]}
            yield {"limit": L, "ops": ["B"] + feed + [_det(nch, high + 1), "Z", "a|0", "a|0"]}
    # the default limit (bytes only) and a limit whose chunk marks come from `limit // 16` (64 / 32)
    L = 65536
    yield {"limit": L, "ops": [_det(0, 2 * L), _det(2 * L, 1), f"n|{L + 1}", "n|1", "a|0", "a|0"]}
    L = 1024
    feed = []
    for j in range(67):
        feed += [_det(j, 1), "E"]
    yield {"limit": L, "ops": ["B"] + feed[:2 * 64] + ["a|0", "a|0"]}
    yield {"limit": L, "ops": ["B"] + feed[:2 * 65] + ["c|0"] * 33 + ["c|0", "a|0", "a|0"]}
    yield {"limit": L, "ops": ["B"] + feed + ["n|34", "n|1", "n|1", "a|0", "a|0"]}


def cases_for(ctx):
    rng = ctx.rng
    out = [dict(c, gen="directed") for c in DIRECTED]
    out += [dict(c, gen="thresholds") for c in threshold_cases()]
    out += list(exc_eof_cases())
    out += list(eof_paused_cases(rng, 300 if ctx.quick else 3000))
    nrand = 3500 if ctx.quick else 49000
    profiles = ["mixed", "chunked", "purechunk", "chunkmix", "lines", "flow", "errors"]
    limits = [1, 2, 3, 4, 5, 8, 16, 64, 80, 128]
    for i in range(nrand):
        prof = profiles[i % len(profiles)]
        limit = rng.choice(limits if prof != "flow" else [1, 2, 3, 4, 8])
        if prof in ("chunked", "purechunk", "chunkmix") and rng.random() < 0.5:
            limit = rng.choice([1, 64, 80, 128])
        out.append({"limit": limit, "ops": gen_sequence(rng, limit, prof, 40 if prof not in ("chunked", "purechunk", "chunkmix") else 60), "gen": prof})
    # limit 0: correspondence still applies; the oracle reports the wedge under its own signature
    for i in range(40 if ctx.quick else 400):
        out.append({"limit": 0, "ops": gen_sequence(rng, 0, "mixed", 20), "gen": "limit0"})
    if ctx.quick:
        small = list(all_small(ALPHA, 4))
        for ops in rng.sample(small, 1500):
            out.append({"limit": rng.choice([1, 2]), "ops": ops, "gen": "small-sample"})
        small2 = list(all_small(ALPHA2, 4))
        for ops in rng.sample(small2, 1000):
            out.append({"limit": rng.choice([1, 2]), "ops": ops, "gen": "small-sample"})
    else:
        for limit in (1, 2):
            for ops in all_small(ALPHA, 5):
                out.append({"limit": limit, "ops": ops, "gen": "exhaustive"})
        for ops in all_small(ALPHA2, 5):
            out.append({"limit": 1, "ops": ops, "gen": "exhaustive"})
        ctx.extra["exhaustive_small_sequences"] = "all op sequences of length <= 5 over two 12-op alphabets (limit 1 and 2 / limit 1)"
        ctx.exhaustive = True
    return out


def load_corpus():
    import json, os
    from .common.guard import VERIF
    d = os.path.join(VERIF, "corpus", "C08")
    res = []
    if os.path.isdir(d):
        for f in sorted(os.listdir(d)):
            if f.endswith(".json"):
                with open(os.path.join(d, f)) as fh:
                    c = json.load(fh)
                res.append({"limit": c["limit"], "ops": c["ops"], "gen": "corpus"})
    return res


def check(ctx):
    cases = load_corpus() + cases_for(ctx)
    lines = ["run %d %s" % (c["limit"], " ".join(c["ops"])) for c in cases]
    model = None
    if ctx.model_available:
        model = []
        B = 20000
        for i in range(0, len(lines), B):
            model += ctx.model(lines[i:i + B])
    for i, c in enumerate(cases):
        case = {"limit": c["limit"], "ops": c["ops"]}
        impl, viols = run_case(case)
        steps = impl.split(" ")[1:]
        nontriv = any(s.startswith(("data:", "chunk:", "incomplete:")) and not s.startswith(("data:-", "chunk:-")) or s.startswith("blocked") for s in steps)
        ctx.case(("run", c["limit"], c["ops"]), nontrivial=nontriv,
                 sample={"limit": c["limit"], "ops": " ".join(c["ops"])[:160], "impl": impl[:200]} if i % 1201 == 0 else None)
        ctx.hit("gen:" + c["gen"])
        for t, s in zip(c["ops"], steps):
            o = s.split(";", 1)[0]
            ctx.hit("op:" + t.split("|")[0], "out:" + (o.split(":")[0] if not o.startswith("err:") else o))
            ev = s.split(";")[1]
            if "P" in ev: ctx.hit("ev:pause")
            if "R" in ev: ctx.hit("ev:resume")
        for sig, detail in viols:
            ctx.violation(sig, case, detail)
        if model is not None:
            if impl != model[i]:
                # locate the first differing step for the report
                a, b = impl.split(" "), model[i].split(" ")
                j = next((j for j in range(min(len(a), len(b))) if a[j] != b[j]), min(len(a), len(b)))
                ctx.compare(dict(case, first_diff_step=j - 1), a[j] if j < len(a) else None, b[j] if j < len(b) else None,
                            "StreamReader step projection vs Aio.C08.step")
            else:
                ctx.compare(case, 0, 0)
    ctx.extra["cases_with_reader_blocked_while_exception_recorded"] = getattr(run_case, "blocked_with_exc", 0)
    ctx.extra["wait_rechecks_exception"] = _probe_wait_rechecks(_loop())
    check_server(ctx)
    check_cancel(ctx)
    need = ["out:blocked", "out:chunk", "out:incomplete", "out:stop", "out:err:linetoolong", "out:err:runtime",
            "out:err:assertion", "ev:pause", "ev:resume", "op:w"]
    missing = [n for n in need if not ctx.hits.get(n)]
    if missing:
        from .common.guard import MachineryError
        raise MachineryError("generator blind spot: never hit " + ", ".join(missing))


def cancel_cases():
    """second use after a cancellation (harness-only op `k`, judged by the direct oracle, not sent to the model):
    every read API parked on an empty / short buffer, cancelled while still pending / after it was woken by data /
    by a chunk end, then the stream is used again — the next calls must work and deliver exactly what follows"""
    for api in READ_APIS:
        a = tok(api)
        for pre in ([], ["F|41"], ["B", "F|41", "E", "c|0"]):
            for wake in ([], ["F|4243"], ["B", "E"] if not pre else ["F|4243", "E"] if pre[0] == "B" else ["F|42"]):
                tail = ["F|44450a46", a, "w", "n|all", "F|470a", a, "w", "Z", a, "w", "a|0"]
                yield {"limit": 4, "ops": pre + [a] + wake + ["k"] + tail}
                yield {"limit": 4, "ops": pre + [a] + wake + ["k", a, "n|all", "F|58590a", "w", "n|all", "a|0"]}
                yield {"limit": 1, "ops": pre + [a] + wake + ["k", "F|444546", "n|all", a, "F|47", "w", "k", "F|48", "a|0", "w"]}


def check_cancel(ctx):
    n = 0
    for c in cancel_cases():
        case = {"limit": c["limit"], "ops": c["ops"]}
        impl, viols = run_case(case)
        steps = impl.split(" ")[1:]
        ctx.case(("cancel", c["ops"]), nontrivial=True)
        ctx.hit("gen:cancel")
        for t, s_ in zip(c["ops"], steps):
            if t == "k":
                ctx.hit("cancel:" + s_.split(";", 1)[0])
        for sig, detail in viols:
            ctx.violation(sig, case, detail)
        n += 1
    ctx.extra["cancel_then_reuse_cases"] = n


def check_server(ctx):
    """second pause reason: the real server protocol (pipelined-request queue + body stream on one transport)"""
    from .common import c08_server as cs
    cases = list(cs.DIRECTED) + [cs.gen_case(ctx.rng, i) for i in range(250 if ctx.quick else 3000)]
    cases += [cs.gen_kept_back(ctx.rng, i) for i in range(200 if ctx.quick else 2500)]
    both = over = repaused = 0
    for i, c in enumerate(cases):
        viol, info = cs.run(c)
        both += 1 if info.get("paused_both") else 0
        over += 1 if info.get("max_buffered_over_high") else 0
        ctx.case(("server", c), nontrivial=bool(info.get("sent")) or c["n_get"] > 0,
                 sample={"server": {k: c[k] for k in ("rb", "n_get", "total", "first", "reader")}, "steps": c["steps"][:8],
                         "info": info} if i % 97 == 0 else None)
        ctx.hit("gen:server", "server:reader-" + c["reader"],
                "server:body-" + c.get("framing", "length") + "-" + (c.get("coding") or "identity"))
        if c.get("framing") and info.get("pauses", 0) >= 3:
            repaused += 1
            ctx.hit("server:paused-again-while-draining")
        if info.get("paused_both"): ctx.hit("server:both-pause-reasons-active")
        if info.get("post_done"): ctx.hit("server:body-read-to-end")
        for sig, detail in viol:
            ctx.violation(sig, c, detail)
    ccases = list(cs.CLIENT_DIRECTED) + [cs.gen_client(ctx.rng, i) for i in range(150 if ctx.quick else 2000)]
    cover = crep = 0
    for i, c in enumerate(ccases):
        viol, info = cs.run_client(c)
        cover += 1 if info.get("max_buffered_over_high") else 0
        crep += 1 if info.get("pauses", 0) >= 3 else 0
        ctx.case(("client", c), nontrivial=bool(info.get("read")),
                 sample={"client": {k: c[k] for k in ("rb", "total", "framing", "coding", "reader")}, "info": info} if i % 97 == 0 else None)
        ctx.hit("gen:client", "client:reader-" + c["reader"], "client:body-" + c["framing"] + "-" + (c["coding"] or "identity"))
        for sig, detail in viol:
            ctx.violation(sig, c, detail)
    ctx.extra["client_connection_scenarios"] = {"cases": len(ccases), "with_body_above_high_water": cover,
                                                "paused_3_times_or_more": crep}
    if not cover or not crep:
        from .common.guard import MachineryError
        raise MachineryError("client-connection generator never had a body above high water / a re-pause while draining")
    ctx.extra["server_connection_scenarios"] = {"cases": len(cases), "with_both_pause_reasons_active": both,
                                                "with_body_above_high_water": over,
                                                "kept_back_input_paused_3_times_or_more": repaused}
    if not both or not over or not repaused:
        from .common.guard import MachineryError
        raise MachineryError("server-connection generator never had both pause reasons active / a body above high water / a parser keeping input back")


def replay(ctx, case):
    if case.get("kind") in ("server", "client"):
        from .common import c08_server as cs
        viol, _ = cs.run(case) if case["kind"] == "server" else cs.run_client(case)
        for sig, detail in viol:
            ctx.violation(sig, case, detail)
        return
    _, viols = run_case({"limit": case["limit"], "ops": case["ops"]})
    for sig, detail in viols:
        ctx.violation(sig, case, detail)
