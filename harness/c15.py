"""C15 — static file serving stays inside its root and serves exact bytes.

Implementation under test: aiohttp.web_urldispatcher.StaticResource (resolve, _handle,
_resolve_path_to_response), aiohttp.web_fileresponse.FileResponse, BaseRequest.http_range.
Model: lean/AioModel/C15.lean (ranges / conditionals), lean/AioModel/C15Static.lean (confinement);
theorems: lean/AioProps/C15.lean.

Everything is served by the real `AppRunner(app).server()` protocol over an in-memory transport; the
file system is a real temporary tree (fresh `tempfile.mkdtemp`, removed afterwards).
"""
import asyncio, email.utils, inspect, itertools, os, re, shutil, stat as statmod, sys, tempfile
from .common.codec import hx, st, b01, unhx
from .common.guard import MachineryError
from .common import vloop

PROPERTY = "C15"
LEAN_MODULES = ["AioProps.C15"]
THEOREMS = [
    "Aio.C15.range_pattern_is_modelled",
    "Aio.C15.httpRange_refines_spec",
    "Aio.C15.httpRange_rejects_malformed",
    "Aio.C15.range_consistent",
    "Aio.C15.range_is_requested_slice_partial",
    "Aio.C15.f15_suffix_zero_served_whole",
    "Aio.C15.unsatisfiable_416_iff",
    "Aio.C15.full_200_when_no_range_or_stale",
    "Aio.C15.sendLoop_exact",
    "Aio.C15.body_is_slice",
    "Aio.C15.response_consistent",
    "Aio.C15.head_has_no_body",
    "Aio.C15.etagMatch_iff",
    "Aio.C15.mixed_list_strong_fails",
    "Aio.C15.conditional_precedence",
    "Aio.C15.fstat_always_adopted",
    "Aio.C15.race_response_consistent",
    "Aio.C15.stale_stat_mixes_versions",
    "Aio.C15.walk_resolved",
    "Aio.C15.stat_of_resolved",
    "Aio.C15.fixpoint_check_present",
    "Aio.C15.confined",
    "Aio.C15.confined_partial",
    "Aio.C15.f21_symlink_loop_escapes_root",
    "Aio.C15.follow_only_via_links",
    "Aio.C15.listing_only_if_enabled",
    "Aio.C15.sibling_not_followed",
    "Aio.C15.regular_file_served",
    "Aio.C15.confined_history",
    "Aio.C15.absolute_filename_rejected",
]
RULE = ("(1) FileResponse over real files of sizes 0..6 (+ one 70-byte file) through the in-memory server: every "
        "`bytes=a-b`, `bytes=a-`, `bytes=-n` with a,b,n in 0..size+2, a list of malformed / boundary specs (4300/4301 digits, "
        "multi-range, case, blanks, non-ASCII digits, signs), x GET/HEAD x chunk sizes {1,2,3,7,big}; conditional headers drawn "
        "from structured pools (If-Match / If-None-Match: *, current strong, current weak, other, list, garbage, and EVERY entity-tag "
        "list of length 1..3 over {strong,weak} x {current,other} in both headers x GET/HEAD x with/without Range; dates "
        "mtime-1/mtime/mtime+1/garbage with mtime at .0 and .5 s; If-Range: dates and entity tags), exhaustive product in the "
        "thorough tier. BaseRequest.http_range additionally on a string grammar incl. trailing newline. "
        "(1a) a deterministic set (sizes 0, 6, 70000; ranges around both ends and 65536) served over a real loopback socket with sendfile "
        "enabled, so that the offset/count handed to loop.sendfile / aiofastnet.sendfile is exercised (guard: the call must be reached). "
        "(1b) the same FileResponse while the file changes between its stat() and its open() (hook on pathlib.Path.open): in-place "
        "rewrite to larger / smaller / empty / same size, atomic rename-replace to larger / smaller / same size, deletion x sizes "
        "{0,1,4,6,10} x 13 range specs x GET/HEAD; old and new contents use disjoint byte alphabets so the served version is identifiable. "
        "(2) StaticResource over a real tree with files inside, outside and linked across the root (file/dir/absolute links, "
        "chains, loops, dangling, out-and-back, FIFO, pre-compressed siblings incl. a symlinked one, a sibling directory whose "
        "name extends the root's): targets from a traversal grammar (dot segments, %2e, %2f, %5c, %25-double encoding, %00, "
        "//, absolute and drive/UNC forms, non-normalised prefixes) x (follow_symlinks, show_index) x 2 prefixes x "
        "Accept-Encoding; pre-compressed sibling names occupied by every file type (regular, link to file / directory / FIFO / outside, "
        "directory, socket, FIFO - writer ends held open so a wrong open() cannot block -, missing) x every Accept-Encoding. "
        "(2a) add_static end to end with Range x HEAD/GET x Accept-Encoding on files with regular / non-regular / no siblings: every "
        "Content-Range, Content-Length, ETag, Last-Modified refers to the entity the route selected; HEAD announces what GET delivers. "
        "(2b) file-system HISTORIES on one app / one StaticResource: request, change the tree (file -> link outside, missing -> link outside, "
        "directory -> directory link outside, link outside -> file, link inside <-> link outside, loop -> link outside, content rewritten / "
        "deleted / recreated, sibling becomes directory / FIFO / socket / regular / link outside, file <-> directory, parent replaced by a "
        "link), request again; every GET is judged against, and compared with the model on, the tree as it is at that moment. "
        "A case is distinct by (config, request); non-trivial when the route matched or a Range/conditional "
        "header was present.")
TRUSTED_BASE = [
    "yarl: `rel_url.path_safe` of the request target is read from the real request and handed to the model (oracle column)",
    "email.utils date parsing and the ETag-list regex of web_request.py: `if_match`, `if_none_match`, `if_*_since`, `if_range` are read "
    "from a real request object and handed to the model already parsed",
    "the OS: `lstat` results of the temporary tree are handed to the model as a table; `posixpath.realpath`/`Path.resolve` are modelled "
    "(`walk`) and compared on every request, pathlib's joinpath/relative_to/with_suffix are modelled by list operations",
    "st_mtime comparisons are modelled in exact nanosecond arithmetic (generated mtimes are multiples of 0.5 s, exactly representable)",
    "the stat->open window is forced deterministically by hooking pathlib.Path.open in the harness; changes *after* open() (while the body "
    "is being sent) are not modelled",
    "only the concatenation of body writes is compared (chunk grouping of `_sendfile_fallback` is proved equal to the slice in Lean); "
    "loop.sendfile is disabled (AIOHTTP_NOSENDFILE=1)",
    "reference reading of RFC 9110 §14.1.2 / §13.2.2 in AioModel/C15.lean (`parseSpec`, `rfcSlice`, `rfcPrecondition`), cross-checked "
    "against its Python twin on every generated case",
]
ASSUMPTIONS = [
    "POSIX (IS_WINDOWS false); Python < 3.13 semantics of Path.resolve on symlink loops (RuntimeError -> 404), both re-read from the source each run",
    "the static root is a directory and is itself fully resolved (StaticResource.__init__ checks both)",
    "a suffix range on an empty file is treated as unsatisfiable (no Content-Range can describe an empty selection); RFC 9110 calls it satisfiable",
    "an If-Range date later than the modification time counts as a match (the code's `<=`); RFC 9110 asks for an exact match",
    "permission errors (EACCES) are not modelled; the harness tree is fully readable",
]

T0 = 1_700_000_000  # base mtime (s)


# ------------------------------------------------------------------------------------ tables
def generate(repo):
    import aiohttp.web_request as wr, aiohttp.web_fileresponse as wf, aiohttp.web_urldispatcher as wu
    import aiohttp.web_exceptions as we, aiohttp.helpers as helpers
    src = inspect.getsource(wr.BaseRequest.http_range.wrapped if hasattr(wr.BaseRequest.http_range, "wrapped") else wr.BaseRequest.http_range.fget)
    m = re.search(r'pattern\s*=\s*r"([^"]*)"', src)
    if not m:
        raise RuntimeError("range pattern literal not found in BaseRequest.http_range")
    pat = m.group(1)
    ascii_flag = bool(re.search(r"re\.findall\(pattern,\s*rng,\s*re\.ASCII\)", src))
    msrc = inspect.getsource(wf.FileResponse._make_response)
    # after open(): `st = os.stat(fobj.fileno())`, unconditionally (only wrapped in `with suppress(OSError)`)
    fstat_flag = bool(re.search(r'fobj = file_path\.open\("rb"\)\n\s*with suppress\(OSError\):\n(?:\s*#[^\n]*\n)*\s*st = os\.stat\(fobj\.fileno\(\)\)\n\s*return ', msrc))
    rsrc = inspect.getsource(wu.StaticResource._resolve_path_to_response)
    # the F21 repair: in the non-follow branch, resolve() must be a fixpoint before relative_to()
    m2 = re.search(r"else:\s*\n\s*file_path = unresolved_path\.resolve\(\)\n(.*?)file_path\.relative_to\(self\._directory\)", rsrc, re.S)
    fix_flag = bool(m2 and re.search(r"if file_path\.resolve\(\) != file_path:\s*\n\s*raise ValueError", m2.group(1)))

    def L(s):
        return "[" + ", ".join(str(ord(c)) for c in s) + "]"
    exts = ", ".join(f"({L(e)}, {L(c)})" for e, c in wf.ENCODING_EXTENSIONS.items())
    empty = sorted(c for c in helpers.EMPTY_BODY_STATUS_CODES if 100 <= c <= 599)
    text = (
        "-- GENERATED by harness/c15.py from the aiohttp sources and the running interpreter — do not edit\n"
        "namespace Aio.Gen.C15\n"
        "/-- the regular expression literal inside `BaseRequest.http_range` (code points) -/\n"
        f"def rangePattern : List Nat := {L(pat)}\n"
        "/-- `re.ASCII` is passed to `re.findall` in `http_range` -/\n"
        f"def rangeAsciiFlag : Bool := {'true' if ascii_flag else 'false'}\n"
        "/-- `sys.get_int_max_str_digits()`: `int(s)` raises ValueError for longer digit strings -/\n"
        f"def maxStrDigits : Nat := {sys.get_int_max_str_digits()}\n"
        "/-- `web_fileresponse.ENCODING_EXTENSIONS` in iteration order: (file extension, content-coding) -/\n"
        f"def encodingExtensions : List (List Nat × List Nat) := [{exts}]\n"
        "/-- status codes of the web_exceptions used by FileResponse / StaticResource -/\n"
        f"def stPartial : Nat := {we.HTTPPartialContent.status_code}\n"
        f"def stNotModified : Nat := {we.HTTPNotModified.status_code}\n"
        f"def stForbidden : Nat := {we.HTTPForbidden.status_code}\n"
        f"def stNotFound : Nat := {we.HTTPNotFound.status_code}\n"
        f"def stPrecondFailed : Nat := {we.HTTPPreconditionFailed.status_code}\n"
        f"def stRangeNotSatisfiable : Nat := {we.HTTPRequestRangeNotSatisfiable.status_code}\n"
        "/-- `helpers.EMPTY_BODY_STATUS_CODES` restricted to 100..599, sorted -/\n"
        f"def emptyBodyStatus : List Nat := [{', '.join(map(str, empty))}]\n"
        "/-- `web_urldispatcher.IS_WINDOWS` -/\n"
        f"def isWindows : Bool := {'true' if wu.IS_WINDOWS else 'false'}\n"
        "/-- `web_urldispatcher.CIRCULAR_SYMLINK_ERROR` is non-empty (RuntimeError from `Path.resolve` → 404) -/\n"
        f"def circularSymlinkIs404 : Bool := {'true' if wu.CIRCULAR_SYMLINK_ERROR else 'false'}\n"
        "/-- `_resolve_path_to_response` (non-follow branch) refuses a path that `resolve()` left unresolved -/\n"
        f"def resolveFixpointCheck : Bool := {'true' if fix_flag else 'false'}\n"
        "/-- `_make_response` replaces the path stat by the fstat of the opened descriptor, unconditionally -/\n"
        f"def fstatAlwaysAdopted : Bool := {'true' if fstat_flag else 'false'}\n"
        "end Aio.Gen.C15\n")
    return {"AioModel/Generated/C15.lean": text}


# ------------------------------------------------------------------------------------ in-memory server
class MemTransport(asyncio.Transport):
    def __init__(self, loop, proto):
        super().__init__()
        self.loop, self.proto = loop, proto
        self.out = bytearray(); self.closed = False; self.closing = False

    def write(self, data):
        if not self.closing:
            self.out += bytes(data)

    def writelines(self, l):
        for d in l:
            self.write(d)

    def is_closing(self): return self.closing

    def close(self):
        if not self.closing:
            self.closing = True
            self.loop.call_soon(self._lost, None)

    def abort(self): self.close()

    def _lost(self, exc):
        if not self.closed:
            self.closed = True
            self.proto.connection_lost(exc)

    def pause_reading(self): pass
    def resume_reading(self): pass
    def get_extra_info(self, name, default=None): return default
    def get_write_buffer_size(self): return 0
    def set_write_buffer_limits(self, high=None, low=None): pass


def quiet():
    import logging
    for n in ("aiohttp.server", "aiohttp.web", "aiohttp.access"):
        logging.getLogger(n).setLevel(logging.CRITICAL + 1)


async def ask(runner, raw):
    """one request on a fresh connection (Connection: close) -> raw response bytes"""
    loop = asyncio.get_running_loop()
    proto = runner.server()
    tr = MemTransport(loop, proto)
    proto.connection_made(tr)
    proto.data_received(raw)
    for _ in range(400):
        if tr.closing:
            break
        await asyncio.sleep(0)
    else:
        # the server neither finished nor closed within the budget: hand back what arrived - the oracles judge a
        # response whose announced length never arrives (an outcome with a replay, not a harness crash)
        tr.close(); await asyncio.sleep(0)
        return bytes(tr.out)
    await asyncio.sleep(0)
    return bytes(tr.out)


def parse_response(out, head=False):
    """-> (status, {lower-name: value}, body) ; body de-chunked"""
    i = out.find(b"\r\n\r\n")
    if i < 0:
        # the server closed the connection without (a complete) response head, e.g. because an exception
        # escaped while the response was being prepared: an outcome to be judged, not a harness failure
        return 0, {"x-harness": "no-response", "x-raw": out[:60].decode("latin-1")}, b""
    lines = out[:i].decode("latin-1").split("\r\n")
    status = int(lines[0].split(" ")[1])
    hdrs = {}
    for l in lines[1:]:
        k, _, v = l.partition(":")
        if k.lower() in hdrs:
            hdrs[k.lower()] += "," + v.strip()
        else:
            hdrs[k.lower()] = v.strip()
    body = out[i + 4:]
    if hdrs.get("transfer-encoding", "").lower() == "chunked" and not head:
        dec = bytearray(); j = 0
        while True:
            k = body.find(b"\r\n", j)
            if k < 0:
                # truncated chunked body (connection dropped mid-body): keep what arrived, flag it
                hdrs["x-harness"] = "truncated-chunked"
                break
            try:
                n = int(body[j:k].split(b";")[0], 16)
            except ValueError:
                hdrs["x-harness"] = "bad-chunk-size"
                break
            j = k + 2
            if n == 0:
                break
            dec += body[j:j + n]; j += n + 2
        body = bytes(dec)
    return status, hdrs, body


def build_request(method, target, headers):
    """headers: list of (name, value:str); values are sent as UTF-8"""
    b = f"{method} {target} HTTP/1.1\r\nHost: x\r\nConnection: close\r\n".encode("utf-8", "surrogateescape")
    for k, v in headers:
        b += k.encode() + b": " + v.encode("utf-8", "surrogateescape") + b"\r\n"
    return b + b"\r\n"


def mock_request(headers, path="/"):
    from aiohttp.test_utils import make_mocked_request
    from multidict import CIMultiDict
    h = CIMultiDict()
    for k, v in headers:
        h.add(k, v)
    return make_mocked_request("GET", path, headers=h)


# ------------------------------------------------------------------------------------ spec twins (python)
def spec_parse(s):
    """python twin of Aio.C15.parseSpec: ('fromTo',f,l) | ('fromOn',f) | ('suffix',n) | None"""
    if not s.startswith("bytes="):
        return None
    body = s[6:]
    a, sep, b = body.partition("-")
    if not sep:
        return None
    isd = lambda x: all(c in "0123456789" for c in x)
    if not (isd(a) and isd(b)):
        return None
    def big(x):  # int(x) without tripping over the interpreter's digit limit (any huge value behaves alike)
        y = x.lstrip("0") or "0"
        return int(y) if len(y) <= 4000 else 10 ** 4000
    if a == "":
        return None if b == "" else ("suffix", big(b))
    if b == "":
        return ("fromOn", big(a))
    if big(a) <= big(b):
        return ("fromTo", big(a), big(b))
    return None


def spec_slice(sp, size):
    """python twin of Aio.C15.rfcSlice -> (first,last) | None"""
    if sp[0] == "fromTo":
        return (sp[1], min(sp[2], size - 1)) if sp[1] < size else None
    if sp[0] == "fromOn":
        return (sp[1], size - 1) if sp[1] < size else None
    n = sp[1]
    if n == 0 or size == 0:
        return None
    return (size - min(n, size), size - 1)


def spec_precondition(im, um, inm, ms):
    """python twin of Aio.C15.rfcPrecondition; arguments True/False/None"""
    if im is False:
        return "412"
    if im is None and um is False:
        return "412"
    if inm is True:
        return "304"
    if inm is False:
        return "send"
    return "304" if ms is True else "send"


# ------------------------------------------------------------------------------------ part 1: ranges
def etag_of(path):
    s = os.stat(path)
    return f"{s.st_mtime_ns:x}-{s.st_size:x}"


def httpdate(t):
    return email.utils.formatdate(t, usegmt=True)


# structured conditional headers: (kind -> (header value builder, semantic truth))
TAG_ATOMS = {"sc": (False, "cur"), "wc": (True, "cur"), "so": (False, "other"), "wo": (True, "other"), "sp": (False, "other2"), "wp": (True, "other2")}


def tag_list(kind, cur):
    """kind 'L:sc,wo,…' -> (header value, strong-comparison truth, weak-comparison truth): an entity-tag list mixing weak and
    strong forms of the current and of other tags in the given order (RFC 9110 §8.8.3.2: strong comparison needs a tag that is
    not weak on either side; weak comparison only the opaque value)"""
    vals = {"cur": cur, "other": "deadbeef-1", "other2": "0-0"}
    atoms = [TAG_ATOMS[a] for a in kind[2:].split(",")]
    hv = ", ".join(("W/" if w else "") + '"' + vals[v] + '"' for w, v in atoms)
    return hv, any((not w) and v == "cur" for w, v in atoms), any(v == "cur" for w, v in atoms)


class _Pool(dict):
    def __init__(self, cur, d):
        super().__init__(d); self.cur = cur

    def __missing__(self, k):
        if isinstance(k, str) and k.startswith("L:"):
            return tag_list(k, self.cur)
        raise KeyError(k)


def etag_pool(cur):
    return _Pool(cur, {
        "star": ("*", True, True),
        "cur": (f'"{cur}"', True, True),
        "weakcur": (f'W/"{cur}"', False, True),      # strong comparison fails, weak succeeds
        "other": ('"deadbeef-1"', False, False),
        "list": (f'"deadbeef-1", "{cur}"', True, True),
        "weaklist": (f'W/"x", W/"{cur}"', False, True),
        "garbage": ("abc", False, False),
    })


def date_pool(mt_s):
    # mt_s may be x.5; header dates are whole seconds
    base = int(mt_s)
    return {"before": base - 1, "same": base, "after": base + 1}


def make_cond_headers(kinds, cur, mt_ns):
    """kinds: dict name-> kind (or None). returns (headers list, semantic dict)"""
    ep = etag_pool(cur); mt = mt_ns / 1e9
    H, sem = [], {"im": None, "um": None, "inm": None, "ms": None, "ir": None}
    if kinds.get("im"):
        v, strong, _weak = ep[kinds["im"]]; H.append(("If-Match", v)); sem["im"] = strong
    if kinds.get("inm"):
        v, _strong, weak = ep[kinds["inm"]]; H.append(("If-None-Match", v)); sem["inm"] = weak
    for key, name in (("um", "If-Unmodified-Since"), ("ms", "If-Modified-Since")):
        k = kinds.get(key)
        if k == "garbage":
            H.append((name, "yesterday-ish"))      # unparsable: ignored
        elif k:
            t = date_pool(mt)[k]; H.append((name, httpdate(t)))
            sem[key] = (mt_ns <= t * 10**9)         # "not modified since t"
    k = kinds.get("ir")
    if k == "garbage":
        H.append(("If-Range", "yesterday-ish")); sem["ir"] = "either"   # neither a date nor an entity tag: ignore it, or ignore the Range
    elif k in ("before", "same", "after"):
        t = date_pool(mt)[k]; H.append(("If-Range", httpdate(t))); sem["ir"] = (mt_ns <= t * 10**9)
    elif k:
        v, strong, _ = ep[k]; H.append(("If-Range", v)); sem["ir"] = strong and k in ("cur", "list")
        if k == "list":
            sem["ir"] = False                         # If-Range takes one validator, not a list
    return H, sem


def tags_col(tags):
    if tags is None:
        return "none"
    if not tags:
        return "[]"
    return "|".join(("w" if t.is_weak else "s") + "~" + st(t.value) for t in tags)


def ts_col(dt):
    return "none" if dt is None else str(int(dt.timestamp()))


MALFORMED = [
    "bytes=", "bytes", "bytes=-", "bytes=a-b", "bytes=0-1,2-3", "bytes=0-0,-1", "Bytes=0-1", "BYTES=0-1", "bytes= 0-1", "bytes=0 - 1",
    "bytes=0-1 ", " bytes=0-1", "items=0-1", "bytes=-1-2", "bytes=1--2", "bytes=+1-2", "bytes=0x1-2", "bytes=\u0661-\u0662",
    "bytes=1\u00b2-", "", "0-1", "=0-1", "bytes=1_0-2_0", "bytes==0-1", "bytes=0-1-", "bytes=00-001", "bytes=000-", "bytes=-0003",
    "bytes=0-" + "9" * 4300, "bytes=0-" + "9" * 4301, "bytes=" + "0" * 4301 + "-", "bytes=" + "0" * 4300 + "-", "bytes=-" + "0" * 4300 + "1",
    "bytes=-" + "0" * 4299 + "1", "bytes=1-" + "0" * 4301, "bytes=5-" + "0" * 4300,
]


def range_specs(size):
    vals = [None] + list(range(0, size + 3))
    out = []
    for a in vals:
        for b in vals:
            out.append("bytes=%s-%s" % ("" if a is None else a, "" if b is None else b))
    return out


def file_model_line(cs, method, cur, mt_ns, hdrs, content):
    req = mock_request(hdrs)
    rng = req.headers.get("Range")
    return "file %d %s %s %d %s %s %s %s %s %s %s" % (
        cs, b01(method == "HEAD"), st(cur), mt_ns, tags_col(req.if_match), tags_col(req.if_none_match),
        ts_col(req.if_unmodified_since), ts_col(req.if_modified_since), ts_col(req.if_range),
        "none" if rng is None else st(rng), hx(content))


def canon_file_response(status, hdrs, body):
    cr = hdrs.get("content-range")
    if cr is None:
        crs = "-"
    elif cr.startswith("bytes "):
        crs = cr[6:]
    else:
        crs = "?" + cr
    return "%d %s %s %s" % (status, crs, hdrs.get("content-length", "none"), hx(body))


def oracle_file(ctx, case, content, sem, resp, mtime_ns=None):
    """The property on the real response alone. `sem`: semantic truth of each conditional (None = absent).
    `mtime_ns` (when known): modification time of the served version - the validators must describe that version too."""
    status, hdrs, body = resp
    size = len(content); head = case["method"] == "HEAD"
    rng = dict(case["headers"]).get("Range")
    cl = hdrs.get("content-length"); cr = hdrs.get("content-range")

    def bad(sig, detail):
        ctx.violation("C15/" + sig, case, detail + f" [status={status} content-range={cr!r} content-length={cl!r} body={body[:16]!r} size={size}]")

    # --- the validators describe the same version as the body (a cache keyed on them must not mix versions)
    if mtime_ns is not None and status in (200, 206, 304):
        exp_etag = '"%x-%x"' % (mtime_ns, size)
        if hdrs.get("etag") != exp_etag:
            bad("consistency/etag-not-of-served-version", f"ETag {hdrs.get('etag')!r}, the served file has {exp_etag}")
        exp_lm = httpdate(mtime_ns // 10**9)          # whole seconds: round down or up
        if hdrs.get("last-modified") not in (exp_lm, httpdate(-(-mtime_ns // 10**9))):
            bad("consistency/last-modified-not-of-served-version", f"Last-Modified {hdrs.get('last-modified')!r}, the served file has {exp_lm!r}")
    if status in (200, 206) and hdrs.get("accept-ranges") != "bytes":
        bad("consistency/accept-ranges-missing", "a range-capable response without `Accept-Ranges: bytes`")
    # --- internal consistency of whatever was answered
    if status == 200:
        if cr is not None: bad("consistency/200-with-content-range", "200 carries Content-Range")
        if cl != str(size): bad("consistency/200-content-length", "Content-Length is not the file size")
        if not head and body != content: bad("consistency/200-body", "200 body is not the whole file")
    elif status == 206:
        m = re.fullmatch(r"bytes (\d+)-(\d+)/(\d+)", cr or "")
        if not m:
            bad("consistency/206-content-range-syntax", "206 without a well-formed Content-Range"); return
        f, l, n = map(int, m.groups())
        if n != size or not (f <= l < size): bad("consistency/206-content-range-values", "Content-Range does not describe a slice of this file")
        if cl != str(l - f + 1): bad("consistency/206-content-length", "Content-Length differs from the Content-Range span")
        if not head and body != content[f:l + 1]: bad("consistency/206-body", "206 body is not file[first:last+1]")
    elif status == 416:
        if cr != f"bytes */{size}": bad("consistency/416-content-range", "416 without `bytes */size`")
        if body: bad("consistency/416-body", "416 with a body")
    elif status in (304, 412):
        if body: bad("consistency/%d-body" % status, "body on a bodiless status")
        if cr is not None: bad("consistency/%d-content-range" % status, "Content-Range on %d" % status)
        if cl not in (None, "0"): bad("consistency/%d-content-length" % status, "non-zero Content-Length")
    else:
        bad("status/unexpected-%d" % status, "unexpected status for a regular file"); return
    if head and body: bad("consistency/head-body", "HEAD answered with a body")

    # --- is it the *requested* thing (RFC 9110 §13.2.2 then §14.2)
    exp = spec_precondition(sem["im"], sem["um"], sem["inm"], sem["ms"])
    if exp != "send":
        if str(status) != exp: bad(f"conditional/expected-{exp}-got-{status}", "precondition precedence of RFC 9110 §13.2.2 not followed")
        return
    if status in (304, 412):
        bad(f"conditional/unexpected-{status}", "no precondition failed"); return
    if sem["ir"] == "either":
        if status == 200:
            return
        sem = {**sem, "ir": None}
    if rng is None or sem["ir"] is False:
        if status != 200:
            kind = case.get("kinds", {}).get("ir")
            if sem["ir"] is False and rng is not None and status in (206, 416) and (status == 206 or kind in ("cur", "weakcur", "other", "list")):
                if kind == "before":
                    bad("if-range/stale-date-served-206", "If-Range date does not match, Range must be ignored")
                else:
                    bad("if-range/etag-validator-ignored", "If-Range carries an entity tag that does not match (or is weak); the Range must be ignored and 200 sent")
                    # the known defect is exactly "an entity-tag If-Range is treated as absent": anything beyond that
                    # (a wrong slice, a wrong 416) must still be reported under its own signature
                    if rng is not None:
                        oracle_file(ctx, {**case, "kinds": {k: v for k, v in case.get("kinds", {}).items() if k != "ir"}}, content,
                                    {**sem, "ir": None}, resp, mtime_ns)
            else:
                bad("range/unrequested-%d" % status, "no applicable Range header but not 200")
        return
    sp = spec_parse(rng)
    if sp is None:
        # invalid ranges-specifier: a server may ignore (200) or reject (416) it
        if status not in (200, 416): bad("range/malformed-answered-%d" % status, "malformed Range answered with a partial response")
        return
    sl = spec_slice(sp, size)
    if sl is None:
        if status == 206:
            if sp == ("suffix", 0):
                bad("range/suffix-zero-served-206", "`bytes=-0` is unsatisfiable (RFC 9110 §14.1.2) but was answered 206 with the whole file")
            else:
                bad("range/unsatisfiable-served-206", "unsatisfiable range answered 206")
        elif status == 200 and not (sp[0] == "suffix" and size == 0):
            bad("range/unsatisfiable-served-200", "unsatisfiable range answered 200")
        return
    if status == 416:
        digits = max(len(x) for x in re.findall(r"\d*", rng))
        if digits > 4300:
            bad("range/overlong-number-416", "satisfiable range whose number has more digits than int() accepts is answered 416")
        else:
            bad("range/satisfiable-answered-416", "satisfiable range answered 416")
        return
    if status != 206:
        bad("range/satisfiable-answered-%d" % status, "satisfiable range not answered with 206"); return
    m = re.fullmatch(r"bytes (\d+)-(\d+)/(\d+)", cr or "")
    if m and (int(m.group(1)), int(m.group(2))) != sl:
        bad("range/wrong-slice", f"served {m.group(1)}-{m.group(2)}, requested slice is {sl[0]}-{sl[1]}")


class FileBed:
    """real files of given sizes + an app serving each through FileResponse with a chosen chunk size"""
    CHUNKS = [1, 2, 3, 7, 262144]

    def __init__(self, sizes):
        self.dir = os.path.realpath(tempfile.mkdtemp(prefix="c15f-"))
        self.files = {}
        for n in sizes:
            for half in (0, 1):
                p = os.path.join(self.dir, f"f{n}_{half}.bin")
                content = bytes((0x41 + i) % 256 for i in range(n))
                with open(p, "wb") as f:
                    f.write(content)
                ns = T0 * 10**9 + half * 500_000_000
                os.utime(p, ns=(ns, ns))
                self.files[(n, half)] = (p, content, ns)

    async def start(self):
        from aiohttp import web
        app = web.Application()
        bed = self

        async def h(request):
            n = int(request.match_info["n"]); half = int(request.match_info["half"]); cs = int(request.match_info["cs"])
            return web.FileResponse(bed.files[(n, half)][0], chunk_size=cs)
        app.router.add_route("*", "/f/{n}/{half}/{cs}", h)
        quiet()
        self.runner = web.AppRunner(app, access_log=None)
        await self.runner.setup()

    async def stop(self):
        await self.runner.cleanup()

    def close(self):
        shutil.rmtree(self.dir, ignore_errors=True)

    async def run(self, case):
        p, content, ns = self.files[(case["size"], case["half"])]
        raw = build_request(case["method"], f"/f/{case['size']}/{case['half']}/{case['cs']}", case["headers"])
        out = await ask(self.runner, raw)
        return parse_response(out, head=case["method"] == "HEAD")


def gen_file_cases(ctx):
    rng = ctx.rng
    cases = []
    sizes = list(range(0, 7))
    KINDS_E = [None, "star", "cur", "weakcur", "other", "list", "weaklist", "garbage",
               # mixed weak/strong lists, both orders
               "L:so,wc", "L:wc,so", "L:wo,sc", "L:sc,wo", "L:wo,so", "L:wc,wo,sp"]
    KINDS_D = [None, "before", "same", "after", "garbage"]
    KINDS_IR = [None, "before", "same", "after", "garbage", "cur", "weakcur", "other", "list"]

    def mk(size, half, cs, method, rh, kinds):
        return {"kind": "file", "size": size, "half": half, "cs": cs, "method": method, "range": rh, "kinds": kinds}
    # (a) every range spec x size, no conditionals
    for size in sizes:
        specs = range_specs(size) + MALFORMED + [None]
        for i, rh in enumerate(specs):
            cs = FileBed.CHUNKS[(i + size) % len(FileBed.CHUNKS)]
            cases.append(mk(size, 0, cs, "GET", rh, {}))
            if not ctx.quick or i % 3 == 0:
                cases.append(mk(size, 0, cs, "HEAD", rh, {}))
            if not ctx.quick:
                for cs2 in FileBed.CHUNKS:
                    if cs2 != cs:
                        cases.append(mk(size, 1, cs2, "GET", rh, {}))
    for rh in range_specs(70)[::7] + ["bytes=10-20", "bytes=-70", "bytes=-71", "bytes=69-", "bytes=70-", "bytes=0-69", "bytes=0-70"]:
        cases.append(mk(70, 0, rng.choice([7, 262144]), "GET", rh, {}))
    # (b) If-Range x every range spec on small sizes
    for size in (4, 1, 0):
        for rh in range_specs(size) + MALFORMED[:12] + [None]:
            for ir in KINDS_IR[1:]:
                if ctx.quick and rng.random() < 0.6:
                    continue
                cases.append(mk(size, rng.randint(0, 1), rng.choice(FileBed.CHUNKS), "GET", rh, {"ir": ir}))
    # (c0) every entity-tag list of length 1..3 over {strong,weak} x {current,other}, in If-Match and in If-None-Match,
    #      x GET/HEAD x with/without Range
    atoms = ["sc", "wc", "so", "wo"]
    lists = [list(t) for n in (1, 2, 3) for t in itertools.product(atoms, repeat=n)]
    for k, lst in enumerate(lists):
        kind = "L:" + ",".join(lst)
        for hdr in ("im", "inm"):
            for method in ("GET", "HEAD"):
                for rh in (None, "bytes=1-2"):
                    if ctx.quick and len(lst) == 3 and (k + (method == "HEAD") + (rh is None)) % 2:
                        continue
                    cases.append(mk(4, k % 2, 3, method, rh, {hdr: kind}))
    # (c1) deterministic on every seed: each conditional absent / passing / failing (3^4), and every If-Range kind x range shape
    P = {"im": (None, "cur", "other"), "inm": (None, "other", "cur"), "um": (None, "after", "before"), "ms": (None, "before", "same")}
    for k, (im, inm, um, ms) in enumerate(itertools.product(P["im"], P["inm"], P["um"], P["ms"])):
        cases.append(mk(4, k % 2, 3, "HEAD" if k % 5 == 4 else "GET", (None, "bytes=1-2", "bytes=-2")[k % 3], {"im": im, "inm": inm, "um": um, "ms": ms}))
    for ir in KINDS_IR[1:]:
        for rh in ("bytes=1-2", "bytes=-2", "bytes=9-", "bytes=x", None):
            for half in (0, 1):
                cases.append(mk(4, half, 2, "GET", rh, {"ir": ir}))
    # (c) conditional combinations
    few_ranges = [None, "bytes=1-2", "bytes=-2", "bytes=9-", "bytes=-0", "bytes=x"]
    if ctx.quick:
        for _ in range(2500):
            kinds = {"im": rng.choice(KINDS_E), "inm": rng.choice(KINDS_E), "um": rng.choice(KINDS_D), "ms": rng.choice(KINDS_D),
                     "ir": rng.choice(KINDS_IR) if rng.random() < 0.5 else None}
            if rng.random() < 0.5:
                for k in rng.sample(["im", "inm", "um", "ms"], 2):
                    kinds[k] = None
            cases.append(mk(rng.choice([0, 1, 4, 6]), rng.randint(0, 1), rng.choice(FileBed.CHUNKS), rng.choice(["GET", "GET", "HEAD"]),
                            rng.choice(few_ranges), kinds))
    else:
        for im, inm, um, ms in itertools.product(KINDS_E, KINDS_E, KINDS_D, KINDS_D):
            for half in (0, 1):
                cases.append(mk(4, half, 3, "GET", rng.choice(few_ranges), {"im": im, "inm": inm, "um": um, "ms": ms}))
            cases.append(mk(rng.choice([0, 1, 6]), rng.randint(0, 1), rng.choice(FileBed.CHUNKS), rng.choice(["GET", "HEAD"]),
                            rng.choice(few_ranges), {"im": im, "inm": inm, "um": um, "ms": ms, "ir": rng.choice(KINDS_IR)}))
    return cases


def finish_file_case(bed, case):
    """fill in the concrete header list from the structured description"""
    p, content, ns = bed.files[(case["size"], case["half"])]
    cur = etag_of(p)
    H, sem = make_cond_headers(case.get("kinds", {}), cur, ns)
    if case.get("range") is not None:
        # the HTTP parser strips optional whitespace around a field value (C01's business): the value the
        # server sees is the stripped one
        case["range"] = case["range"].strip(" \t")
        H = [("Range", case["range"])] + H
    case["headers"] = H
    return cur, ns, content, sem


def check_files(ctx):
    cases = gen_file_cases(ctx)
    bed = FileBed(list(range(0, 7)) + [70])
    try:
        metas = [finish_file_case(bed, c) for c in cases]

        async def main():
            await bed.start()
            try:
                return [await bed.run(c) for c in cases]
            finally:
                await bed.stop()
        resps, excs, quiescent = vloop.run(main)
        if resps is None:
            raise MachineryError("file bed did not finish")
        lines = [file_model_line(c["cs"], c["method"], cur, ns, c["headers"], content) for c, (cur, ns, content, sem) in zip(cases, metas)]
        outs = ctx.model(lines)
        # the python twin of the specification is itself compared with the Lean specification
        spec_cases = [(c["range"], c["size"]) for c in cases if c.get("range") is not None]
        spec_cases = list(dict.fromkeys(spec_cases))
        souts = ctx.model([f"spec {st(r)} {n}" for r, n in spec_cases])
        if souts is not None:
            for (r, n), o in zip(spec_cases, souts):
                sp = spec_parse(r)
                mine = "invalid" if sp is None else ("unsat" if spec_slice(sp, n) is None else "slice %d %d" % spec_slice(sp, n))
                ctx.compare({"kind": "spec", "range": r[:60], "size": n}, mine, o, "python spec twin vs Aio.C15.parseSpec/rfcSlice")
        for i, (c, (cur, ns, content, sem), resp) in enumerate(zip(cases, metas, resps)):
            canon = canon_file_response(*resp)
            nontriv = bool(c["headers"])
            pub = {k: c[k] for k in ("kind", "size", "half", "cs", "method", "range", "kinds")}
            ctx.case(("file", pub), nontrivial=nontriv,
                     sample={"request": {**pub, "range": (c["range"] or "")[:40]}, "response": canon[:60]} if i % 1201 == 7 else None)
            ctx.hit("file:status-%d" % resp[0])
            if c.get("range") is not None:
                sp = spec_parse(c["range"])
                ctx.hit("range:" + ("malformed" if sp is None else sp[0] + ("-unsat" if spec_slice(sp, c["size"]) is None else "-sat")))
            for k, v in c.get("kinds", {}).items():
                if v: ctx.hit(f"cond:{k}")
            oracle_file(ctx, {**pub, "headers": [list(h) for h in c["headers"]]}, content, sem, resp, ns)
            if outs is not None:
                ctx.compare({**pub, "headers": [[k, v[:80]] for k, v in c["headers"]]}, canon, outs[i], "FileResponse vs Aio.C15.fileResponse")
    finally:
        bed.close()


# ------------------------------------------------------------------------------------ part 1a: the sendfile branch
# `_sendfile` hands (offset, count) to loop.sendfile unless AIOHTTP_NOSENDFILE is set; an in-memory transport cannot take that
# branch, so a small deterministic set is served over a real loopback TCP socket with sendfile enabled.
def check_sendfile(ctx):
    import aiohttp.web_fileresponse as wf
    from aiohttp import web
    big = 70_000
    bed = FileBed([0, 6, big])
    saved = wf.NOSENDFILE
    calls = []
    cases = []
    for size in (0, 6, big):
        rs = [None, "bytes=0-0", "bytes=-1", "bytes=1-", f"bytes={size - 1}-" if size else "bytes=0-", f"bytes=0-{size}", f"bytes={size}-", "bytes=2-4", "bytes=-3"]
        if size == big:
            rs += ["bytes=10000-60000", "bytes=-65537", "bytes=65535-65537", f"bytes={big - 2}-{big + 5}", f"bytes=1-{big - 2}"]
        for rh in rs:
            for method in ("GET", "HEAD") if rh in (None, "bytes=2-4") else ("GET",):
                cases.append({"kind": "sendfile", "size": size, "half": 0, "cs": 262144, "method": method, "range": rh, "kinds": {}})
    try:
        wf.NOSENDFILE = False
        metas = [finish_file_case(bed, c) for c in cases]
        loop = asyncio.new_event_loop()
        orig_sendfile = loop.sendfile

        async def counting(transport, file, offset=0, count=None, *, fallback=True):
            calls.append((offset, count))
            return await orig_sendfile(transport, file, offset, count, fallback=fallback)
        loop.sendfile = counting
        fast = getattr(wf, "aiofastnet", None)
        orig_fast = fast.sendfile if fast is not None else None
        if fast is not None:
            async def counting_fast(lp, transport, file, offset=0, count=None, *a, **kw):
                calls.append((offset, count))
                return await orig_fast(lp, transport, file, offset, count, *a, **kw)
            fast.sendfile = counting_fast

        async def main():
            await bed.start()
            site = web.TCPSite(bed.runner, "127.0.0.1", 0)
            await site.start()
            port = site._server.sockets[0].getsockname()[1]
            out = []
            try:
                for c in cases:
                    r, w = await asyncio.open_connection("127.0.0.1", port)
                    w.write(build_request(c["method"], f"/f/{c['size']}/0/{c['cs']}", c["headers"]))
                    data = await asyncio.wait_for(r.read(-1), 20)
                    w.close()
                    out.append(parse_response(data, head=c["method"] == "HEAD"))
            finally:
                await bed.stop()
            return out
        try:
            asyncio.set_event_loop(loop)
            resps = loop.run_until_complete(main())
        finally:
            asyncio.set_event_loop(None)
            loop.close()
    finally:
        wf.NOSENDFILE = saved
        if getattr(wf, "aiofastnet", None) is not None and 'orig_fast' in locals() and orig_fast is not None:
            wf.aiofastnet.sendfile = orig_fast
        bed.close()
    if not calls:
        raise MachineryError("blind-spot guard: loop.sendfile was never reached although AIOHTTP_NOSENDFILE was cleared")
    lines = [file_model_line(c["cs"], c["method"], cur, ns, c["headers"], content) for c, (cur, ns, content, sem) in zip(cases, metas)]
    outs = ctx.model(lines)
    for i, (c, (cur, ns, content, sem), resp) in enumerate(zip(cases, metas, resps)):
        pub = {k: c[k] for k in ("kind", "size", "half", "cs", "method", "range", "kinds")}
        canon = canon_file_response(*resp)
        ctx.case(("sendfile", pub), nontrivial=True, sample={"request": pub, "response": canon[:50]} if i % 23 == 2 else None)
        ctx.hit("sendfile:status-%d" % resp[0])
        sub = _Collect()
        oracle_file(sub, {**pub, "headers": [list(h) for h in c["headers"]]}, content, sem, resp, ns)
        for sig, detail in sub.v:
            if not sig.endswith(("suffix-zero-served-206", "overlong-number-416")):
                ctx.violation(sig.replace("C15/", "C15/sendfile/", 1), {**pub, "headers": [list(h) for h in c["headers"]]}, "over a real socket with loop.sendfile: " + detail[:300])
        if outs is not None:
            ctx.compare({**pub, "model": lines[i][:60]}, canon if len(canon) < 400 else canon[:60] + f"…{len(resp[2])}B:" + str(hash(resp[2])),
                        outs[i] if len(outs[i]) < 400 else outs[i][:60] + f"…{len(unhx(outs[i].split(' ')[-1]))}B:" + str(hash(unhx(outs[i].split(' ')[-1]))),
                        "FileResponse via loop.sendfile vs Aio.C15.fileResponse")
    ctx.hit(*["sendfile:native-called"] * len(calls))


# ------------------------------------------------------------------------------------ part 1b: the stat -> open window
MUTS = ["inplace-larger", "inplace-smaller", "inplace-empty", "inplace-same-size", "replace-larger", "replace-smaller",
        "replace-same-size", "delete"]
T1 = T0 + 10  # mtime (s) of the version written inside the window


def new_version(mut, old):
    """content found by open() after the mutation; None = file deleted.  Lower-case letters: disjoint from the old bytes."""
    n = len(old)
    if mut == "delete":
        return None
    m = {"larger": n + 15, "smaller": max(n - 3, 0) if n > 3 else max(n - 1, 0), "empty": 0, "same-size": n}[mut.split("-", 1)[1]]
    return bytes(0x61 + (i % 26) for i in range(m))


class _Collect:
    def __init__(self): self.v = []
    def violation(self, sig, case, detail): self.v.append((sig, detail))


def oracle_race(ctx, case, old, new, resp, old_ns=None, new_is_old=False):
    """the file changed between FileResponse's stat() and its open(): status, Content-Range, Content-Length and body must
    all describe ONE version of the file - the one whose bytes are served (a vanished file: 404)."""
    status, hdrs, body = resp
    if status in (403, 404) and not body:
        if new is not None:
            ctx.violation("C15/race/existing-file-answered-%d" % status, case, "the file exists before and after the window")
        return
    sem = {"im": None, "um": None, "inm": None, "ms": None, "ir": None}
    problems = []
    new_ns = old_ns if new_is_old else T1 * 10**9
    for name, content, mt in (("the version open() found", new, new_ns if old_ns is not None else None), ("the version stat() saw", old, old_ns)):
        if content is None:
            continue
        col = _Collect()
        oracle_file(col, case, content, sem, resp, mt)
        v = [x for x in col.v if not x[0].endswith(("suffix-zero-served-206", "overlong-number-416"))]
        if not v:
            return
        problems.append(f"vs {name} ({len(content)} bytes): {v[0][0]}")
    ctx.violation("C15/race/response-mixes-file-versions", case,
                  "headers and body are not consistent with any single version of the file: " + "; ".join(problems) +
                  f" [status={status} content-range={hdrs.get('content-range')!r} content-length={hdrs.get('content-length')!r} body={body[:20]!r}]")


async def run_race(bed, case):
    """one request during which the file is changed between the path stat() and the open() (hook on pathlib.Path.open)"""
    import pathlib
    p, old, ns = bed.files[(case["size"], 0)]
    new = new_version(case["mut"], old)
    orig_open = pathlib.Path.open
    fired = []

    def hooked(self, *a, **kw):
        if not fired and str(self) == p:
            fired.append(1)
            if new is None:
                os.unlink(p)
            elif case["mut"].startswith("inplace"):
                with open(p, "r+b") as f:       # same inode
                    f.truncate(0); f.write(new)
                os.utime(p, ns=(T1 * 10**9, T1 * 10**9))
            else:                                # atomic rename-replace: new inode
                tmp = p + ".new"
                with open(tmp, "wb") as f:
                    f.write(new)
                os.utime(tmp, ns=(T1 * 10**9, T1 * 10**9))
                os.replace(tmp, p)
        return orig_open(self, *a, **kw)
    pathlib.Path.open = hooked
    try:
        raw = build_request(case["method"], f"/f/{case['size']}/0/{case['cs']}", case["headers"])
        out = await ask(bed.runner, raw)
    finally:
        pathlib.Path.open = orig_open
        with open(p + ".restore", "wb") as f:
            f.write(old)
        os.utime(p + ".restore", ns=(ns, ns))
        os.replace(p + ".restore", p)
    return parse_response(out, head=case["method"] == "HEAD"), bool(fired), new


def gen_race_cases(ctx):
    rng = ctx.rng
    cases = []
    for size in (10, 6, 4, 1, 0):
        ranges = [None, "bytes=-5", "bytes=-1", "bytes=0-0", "bytes=3-8", "bytes=2-", "bytes=0-", f"bytes={size}-", f"bytes={size + 3}-{size + 20}",
                  f"bytes=0-{size + 20}", "bytes=-100", f"bytes={max(size - 1, 0)}-", "bytes=x"]
        for mut in MUTS:
            for i, rh in enumerate(ranges):
                for method in (("GET", "HEAD") if (not ctx.quick or i % 4 == 0) else ("GET",)):
                    cases.append({"kind": "race", "size": size, "mut": mut, "cs": rng.choice(FileBed.CHUNKS), "method": method, "range": rh,
                                  "headers": [] if rh is None else [["Range", rh]]})
    # a few with If-Range (evaluated against the fstat'ed mtime) for the correspondence
    for mut in MUTS:
        for ir in ("same", "after"):
            cases.append({"kind": "race", "size": 6, "mut": mut, "cs": 3, "method": "GET", "range": "bytes=1-2", "ir": ir,
                          "headers": [["Range", "bytes=1-2"], ["If-Range", httpdate(T0 if ir == "same" else T1 + 1)]]})
    return cases


def check_race(ctx):
    cases = gen_race_cases(ctx)
    bed = FileBed([0, 1, 4, 6, 10])
    try:
        async def main():
            await bed.start()
            try:
                return [await run_race(bed, c) for c in cases]
            finally:
                await bed.stop()
        res, excs, quiescent = vloop.run(main)
        if res is None:
            raise MachineryError("race bed did not finish")
        lines = []
        for c, (resp, fired, new) in zip(cases, res):
            p, old, ns = bed.files[(c["size"], 0)]
            req = mock_request([tuple(h) for h in c["headers"]])
            rngv = req.headers.get("Range")
            at_open = f"{ns}:{hx(old)}" if not fired else ("none" if new is None else f"{T1 * 10**9}:{hx(new)}")
            lines.append("race %d %s %s %d %d %s %s %s %s %s %s %s" % (
                c["cs"], b01(c["method"] == "HEAD"), st(etag_of(p)), ns, len(old), tags_col(req.if_match), tags_col(req.if_none_match),
                ts_col(req.if_unmodified_since), ts_col(req.if_modified_since), ts_col(req.if_range),
                "none" if rngv is None else st(rngv), at_open))
        outs = ctx.model(lines)
        for i, (c, (resp, fired, new)) in enumerate(zip(cases, res)):
            p, old, ns = bed.files[(c["size"], 0)]
            canon = canon_file_response(*resp)
            ctx.case(("race", c), nontrivial=True, sample={"request": c, "response": canon[:60]} if i % 211 == 3 else None)
            ctx.hit("race:" + c["mut"], "race:status-%d" % resp[0], "race:hook-fired" if fired else "race:hook-not-fired")
            if "ir" not in c:
                oracle_race(ctx, c, old, new if fired else old, resp, ns, not fired)
            if outs is not None:
                ctx.compare(c, canon, outs[i], "FileResponse with the file changing between stat() and open() vs Aio.C15.fileResponseRace")
    finally:
        bed.close()


_SENDFILE_ONLY = None


class Ctx0:
    """minimal stand-in used to re-run one section inside replay()"""
    def __init__(self): self.violations = {}; self.quick = True
    def model(self, lines): return None
    def case(self, *a, **k): pass
    def hit(self, *a): pass
    def compare(self, *a, **k): return True
    def violation(self, sig, case, detail): self.violations.setdefault(sig, {"case": case, "detail": detail})


def dec(n):
    """str(n) for ints beyond the interpreter's int->str digit limit"""
    if n is None:
        return "none"
    if abs(n) < 10 ** 4000:
        return str(n)
    hi, lo = divmod(abs(n), 10 ** 4000)
    return ("-" if n < 0 else "") + str(hi) + str(lo).zfill(4000)


def check_http_range(ctx):
    """BaseRequest.http_range alone on a string grammar (reaches what the wire cannot: trailing newline)"""
    rng = ctx.rng
    pre = ["bytes=", "bytes=", "bytes=", "Bytes=", "bytes =", "bytes", "", " bytes=", "octets=", "bytes==", "xbytes="]
    num = ["", "0", "1", "5", "12", "007", "\u0661", "\u00b2", "+1", "-1", "1_0", " 1", "1 ", "9" * 4300, "9" * 4301, "0" * 4301, "1e3", "0x10"]
    sep = ["-", "-", "-", "--", "", " - ", ",", "\u2212"]
    suf = ["", "", "", "\n", "\n\n", " ", ",5-6", "\r", "\r\n", "\x00", "x"]
    vals = [None] + MALFORMED
    for size in (0, 3):
        vals += range_specs(size)
    for _ in range(1000 if ctx.quick else 40000):
        vals.append(rng.choice(pre) + rng.choice(num) + rng.choice(sep) + rng.choice(num) + rng.choice(suf))
    vals = list(dict.fromkeys(vals))
    lines, impl = [], []
    for v in vals:
        req = mock_request([] if v is None else [("Range", v)])
        try:
            s = req.http_range
        except ValueError:
            r = "err"
        except Exception as e:  # any other exception type is a mismatch by construction
            r = f"E_OTHER({type(e).__name__})"
        else:
            r = "slice %s %s" % (dec(s.start), dec(s.stop))
            if s.step != 1:
                r += " step=%r" % (s.step,)
        impl.append(r)
        lines.append("range " + ("none" if v is None else st(v)))
    outs = ctx.model(lines)
    for i, (v, r) in enumerate(zip(vals, impl)):
        ctx.case(("range", v), sample={"http_range": (v or "")[:40], "impl": r[:60]} if i % 901 == 5 else None)
        ctx.hit("http_range:" + r.split(" ")[0])
        if outs is not None:
            ctx.compare({"kind": "range", "value": None if v is None else st(v[:200])}, r, outs[i], "BaseRequest.http_range vs Aio.C15.httpRange")


# ------------------------------------------------------------------------------------ part 2: confinement
def _mk(path, content=None, link=None, fifo=False, isdir=False, sock=False):
    os.makedirs(os.path.dirname(path), exist_ok=True)
    if sock:
        import socket
        sk = socket.socket(socket.AF_UNIX, socket.SOCK_STREAM)
        sk.bind(path)          # leaves a socket inode behind
        sk.close()
    elif isdir:
        os.makedirs(path, exist_ok=True)
    elif link is not None:
        os.symlink(link, path)
    elif fifo:
        os.mkfifo(path)
    else:
        with open(path, "wb") as f:
            f.write(content)


class Tree:
    """B/root is the static root; B/outside and B/rootx are not.  Every regular file's content names the
    path (relative to B) where it really lives."""

    def __init__(self):
        self.B = os.path.realpath(tempfile.mkdtemp(prefix="c15t-"))
        B = self.B
        files = ["root/a.txt", "root/sub/b.txt", "root/sub/deep/c.txt", "root/a.txt.gz", "root/z.txt.gz", "root/sub/b.txt.gz",
                 "root/sp ace.txt", "root/%41.txt", "root/back\\slash.txt", "root/C:", "root/...", "root/caf\u00e9.txt", "root/sub/..b",
                 "root/%2e%2e", "root/sub/q%2Fr", "root/fifo.gz",
                 # regular files whose pre-compressed sibling NAME is taken by something that is not a regular file
                 "root/d1.txt", "root/d1.txt.gz/inner.txt", "root/s1.txt", "root/p1.txt", "root/sub/n1.txt", "root/l1.txt",
                 "outside/secret.txt", "outside/secret.txt.gz", "outside/dir/x.txt", "outside/a.txt", "rootx/evil.txt", "root.txt"]
        for rel in files:
            _mk(os.path.join(B, rel), content=("LOC:" + rel + "\n").encode() + b"payload\x00\xff")
        _mk(os.path.join(B, "root/emptydir"), isdir=True)
        links = {
            "root/link_in": "sub/b.txt", "root/link_out": "../outside/secret.txt", "root/dir_out": "../outside",
            "root/abs_out": os.path.join(B, "outside/secret.txt"), "root/abs_in": os.path.join(B, "root/sub"),
            "root/loop1": "loop2", "root/loop2": "loop1", "root/self": "self", "root/back": ".", "root/sub/up": "..",
            "root/dangling": "nothing-here", "root/chain1": "chain2", "root/chain2": "chain3", "root/chain3": "a.txt",
            "root/link_dir_in": "sub", "root/out_in": "../outside/back_in", "outside/back_in": "../root/sub/b.txt",
            "root/sub/b.txt.br": "../../outside/secret.txt", "root/a.txt.br": "sub/b.txt", "root/up_out": "../rootx",
            "root/slashes": "sub//deep/./c.txt", "root/dotdot_link": "sub/deep/../../../outside/dir",
            "outside/into_root": "../root", "root/sub/deep/out2": "../../../outside",
        }
        for rel, target in links.items():
            _mk(os.path.join(B, rel), link=target)
        _mk(os.path.join(B, "root/fifo"), fifo=True)
        _mk(os.path.join(B, "root/s1.txt.gz"), sock=True)
        _mk(os.path.join(B, "root/s1.txt.br"), isdir=True)
        _mk(os.path.join(B, "root/p1.txt.br"), fifo=True)
        _mk(os.path.join(B, "root/p1.txt.gz"), fifo=True)
        _mk(os.path.join(B, "root/sub/n1.txt.br"), isdir=True)
        _mk(os.path.join(B, "root/sub/n1.txt.gz"), fifo=True)
        _mk(os.path.join(B, "root/l1.txt.gz"), link="d1.txt.gz")        # link to a directory
        _mk(os.path.join(B, "root/l1.txt.br"), link="p1.txt.br")        # link to a FIFO
        self.root = os.path.join(B, "root")
        self.ids = {}     # real rel path -> id (stable across rescans)
        self._fifo_fds = []
        self.rescan()

    def hold_fifos(self):
        """keep a writer end open on every FIFO of the tree: an implementation that (wrongly) opens one must not block the
        whole process - it gets an empty, never-ending pipe whose fstat size is 0"""
        for fd in self._fifo_fds:
            os.close(fd)
        self._fifo_fds = []
        for dp, dns, fns in os.walk(self.B, followlinks=False):
            for n in fns:
                p = os.path.join(dp, n)
                if statmod.S_ISFIFO(os.lstat(p).st_mode):
                    self._fifo_fds.append(os.open(p, os.O_RDWR | os.O_NONBLOCK))

    def write(self, rel, tag=""):
        """(re)write a regular file whose content names its real location"""
        _mk(os.path.join(self.B, rel), content=("LOC:" + rel + "\n").encode() + b"payload\x00\xff" + tag.encode())

    def rescan(self):
        B = self.B
        self.hold_fifos()
        # table for the model: lstat of everything under B, plus B's ancestors as directories
        self.table = []   # (abs path str, node str)
        parts = B.split("/")[1:]
        for i in range(1, len(parts) + 1):
            self.table.append(("/" + "/".join(parts[:i]), "d"))
        for dp, dns, fns in os.walk(B, followlinks=False):
            for n in sorted(dns + fns):
                p = os.path.join(dp, n); s = os.lstat(p)
                if statmod.S_ISLNK(s.st_mode):
                    node = "l" + st(os.readlink(p))
                elif statmod.S_ISDIR(s.st_mode):
                    node = "d"
                elif statmod.S_ISREG(s.st_mode):
                    rel = os.path.relpath(p, B); self.ids.setdefault(rel, len(self.ids) + 1)
                    node = "f%d" % self.ids[rel]
                else:
                    node = "o"
                self.table.append((p, node))
        self.fs_col = ";".join(self.path_col(p) + "=" + node for p, node in self.table)
        # real locations reachable from the root when links are followed (for the follow_symlinks oracle)
        self.reachable = set()
        seen = set()

        def visit(p):
            try:
                s = os.stat(p)
            except OSError:
                return
            rp = os.path.realpath(p)
            if statmod.S_ISREG(s.st_mode):
                self.reachable.add(rp)
            elif statmod.S_ISDIR(s.st_mode) and rp not in seen and (rp + "/").startswith(B + "/"):
                seen.add(rp)
                for n in os.listdir(p):
                    visit(os.path.join(p, n))
        visit(self.root)

    @staticmethod
    def path_col(p):
        segs = [s for s in p.split("/") if s]
        return "/".join(st(s) for s in segs) if segs else "/"

    def close(self):
        for fd in self._fifo_fds:
            os.close(fd)
        self._fifo_fds = []
        shutil.rmtree(self.B, ignore_errors=True)


CONFIGS = [(f, s, p) for f in (False, True) for s in (False, True) for p in ("/static", "/")]


class StaticBed:
    def __init__(self, tree):
        self.tree = tree
        self.runners = {}
        self.seen = {}

    async def start(self):
        from aiohttp import web
        for cfg in CONFIGS:
            follow, show, pfx = cfg
            app = web.Application()
            res = app.router.add_static(pfx, self.tree.root, show_index=show, break_symlink_sandbox=follow)
            rec = self.seen.setdefault(cfg, {})
            orig_res = res.resolve
            router = app.router
            orig_router_resolve = router.resolve

            async def wrapped_res(request, _o=orig_res, _rec=rec):
                r = await _o(request)
                _rec["static"] = (request.rel_url.path_safe, None if r[0] is None else r[0]["filename"])
                return r

            async def wrapped_router(request, _o=orig_router_resolve, _rec=rec):
                _rec.clear()
                _rec["path_safe"] = request.rel_url.path_safe
                return await _o(request)
            res.resolve = wrapped_res
            router.resolve = wrapped_router
            quiet()
            runner = web.AppRunner(app, access_log=None)
            await runner.setup()
            self.runners[cfg] = (runner, res)

    async def stop(self):
        for runner, _ in self.runners.values():
            await runner.cleanup()

    async def run(self, cfg, target, ae, method="GET", extra=()):
        target = target.replace("{B}", self.tree.B).replace("{B%2F}", self.tree.B.replace("/", "%2F"))
        runner, res = self.runners[cfg]
        rec = self.seen[cfg]; rec.clear()
        out = await ask(runner, build_request(method, target, ([("Accept-Encoding", ae)] if ae is not None else []) + list(extra)))
        status, hdrs, body = parse_response(out, head=method == "HEAD")
        return status, hdrs, body, dict(rec)


def canon_static(tree, cfg, status, hdrs, body, rec):
    """canonical outcome of the implementation (same vocabulary as Driver.C15.showOut)"""
    if status == 400 and "path_safe" not in rec:
        return "badrequest"
    if "static" not in rec or rec["static"][1] is None:
        return "nomatch" if status == 404 else f"nomatch-but-{status}"
    if status in (403, 404, 500):
        return str(status)
    if status == 200 and hdrs.get("content-type", "").startswith("text/html") and body.startswith(b"<html>"):
        m = re.search(rb"<title>Index of /(.*)</title>", body)
        rel = m.group(1).decode() if m else "?"
        p = os.path.normpath(os.path.join(tree.root, rel))
        return "listing " + tree.path_col(p)
    if status == 200 and body.startswith(b"LOC:"):
        rel = body[4:body.index(b"\n")].decode()
        enc = hdrs.get("content-encoding")
        return "file %s %s %s" % (tree.path_col(os.path.join(tree.B, rel)), tree.ids.get(rel, "?"), st(enc) if enc else "-")
    return f"other-{status}"


def through_loop(tree, case):
    """does the (fully decoded) request path name a looping symlink below the root?  Only used to give the
    violation a root-cause-specific signature."""
    import errno, urllib.parse
    t = case["target"].replace("{B}", tree.B).replace("{B%2F}", tree.B.replace("/", "%2F")).split("?")[0].split("#")[0]
    segs = [x for x in urllib.parse.unquote(t, errors="surrogateescape").split("/") if x not in ("", ".")]
    if case["prefix"] != "/":
        segs = segs[1:]
    cur = tree.root
    for sgm in segs:
        if "\x00" in sgm:
            return False
        cur = os.path.normpath(os.path.join(cur, sgm)) if sgm == ".." else os.path.join(cur, sgm)
        try:
            if os.path.islink(cur):
                os.stat(cur)
        except OSError as e:
            if e.errno == errno.ELOOP:
                return True
    return False


_PLAIN = re.compile(r"[A-Za-z0-9_][A-Za-z0-9._-]*")


def expected_plain(tree, case):
    """(own bytes, {coding: sibling bytes}) when the target names, with plain path segments only, a regular file inside the
    root that is reached without traversing any link; else None (no positive expectation)."""
    t = case["target"]
    if "?" in t or "#" in t or "{" in t:
        return None
    if case["prefix"] == "/":
        if not t.startswith("/"):
            return None
        rel = t[1:]
    else:
        if not t.startswith(case["prefix"] + "/"):
            return None
        rel = t[len(case["prefix"]) + 1:]
    segs = rel.split("/")
    if not rel or not all(_PLAIN.fullmatch(x) for x in segs):
        return None
    p = os.path.join(tree.root, *segs)
    try:
        if os.path.realpath(p) != p or not statmod.S_ISREG(os.lstat(p).st_mode):
            return None
        with open(p, "rb") as f:
            own = f.read()
    except OSError:
        return None
    sibs = {}
    ae = (case.get("ae") or "").lower()
    for ext, coding in ((".br", "br"), (".gz", "gzip")):
        if coding in ae:
            q = p + ext
            try:
                if statmod.S_ISREG(os.lstat(q).st_mode):
                    with open(q, "rb") as f:
                        sibs[coding] = f.read()
            except OSError:
                pass
    return own, sibs


def oracle_static(ctx, tree, case, status, hdrs, body, rec):
    """confinement and exact bytes judged on the real response alone"""
    follow, show = case["follow"], case["show_index"]

    def bad(sig, detail):
        ctx.violation("C15/" + sig, case, detail + f" [status={status} content-encoding={hdrs.get('content-encoding')!r} body={body[:60]!r}]")
    # --- a plainly named regular file inside the root must be served: its own bytes, or those of a REGULAR
    #     pre-compressed sibling whose coding the client accepts
    exp = expected_plain(tree, case)
    if exp is not None:
        own, sibs = exp
        enc = hdrs.get("content-encoding")
        ok = status == 200 and ((enc is None and body == own) or (enc is not None and sibs.get(enc) == body))
        if not ok:
            if status == 200 and enc is not None and enc not in sibs:
                bad("content/non-regular-sibling-served", f"answered with Content-Encoding {enc!r} although the only entry named like the "
                    "pre-compressed sibling is not a regular file; the regular file's own bytes were expected")
            elif status != 200:
                bad("content/regular-file-not-served", "the target is a regular file inside the root, named without any link, dot segment or "
                    "escape; expected 200 with its bytes")
            else:
                bad("content/not-exact-bytes", "200 but the body is neither the file's bytes nor those of a regular pre-compressed sibling")
            return
    if status != 200:
        return
    if hdrs.get("content-type", "").startswith("text/html") and b"Index of /" in body[:200]:
        if not show:
            bad("listing/not-enabled", "a directory listing was returned although show_index is off")
        m = re.search(rb"<title>Index of /(.*)</title>", body)
        rel = m.group(1).decode() if m else "?"
        d = os.path.realpath(os.path.join(tree.root, rel))
        if not follow and not (d + "/").startswith(tree.root + "/"):
            if through_loop(tree, case):
                bad("confinement/outside-root-via-symlink-loop", "listing of a directory outside the root; the request path runs through a symlink loop")
            else:
                bad("listing/outside-root", "listing of a directory whose real location is outside the root")
        return
    if not body.startswith(b"LOC:"):
        bad("content/unknown-origin", "200 with a body that is neither a listing nor one of the tree's files"); return
    rel = body[4:body.index(b"\n")].decode()
    real = os.path.join(tree.B, rel)
    try:
        s = os.lstat(real)
        with open(real, "rb") as f:
            exact = f.read()
    except OSError:
        bad("content/unknown-origin", "marker names no file"); return
    if not statmod.S_ISREG(s.st_mode):
        bad("content/not-a-regular-file", "content served from something that is not a regular file")
    if body != exact:
        bad("content/not-exact-bytes", "body differs from the file's bytes")
    inside = (real + "/").startswith(tree.root + "/")
    if not follow and not inside:
        if through_loop(tree, case):
            bad("confinement/outside-root-via-symlink-loop",
                f"file whose real location {rel!r} is outside the root was served without follow_symlinks; the request path runs through a symlink loop")
        else:
            bad("confinement/outside-root" + ("-compressed-sibling" if hdrs.get("content-encoding") else ""),
                f"file whose real location {rel!r} is outside the root was served without follow_symlinks")
    if follow and not inside and real not in tree.reachable:
        bad("confinement/outside-root-not-via-link", f"{rel!r} is outside the root and not reachable through any link inside it")
    if follow and not inside:
        # with follow_symlinks the *request path* must still stay lexically inside the route
        import urllib.parse
        t = case["target"].replace("{B}", tree.B).replace("{B%2F}", tree.B.replace("/", "%2F")).split("?")[0].split("#")[0]
        segs = urllib.parse.unquote(t, errors="surrogateescape").split("/")
        segs = [x for x in segs if x not in ("", ".")]
        if case["prefix"] != "/":
            segs = segs[1:]
        rootsegs = [x for x in tree.root.split("/") if x]
        stack = list(rootsegs)
        for sgm in segs:
            if sgm == "..":
                if stack:
                    stack.pop()
            else:
                stack.append(sgm)
        escaped = stack[:len(rootsegs)] != rootsegs     # the lexically normalised path is not under the root
        if escaped:
            bad("confinement/dot-segments-escape-with-follow", "the request path, normalised lexically, lies outside the root and a file outside the root was served")


def gen_targets(ctx, tree):
    rng = ctx.rng
    B = tree.B
    names = ["a.txt", "sub", "b.txt", "deep", "c.txt", "link_in", "link_out", "dir_out", "abs_out", "abs_in", "loop1", "self", "back", "up",
             "dangling", "chain1", "link_dir_in", "out_in", "secret.txt", "fifo", "emptydir", "z.txt", "sp%20ace.txt", "%2541.txt", "%41.txt",
             "back%5Cslash.txt", "back\\slash.txt", "C:", "...", "caf%C3%A9.txt", "..b", "up_out", "evil.txt", "slashes", "dotdot_link", "dir", "x.txt",
             "%252e%252e", "q%252Fr", "q%2Fr", "nothing", "into_root", "outside", "root", "rootx", "out2", "root.txt", "a.txt.gz", "fifo.gz"]
    dots = ["..", ".", "", "%2e%2e", "%2E%2E", ".%2e", "%2e.", "%2e", "..%2f", "%2f", "%2F", "%2f..", "..%5c", "%5c", "%5C..%5C", "\\", "..\\", "..\\..",
            "%252e%252e", "%252F", "%00", "..%00", "a.txt%00", "..;", "....", ". .".replace(" ", "%20"), "%c0%ae%c0%ae", "%uff0e%uff0e", "..%c0%af", "%2e%2e%2f%2e%2e"]
    absf = ["{B}/outside/secret.txt", "{B%2F}%2Foutside%2Fsecret.txt", "/etc/passwd", "%2Fetc%2Fpasswd",
            "//host/share/x", "\\\\host\\share\\x", "%5C%5Chost%5Cshare", "C:/Windows/win.ini", "C:%5CWindows", "C:%2FWindows", "file:///etc/passwd", "{B}/root/a.txt",
            "{B%2F}%2Froot%2Fa.txt"]
    prefixes = ["/static", "/static", "/static", "", "/static/", "//static", "/./static", "/x/../static", "/static/../static", "/STATIC", "/static/.", "/static/..",
                "/static%2F", "/stati%63", "/%2e/static", "/static/../static/..", "/staticx", "/static.", "/..", "//"]
    targets = []
    # targeted: every file of the tree through every plausible spelling
    known = ["a.txt", "sub/b.txt", "sub/deep/c.txt", "link_in", "link_out", "dir_out/secret.txt", "dir_out/dir/x.txt", "abs_out", "abs_in/b.txt", "loop1", "self",
             "back/a.txt", "back/back/sub/b.txt", "sub/up/a.txt", "dangling", "chain1", "link_dir_in/b.txt", "out_in", "fifo", "emptydir", "emptydir/", "sub", "sub/", "",
             "z.txt", "sp%20ace.txt", "%2541.txt", "back%5Cslash.txt", "C:", "...", "caf%C3%A9.txt", "sub/..b", "up_out/evil.txt", "../rootx/evil.txt", "../outside/secret.txt",
             "sub/../../outside/secret.txt", "../root/a.txt", "../root.txt", "slashes", "dotdot_link/x.txt", "dotdot_link", "dir_out", "dir_out/", "dir_out/../../etc/passwd",
             "abs_in{B}/outside/secret.txt", "dir_out/../root.txt", "%252e%252e", "sub/q%252Fr", "sub/q%2Fr", "dir_out/into_root/a.txt", "dir_out/back_in",
             "a.txt/", "a.txt/.", "a.txt/..", "a.txt/../a.txt", "a.txt/x", "link_out/", "link_out/..", "dir_out/..", "dir_out/../a.txt", "dir_out/../root/a.txt",
             "dir_out/../outside/secret.txt", "link_dir_in/../a.txt", "link_dir_in/..", "sub/up", "sub/up/sub/up/a.txt", "abs_in/../a.txt", "fifo.gz", "fifo/x",
             "%2e%2e/outside/secret.txt", "%2e%2e%2foutside%2fsecret.txt", "..%2foutside%2fsecret.txt", "..%5coutside%5csecret.txt", "sub%2fb.txt", "sub%2Fb.txt", "sub%5cb.txt",
             "self/../link_out", "loop1/../link_out", "loop1/../dir_out/secret.txt", "self/../dir_out", "self/../dir_out/", "loop1/x/../../abs_out",
             "self/../a.txt", "self/../sub/b.txt", "self/..", "self/../..", "self/../../outside/secret.txt", "loop2/%2e%2e/up_out/evil.txt", "self/../dir_out/secret.txt",
             "self/x", "self/../self", "self/../dangling", "self/../fifo", "sub/up/self/../link_out", "self/../sub/up/link_out", "self/../out_in", "self/../chain1",
             # directory links crossing the root in intermediate position: files and listings below them, all spellings
             "dir_out/dir", "dir_out/dir/", "dir_out/dir/x.txt", "dir_out%2Fsecret.txt", "dir_out%2Fdir%2Fx.txt", "dir_out%2fdir", "sub/../dir_out/dir/x.txt",
             "sub/%2e%2e/dir_out/secret.txt", "dir_out/./dir/../secret.txt", "dir_out/dir/../secret.txt", "dir_out//dir//x.txt", "sub/deep/out2/secret.txt",
             "sub/deep/out2/dir/x.txt", "sub/deep/out2/dir/", "sub/deep/out2", "sub%2Fdeep%2Fout2%2Fdir%2Fx.txt", "sub/deep/../deep/out2/dir/x.txt",
             "up_out/", "up_out/evil.txt", "up_out%2Fevil.txt", "abs_in/../dir_out/dir/", "dir_out/into_root/sub/b.txt", "dir_out/into_root/dir_out/secret.txt",
             "sub//b.txt", "sub/./b.txt", "./a.txt", ".//a.txt", "sub/%2e/b.txt", "sub/%2e%2e/a.txt", "a.txt%00", "%00/../a.txt", "x%00/../a.txt", "sub/x%00/../b.txt"]
    for pfx in ("/static", ""):
        for k in known:
            targets.append(pfx + "/" + k)
        for a in absf:
            targets.append(pfx + "/" + a)
            targets.append(pfx + "/sub/" + a)
    targets += ["/../root/abs_out", "/static/../root/abs_out", "/../root/a.txt", "/sub/../../root/dir_out/secret.txt", "/static", "/", "/static/", "//", "/static//", "*", "/static?x=1", "/static/a.txt?x=../..", "/static/a.txt#f"]
    # grammar
    for _ in range(1200 if ctx.quick else 20000):
        pfx = rng.choice(prefixes)
        n = rng.randint(0, 6)
        segs = []
        for _ in range(n):
            r = rng.random()
            segs.append(rng.choice(names) if r < 0.55 else rng.choice(dots) if r < 0.92 else rng.choice(absf))
        sep = "/" if rng.random() < 0.85 else rng.choice(["//", "/./", "%2F", "/", "\\"])
        t = pfx + "/" + sep.join(segs) + (rng.choice(["", "", "", "/", "/.", "/.."]))
        targets.append(t)
    out = []
    for t in dict.fromkeys(targets):
        if t and not re.search(r"[\x00-\x20\x7f]", t):
            out.append(t)
    return out


SIBLING_TARGETS = ["a.txt", "sub/b.txt", "z.txt", "d1.txt", "s1.txt", "p1.txt", "sub/n1.txt", "l1.txt", "fifo", "d1.txt.gz", "d1.txt.gz/inner.txt",
                   "s1.txt.gz", "p1.txt.br", "sub/deep/c.txt", "link_in", "emptydir"]


def check_static(ctx):
    tree = Tree()
    try:
        targets = gen_targets(ctx, tree)
        AE = [None, "gzip", "br", "gzip, br", "GZIP, deflate", "identity", "xbrx"]
        cases = []
        for i, t in enumerate(targets):
            for j, cfg in enumerate(CONFIGS):
                if cfg[2] == "/" and t.startswith("/static") and (i + j) % 4:
                    pass  # still interesting (filename starts with static/), keep a quarter
                elif cfg[2] == "/static" and not t.lower().startswith(("/static", "//static", "/.", "/x", "/%2e")) and (i + j) % 3:
                    continue
                ae = AE[(i * 7 + j) % len(AE)] if (i + j) % 2 else None
                cases.append({"kind": "static", "follow": cfg[0], "show_index": cfg[1], "prefix": cfg[2], "target": t, "ae": ae})
        # pre-compressed sibling names taken by every file type (regular, link to file/dir/FIFO/outside, directory, socket, FIFO,
        # missing), each with every Accept-Encoding
        for rel in SIBLING_TARGETS:
            for cfg in CONFIGS:
                for ae in (AE if cfg[2] == "/static" else ["gzip, br", "gzip"]):
                    cases.append({"kind": "static", "follow": cfg[0], "show_index": cfg[1], "prefix": cfg[2],
                                  "target": ("" if cfg[2] == "/" else cfg[2]) + "/" + rel, "ae": ae})
        bed = StaticBed(tree)

        async def main():
            await bed.start()
            try:
                res = []
                for c in cases:
                    res.append(await bed.run((c["follow"], c["show_index"], c["prefix"]), c["target"], c["ae"]))
                return res
            finally:
                await bed.stop()
        resps, excs, quiescent = vloop.run(main)
        if resps is None:
            raise MachineryError("static bed did not finish")
        lines, idx = [], []
        for i, (c, (status, hdrs, body, rec)) in enumerate(zip(cases, resps)):
            if "path_safe" not in rec:
                continue  # rejected by the HTTP parser before routing (400)
            pfx = "" if c["prefix"] == "/" else c["prefix"]
            lines.append("get %s %s %s %s %s %s %s" % (b01(c["follow"]), b01(c["show_index"]), st(pfx), tree.path_col(tree.root),
                                                      st(rec["path_safe"]), st(c["ae"] or ""), tree.fs_col))
            idx.append(i)
        outs = ctx.model(lines)
        pos = {i: k for k, i in enumerate(idx)}
        for i, (c, (status, hdrs, body, rec)) in enumerate(zip(cases, resps)):
            canon = canon_static(tree, None, status, hdrs, body, rec)
            matched = "static" in rec and rec["static"][1] is not None
            ctx.case(("static", c), nontrivial=matched,
                     sample={"request": c, "impl": canon[:100].replace(tree.path_col(tree.B), "<B>")} if i % 2003 == 11 else None)
            ctx.hit("static:" + canon.split(" ")[0] + (":follow" if c["follow"] else ""))
            if canon.startswith("file"):
                rel = body[4:body.index(b"\n")].decode()
                ctx.hit("static:file-" + ("inside" if rel.startswith("root/") else "outside") + ("-enc" if hdrs.get("content-encoding") else ""))
            oracle_static(ctx, tree, c, status, hdrs, body, rec)
            if outs is not None and i in pos:
                ctx.compare({**c, "path_safe": rec["path_safe"]}, canon, outs[pos[i]], "StaticResource vs Aio.C15.serve")
    finally:
        tree.close()


# ------------------------------------------------------------------------------------ part 2a: the static route end to end
# Range / HEAD / Accept-Encoding through add_static (FileResponse built by the route, pre-compressed sibling chosen by it):
# the entity is the file the route selected, and every Range / Content-Range / Content-Length / validator refers to THAT file.
def check_static_ranges(ctx):
    tree = Tree()
    try:
        bed = StaticBed(tree)
        targets = ["a.txt", "sub/b.txt", "d1.txt", "p1.txt", "sub/deep/c.txt", "z.txt", "link_in", "emptydir"]
        ranges = [None, "bytes=0-3", "bytes=-4", "bytes=5-", "bytes=2-2", "bytes=9999-", "bytes=0-99999", "bytes=x"]
        cases = []
        for cfg in ((False, False, "/static"), (True, True, "/")):
            for t in targets:
                for ae in (None, "gzip", "br", "gzip, br"):
                    for rh in ranges:
                        for method in ("GET", "HEAD"):
                            cases.append({"kind": "static-range", "follow": cfg[0], "show_index": cfg[1], "prefix": cfg[2], "method": method,
                                          "target": ("" if cfg[2] == "/" else cfg[2]) + "/" + t, "ae": ae, "range": rh,
                                          "headers": [] if rh is None else [["Range", rh]]})

        async def main():
            await bed.start()
            try:
                return [await bed.run((c["follow"], c["show_index"], c["prefix"]), c["target"], c["ae"], c["method"], [tuple(h) for h in c["headers"]])
                        for c in cases]
            finally:
                await bed.stop()
        resps, excs, quiescent = vloop.run(main)
        if resps is None:
            raise MachineryError("static range bed did not finish")
        # model, stage 1: which file does the route select
        lines1 = []
        for c, (status, hdrs, body, rec) in zip(cases, resps):
            pfx = "" if c["prefix"] == "/" else c["prefix"]
            lines1.append("get %s %s %s %s %s %s %s" % (b01(c["follow"]), b01(c["show_index"]), st(pfx), tree.path_col(tree.root),
                                                       st(rec.get("path_safe", c["target"])), st(c["ae"] or ""), tree.fs_col))
        outs1 = ctx.model(lines1)
        byid = {v: k for k, v in tree.ids.items()}
        lines2, idx2 = [], []
        if outs1 is not None:
            for i, (c, o) in enumerate(zip(cases, outs1)):
                if o.startswith("file "):
                    _, pcol, fid, enc = o.split(" ")
                    real = os.path.join(tree.B, byid[int(fid)])
                    with open(real, "rb") as f:
                        content = f.read()
                    sst = os.stat(real)
                    # stage 2: FileResponse on that file (cur = its entity tag)
                    lines2.append(file_model_line(262144, c["method"], "%x-%x" % (sst.st_mtime_ns, sst.st_size), sst.st_mtime_ns,
                                                  [tuple(h) for h in c["headers"]], content))
                    idx2.append(i)
        outs2 = ctx.model(lines2) if lines2 else []
        m2 = dict(zip(idx2, outs2 or []))
        gets = {}
        for i, (c, (status, hdrs, body, rec)) in enumerate(zip(cases, resps)):
            key = (c["follow"], c["prefix"], c["target"], c["ae"], c["range"])
            ctx.case(("static-range", c), nontrivial=True, sample={"request": c, "status": status} if i % 301 == 5 else None)
            ctx.hit("static-range:status-%d" % status + ("-enc" if hdrs.get("content-encoding") else ""))
            # HEAD must announce what GET delivers
            if c["method"] == "GET":
                gets[key] = (status, hdrs)
            elif key in gets:
                gs, gh = gets[key]
                same = ("content-length", "content-range", "content-encoding", "etag", "last-modified")
                if gs != status or any(gh.get(h) != hdrs.get(h) for h in same if not (h == "content-length" and status not in (200, 206))):
                    ctx.violation("C15/consistency/head-differs-from-get", c, f"HEAD answered {status} "
                                  f"{ {h: hdrs.get(h) for h in same} }, GET {gs} { {h: gh.get(h) for h in same} }")
            # direct oracle on the entity the route must have selected
            exp = expected_plain(tree, {**c, "kind": "static"})
            if exp is not None:
                own, sibs = exp
                enc = hdrs.get("content-encoding")
                if status in (200, 206, 416) and (enc is None or enc in sibs):
                    rel = c["target"][len("" if c["prefix"] == "/" else c["prefix"]) + 1:]
                    # a 416 carries no Content-Encoding: it may describe the file itself or an accepted regular sibling
                    cands = [(enc, sibs[enc] if enc else own)] + ([(k, v) for k, v in sibs.items()] if status == 416 and enc is None else [])
                    worst = None
                    for e, content in cands:
                        real = os.path.join(tree.root, rel) + ({"gzip": ".gz", "br": ".br"}[e] if e else "")
                        sub = _Collect()
                        oracle_file(sub, c, content, {"im": None, "um": None, "inm": None, "ms": None, "ir": None},
                                    (status, hdrs, body), os.stat(real).st_mtime_ns)
                        if not sub.v:
                            worst = None
                            break
                        worst = worst or sub.v
                    for sig, detail in (worst or []):
                        ctx.violation(sig.replace("C15/", "C15/static/", 1), c, "through the static route: " + detail)
                elif status in (200, 206):
                    ctx.violation("C15/content/non-regular-sibling-served", c, f"Content-Encoding {enc!r} but no regular sibling of that coding exists")
                else:
                    ctx.violation("C15/content/regular-file-not-served", c, f"plain regular file answered {status}")
            if outs1 is not None:
                canon = canon_file_response(status, hdrs, body) if i in m2 else str(status)
                model = m2[i] if i in m2 else {"404": "404", "403": "403", "500": "500", "nomatch": "404"}.get(outs1[i].split(" ")[0], outs1[i].split(" ")[0])
                if outs1[i].startswith("listing"):
                    model = "200"
                ctx.compare(c, canon, model, "add_static + Range/HEAD/Accept-Encoding vs Aio.C15.serve then Aio.C15.fileResponse")
    finally:
        tree.close()


# ------------------------------------------------------------------------------------ part 2b: file-system histories
# One app / one StaticResource serves several requests while the tree changes in between: whatever the route remembers from an
# earlier request must not decide a later one.  Step = ["get", rel, ae] | ["mut", op, rel, arg].
def apply_mut(tree, op, rel, arg=None):
    p = os.path.join(tree.B, rel)

    def rm():
        if os.path.islink(p) or os.path.isfile(p) or (os.path.lexists(p) and not os.path.isdir(p)):
            os.unlink(p)
        elif os.path.isdir(p):
            shutil.rmtree(p)
    if op == "write":
        rm(); tree.write(rel, arg or "")
    elif op == "link":
        rm(); _mk(p, link=arg)
    elif op == "mkdir":
        rm(); _mk(p, isdir=True)
    elif op == "fifo":
        rm(); _mk(p, fifo=True)
    elif op == "sock":
        rm(); _mk(p, sock=True)
    elif op == "rm":
        rm()
    else:
        raise MachineryError(f"unknown mutation {op}")
    tree.rescan()


def history_scripts():
    """(name, steps); every script works on names of its own below root/h<k>/ (created by its first steps)"""
    G, M = "get", "mut"
    out_file, out_dir = "../../outside/secret.txt", "../../outside/dir"
    S = []
    S.append(("file-then-link-outside", [[M, "write", "root/H/f.txt"], [G, "H/f.txt", None], [M, "link", "root/H/f.txt", out_file], [G, "H/f.txt", None],
                                         [G, "H/f.txt", "gzip"], [M, "write", "root/H/f.txt", "v2"], [G, "H/f.txt", None]]))
    S.append(("missing-then-link-outside", [[M, "mkdir", "root/H"], [G, "H/g.txt", None], [M, "link", "root/H/g.txt", out_file], [G, "H/g.txt", None],
                                            [M, "rm", "root/H/g.txt"], [G, "H/g.txt", None]]))
    S.append(("dir-then-dirlink-outside", [[M, "write", "root/H/d/x.txt"], [G, "H/d/x.txt", None], [G, "H/d", None], [M, "link", "root/H/d", out_dir],
                                           [G, "H/d/x.txt", None], [G, "H/d", None], [G, "H/d/", None]]))
    S.append(("link-outside-then-file", [[M, "link", "root/H/k.txt", out_file], [G, "H/k.txt", None], [M, "write", "root/H/k.txt"], [G, "H/k.txt", None]]))
    S.append(("link-inside-then-link-outside", [[M, "write", "root/H/t.txt"], [M, "link", "root/H/m.txt", "t.txt"], [G, "H/m.txt", None],
                                                [M, "link", "root/H/m.txt", out_file], [G, "H/m.txt", None], [M, "link", "root/H/m.txt", "t.txt"], [G, "H/m.txt", None]]))
    S.append(("loop-then-link-outside", [[M, "link", "root/H/lp", "lp"], [G, "H/lp", None], [G, "H/lp/../lp", None], [M, "link", "root/H/lp", out_file],
                                         [G, "H/lp", None]]))
    S.append(("content-rewritten", [[M, "write", "root/H/c.txt", "one"], [G, "H/c.txt", None], [M, "write", "root/H/c.txt", "two-longer"], [G, "H/c.txt", None],
                                    [M, "rm", "root/H/c.txt"], [G, "H/c.txt", None], [M, "write", "root/H/c.txt", "3"], [G, "H/c.txt", None]]))
    for kind in ("mkdir", "fifo", "sock"):
        S.append((f"sibling-becomes-{kind}", [[M, "write", "root/H/s.txt"], [G, "H/s.txt", "gzip, br"], [M, kind, "root/H/s.txt.gz"], [G, "H/s.txt", "gzip, br"],
                                              [G, "H/s.txt", "gzip"], [M, kind, "root/H/s.txt.br"], [G, "H/s.txt", "br"], [G, "H/s.txt", None],
                                              [M, "write", "root/H/s.txt.gz"], [G, "H/s.txt", "gzip"], [M, "link", "root/H/s.txt.gz", out_file], [G, "H/s.txt", "gzip"]]))
    S.append(("file-becomes-dir-and-back", [[M, "write", "root/H/e"], [G, "H/e", None], [M, "mkdir", "root/H/e"], [G, "H/e", None], [M, "write", "root/H/e/i.txt"],
                                            [G, "H/e/i.txt", None], [M, "write", "root/H/e"], [G, "H/e", None], [G, "H/e/i.txt", None]]))
    S.append(("parent-replaced-by-link-inside", [[M, "write", "root/H/p/q.txt"], [M, "write", "root/H/r/q.txt"], [G, "H/p/q.txt", None], [M, "link", "root/H/p", "r"],
                                                 [G, "H/p/q.txt", None]]))
    return S


async def run_history(ctx, bed, tree, cfg, name, steps, tag):
    """executes the steps, judging every GET at once (direct oracle, against the tree as it is at that moment);
    returns [(step, case, status, hdrs, body, rec, fs_col)] of the GET steps for the comparison with the model"""
    out = []
    pfx = "" if cfg[2] == "/" else cfg[2]
    hcase = {"kind": "history", "follow": cfg[0], "show_index": cfg[1], "prefix": cfg[2], "name": name, "steps": steps}
    for k, stp in enumerate(steps):
        if stp[0] == "mut":
            apply_mut(tree, stp[1], stp[2].replace("/H", "/" + tag), stp[3] if len(stp) > 3 else None)
        else:
            target = pfx + "/" + stp[1].replace("H/", tag + "/", 1)
            case = {"kind": "static", "follow": cfg[0], "show_index": cfg[1], "prefix": cfg[2], "target": target, "ae": stp[2]}
            status, hdrs, body, rec = await bed.run(cfg, target, stp[2])
            out.append((k, case, status, hdrs, body, rec, tree.fs_col))
            sub = _Collect()
            oracle_static(sub, tree, case, status, hdrs, body, rec)
            for sig, detail in sub.v:
                ctx.violation(sig.replace("C15/", "C15/history/", 1), {**hcase, "upto": k}, f"step {k} GET {stp[1]} after the tree changed: " + detail)
    return out


def check_histories(ctx):
    tree = Tree()
    try:
        bed = StaticBed(tree)
        scripts = history_scripts()
        plan = [(i, j, cfg, name, steps) for i, (name, steps) in enumerate(scripts) for j, cfg in enumerate(CONFIGS) if cfg[2] == "/static" or i % 2 == 0]

        async def main():
            await bed.start()
            try:
                res = []
                for i, j, cfg, name, steps in plan:
                    res.append(await run_history(ctx, bed, tree, cfg, name, steps, f"h{i}_{j}"))
                return res
            finally:
                await bed.stop()
        res, excs, quiescent = vloop.run(main)
        if res is None:
            raise MachineryError("history bed did not finish")
        lines, keys = [], []
        for (i, j, cfg, name, steps), gets in zip(plan, res):
            for (k, case, status, hdrs, body, rec, fs_col) in gets:
                if "path_safe" in rec:
                    pfx = "" if cfg[2] == "/" else cfg[2]
                    lines.append("get %s %s %s %s %s %s %s" % (b01(cfg[0]), b01(cfg[1]), st(pfx), tree.path_col(tree.root), st(rec["path_safe"]),
                                                              st(case["ae"] or ""), fs_col))
                    keys.append((i, j, k))
        outs = ctx.model(lines)
        mout = dict(zip(keys, outs)) if outs is not None else {}
        for (i, j, cfg, name, steps), gets in zip(plan, res):
            hcase = {"kind": "history", "follow": cfg[0], "show_index": cfg[1], "prefix": cfg[2], "name": name, "steps": steps}
            ctx.case(("history", name, cfg), nontrivial=True, sample={"history": name, "config": list(cfg)} if (i + j) % 17 == 0 else None)
            ctx.hit("history:" + name)
            # the oracle judges every GET against the tree as it was at that moment: replay the mutations on the side
            for (k, case, status, hdrs, body, rec, fs_col) in gets:
                canon = canon_static(tree, None, status, hdrs, body, rec)
                ctx.hit("history:" + canon.split(" ")[0])
                if (i, j, k) in mout:
                    ctx.compare({**hcase, "step": k, "target": case["target"]}, canon, mout[(i, j, k)],
                                "StaticResource after a change of the tree vs Aio.C15.serve on the current tree")
    finally:
        tree.close()


def check_strings(ctx):
    """os.path.normpath, _unquote_path_safe and StaticResource.resolve called directly on path strings the dispatcher index
    would never route to the resource"""
    import aiohttp.web_urldispatcher as wu
    from yarl import URL
    rng = ctx.rng
    pieces = ["static", "a", "..", ".", "", "%2F", "%25", "%252F", "%2f", "%", "%2", "%25%32%46", "x%2Fy", "\\", "..\\", "b.txt", "%2F%2F", "%%", "%2F..", "%2525"]
    paths = ["", "/", "//", "///", "/static", "/static/", "//static", "///static/a", "/..", "/../static", "/static/..", "/static/../static/a", "static/a", "./static", "../static",
             "/a/../static/x", "/a/b/../../static/x/y", "/staticx", "/static/%2F/etc", "/static/%2F%2Fhost", "/static/%252F", "/static/%25", "/static/a%2Fb%25c", "//static/../a"]
    for _ in range(900 if ctx.quick else 40000):
        n = rng.randint(0, 6)
        lead = rng.choice(["/", "/", "/", "", "//", "///"])
        paths.append(lead + rng.choice(["/", "/", "/", "//"]).join(rng.choice(pieces) for _ in range(n)) + rng.choice(["", "", "/"]))
    paths = list(dict.fromkeys(paths))
    d = os.path.realpath(tempfile.mkdtemp(prefix="c15s-"))
    try:
        res = {pfx: wu.StaticResource(pfx, d) for pfx in ("/static", "", "/a/static")}
    finally:
        os.rmdir(d)
    lines, impl = [], []
    for p in paths:
        lines.append("norm " + st(p)); impl.append(st(os.path.normpath(p)))
        lines.append("unq " + st(p)); impl.append(st(wu._unquote_path_safe(p)))

    async def resolve_all():
        out = []
        for p in paths:
            for pfx, r in res.items():
                req = mock_request([], "/").clone(rel_url=URL.build(path=p, encoded=True))
                ps = req.rel_url.path_safe
                m, allowed = await r.resolve(req)
                out.append((pfx, ps, None if m is None else m["filename"]))
        return out
    loop = asyncio.new_event_loop()
    try:
        routed = loop.run_until_complete(resolve_all())
    finally:
        loop.close()
    for pfx, ps, fn in routed:
        lines.append(f"route {st(pfx)} {st(ps)}")
        impl.append("none" if fn is None else "some " + st(fn))
    outs = ctx.model(lines)
    for i, (l, r) in enumerate(zip(lines, impl)):
        ctx.case(("str", l), nontrivial=True, sample={"line": l[:80], "impl": r[:80]} if i % 4001 == 3 else None)
        ctx.hit("strings:" + l.split(" ")[0])
        if outs is not None:
            o = outs[i]
            if l.startswith("route "):
                o = re.sub(r" idx=[01]$", "", o)
            ctx.compare({"kind": "strings", "line": l[:300]}, r, o, "path string functions vs Aio.C15.normpath/unquotePathSafe/route")


# ------------------------------------------------------------------------------------ entry points
def check_corpus(ctx):
    """stored failing inputs (the findings reproduced so far) are evaluated first, with the direct oracle"""
    import glob, json
    from .common.guard import VERIF
    for f in sorted(glob.glob(os.path.join(VERIF, "corpus", "C15", "*.json"))):
        with open(f) as fh:
            case = json.load(fh).get("case")
        if case:
            ctx.case(("corpus", os.path.basename(f)), nontrivial=True)
            ctx.hit("corpus")
            replay(ctx, case)


def check(ctx):
    check_corpus(ctx)
    check_http_range(ctx)
    check_strings(ctx)
    check_files(ctx)
    check_sendfile(ctx)
    check_race(ctx)
    check_static(ctx)
    check_static_ranges(ctx)
    check_histories(ctx)
    ctx.exhaustive = not ctx.quick
    if not ctx.quick:
        ctx.extra["exhaustive_scope"] = ("all (first,last,suffix) specs over 0..size+2 x sizes 0..6 x GET/HEAD x 5 chunk sizes; all 8x8x5x5 "
                                         "If-Match x If-None-Match x If-Unmodified-Since x If-Modified-Since combinations x 2 mtimes")


def replay(ctx, case):
    kind = case.get("kind")
    if kind == "file":
        bed = FileBed([case["size"]])
        try:
            c = dict(case)
            cur, ns, content, sem = finish_file_case(bed, c)

            async def main():
                await bed.start()
                try:
                    return await bed.run(c)
                finally:
                    await bed.stop()
            resp, _, _ = vloop.run(main)
            if resp is None:
                raise MachineryError("replay did not finish")
            pub = {k: c[k] for k in ("kind", "size", "half", "cs", "method", "range", "kinds")}
            oracle_file(ctx, {**pub, "headers": [list(h) for h in c["headers"]]}, content, sem, resp, ns)
        finally:
            bed.close()
    elif kind == "static-range":
        sub = Ctx0()
        check_static_ranges(sub)
        for sig, v in sub.violations.items():
            if all(v["case"].get(k) == case.get(k) for k in ("follow", "prefix", "target", "ae", "range", "method")):
                ctx.violation(sig, v["case"], v["detail"])
    elif kind == "sendfile":
        sub = Ctx0()
        global _SENDFILE_ONLY
        _SENDFILE_ONLY = (case["size"], case["method"], case["range"])
        try:
            check_sendfile(sub)
        finally:
            _SENDFILE_ONLY = None
        for sig, v in sub.violations.items():
            if v["case"].get("size") == case["size"] and v["case"].get("range") == case["range"] and v["case"].get("method") == case["method"]:
                ctx.violation(sig, v["case"], v["detail"])
    elif kind == "race":
        bed = FileBed([case["size"]])
        try:
            async def main():
                await bed.start()
                try:
                    return await run_race(bed, case)
                finally:
                    await bed.stop()
            r, _, _ = vloop.run(main)
            if r is None:
                raise MachineryError("replay did not finish")
            resp, fired, new = r
            old, old_ns = bed.files[(case["size"], 0)][1], bed.files[(case["size"], 0)][2]
            oracle_race(ctx, case, old, new if fired else old, resp, old_ns, not fired)
        finally:
            bed.close()
    elif kind == "history":
        tree = Tree()
        try:
            bed = StaticBed(tree)
            cfg = (case["follow"], case["show_index"], case["prefix"])

            async def main():
                await bed.start()
                try:
                    await run_history(ctx, bed, tree, cfg, case["name"], case["steps"], "h0_0")
                finally:
                    await bed.stop()
            vloop.run(main)
        finally:
            tree.close()
    elif kind == "static":
        tree = Tree()
        try:
            bed = StaticBed(tree)

            async def main():
                await bed.start()
                try:
                    return await bed.run((case["follow"], case["show_index"], case["prefix"]), case["target"], case.get("ae"))
                finally:
                    await bed.stop()
            resp, _, _ = vloop.run(main)
            if resp is None:
                raise MachineryError("replay did not finish")
            oracle_static(ctx, tree, case, *resp)
        finally:
            tree.close()
