"""C16 — cookies are sent only where RFC 6265 scoping allows.

Implementation under test: aiohttp.cookiejar.CookieJar (+ the real Set-Cookie parse path of
aiohttp._cookie_helpers and the Cookie header a real ClientSession sends).
Model: lean/AioModel/C16.lean; reference store: lean/AioModel/C16Ref.lean;
theorems: lean/AioProps/C16.lean.
"""
import asyncio, calendar, json, os, re, tempfile, time as _time
from .common.codec import st, b01

PROPERTY = "C16"
LEAN_MODULES = ["AioProps.C16"]
THEOREMS = [
    "Aio.C16.inv_run",
    "Aio.C16.mem_domainCands",
    "Aio.C16.mem_pathCands",
    "Aio.C16.pathOK_iff",
    "Aio.C16.isDomainMatch_iff",
    "Aio.C16.sent_only_in_recorded_scope",
    "Aio.C16.never_to_non_matching_host",
    "Aio.C16.host_only_exact",
    "Aio.C16.path_scoped_partial",
    "Aio.C16.secure_only_https",
    "Aio.C16.not_after_expiry",
    "Aio.C16.nothing_withheld",
    "Aio.C16.eviction_complete",
    "Aio.C16.cleanup_keeps_live_entries",
    "Aio.C16.jar_refines_refstore_partial",
    "Aio.C16.cross_site_cannot_set_or_overwrite",
    "Aio.C16.identical_reset_becomes_host_only",
    "Aio.C16.f10_host_only_lost",
    "Aio.C16.stale_host_only_key",
    "Aio.C16.stale_deadline_after_overwrite",
    "Aio.C16.invalid_max_age_shadows_expires",
    "Aio.C16.expires_at_epoch_kept",
    "Aio.C16.multiple_trailing_slashes",
    "Aio.C16.path_key_collision",
    "Aio.C16.domain_attr_case",
]
RULE = ("histories of 3-16 operations over a host lattice (example.com, sub./a.sub./other. children, notexample.com, "
        "com, example.com. , example.org, evil.org, 127.0.0.1, 1.127.0.0.1, [::1]), 10 paths with /x vs /x/ vs /xy vs /x// "
        "neighbours and 4 schemes: responses carrying 1-3 Set-Cookie headers (Domain from the same lattice incl. leading/"
        "trailing dot, upper case, foreign and IP; Path; Secure; Max-Age incl. 0/negative/invalid; Expires in three date "
        "formats incl. the epoch and garbage), clock advances, clear, clear_domain, save+load, filter_cookies queries. "
        "Scripted deterministic histories (one per mechanism: acceptance lattice, expiry boundaries and deletions, persistence, clear/clear_domain, IP policy, treat_as_secure_origin, heap clean-up at its threshold, URL/header spellings, ClientSession redirect hops) run first on every seed. Generator classes: other spellings of the same history (URL case/port/userinfo/query/fragment, Set-Cookie separators, load into the same jar, a second jar in between), Secure cookies on jars with treat_as_secure_origin incl. near-miss origins, heap clean-up at its threshold timed against passing deadlines (35-75 sliding cookies), Set-Cookie headers with shuffled/re-cased attributes and one non-attribute token in any position, one-attribute pairs (two consecutive Set-Cookie of one site differing in exactly one of value/Domain/Path/Secure/HttpOnly/Max-Age/Expires, or in nothing), acceptance, selection, expiry/overwrite, heap-pressure (>100 stale heap entries), persistence, IP-address hosts (unsafe jar), "
        "malformed headers (correspondence only), ClientSession end-to-end. A history is non-trivial when at least one "
        "query returns a cookie or one cookie is refused; distinct by content.")
TRUSTED_BASE = [
    "Set-Cookie parsing (http.cookies.Morsel, _cookie_helpers.parse_set_cookie_headers), int() on Max-Age and "
    "CookieJar._parse_date are not modelled: the model receives the attributes the real parser produced; the direct "
    "oracle instead uses the attributes the generator intended, so the real parse path is exercised end to end",
    "yarl.URL (raw_host, path, scheme) is not modelled; hosts are ASCII",
    "heapq is a correct priority queue (the model keeps the heap as a bag)",
    "value quoting/encoding of _build_morsel and SimpleCookie.output is not modelled (generated values are plain tokens)",
    "lean/AioModel/C16Ref.lean is my reading of RFC 6265 5.1.3, 5.1.4, 5.2, 5.3, 5.4 (no public-suffix list; "
    "CookieJar's documented IP policy; expiry when deadline <= now)",
]
ASSUMPTIONS = [
    "filter_cookies returns a name-keyed map, so of several attachable cookies with one name only one is observable; "
    "the oracle requires that value to be one the reference store would attach and every attachable name to be present",
    "quote_cookie default; treat_as_secure_origin: the Lean model takes the secure? flag of a request as input, the harness computes it from the documented rule (origin = scheme, host, port) for the oracle and from a transcription of the code's yarl comparison for the model",
    "cookies set without a response URL (shared cookies of ClientSession(cookies=...)) are outside the property; they are "
    "covered by the correspondence run only",
]

NOW0 = 1_700_000_000
HOSTS = ["example.com", "sub.example.com", "a.sub.example.com", "other.example.com", "notexample.com", "com",
         "example.com.", "example.org", "evil.org", "127.0.0.1", "1.127.0.0.1", "[::1]"]
HOST_W = [10, 8, 3, 3, 3, 1, 1, 2, 2, 2, 1, 1]
DOMAINS = ["example.com", ".example.com", "sub.example.com", "a.sub.example.com", "other.example.com", "notexample.com",
           "com", "example.com.", ".", "Example.COM", "example.org", "evil.org", "127.0.0.1", "0.0.1", "ample.com",
           "xample.com", ".sub.example.com", "..example.com"]
PATHS = ["/", "/x", "/x/", "/x/y", "/xy", "/y", "/x//", "/x/y/z", "/x/y/", "//"]
COOKIE_PATHS = [None, None, None, "/", "/x", "/x/", "/x/y", "/xy", "/y", "/x//", "x", "", "//"]
NAMES = ["a", "a", "a", "b", "c", "sid"]
SCHEMES = ["http", "https", "ws", "wss"]
SECURE_ORIGINS = ["http://example.com", "http://sub.example.com:8080", "ws://example.com", "http://127.0.0.1",
                  "http://example.com/some/path?q=1", "HTTP://SUB.EXAMPLE.COM", "http://example.com:80", "https://example.com:8443"]
IP_HOSTS = ["127.0.0.1", "1.127.0.0.1", "127.0.0.1", "27.0.0.1", "[::1]", "example.com"]
IP_DOMAINS = ["127.0.0.1", "0.0.1", ".0.0.1", "1.127.0.0.1", ".127.0.0.1", "::1", "1", "example.com"]


def generate(repo):
    import aiohttp.cookiejar as cj
    return {"AioModel/Generated/C16.lean":
            "-- GENERATED by harness/c16.py from /repo/aiohttp/cookiejar.py — do not edit\n"
            "namespace Aio.Gen.C16\n"
            "/-- `_MIN_SCHEDULED_COOKIE_EXPIRATION` -/\n"
            f"def minScheduled : Nat := {int(cj._MIN_SCHEDULED_COOKIE_EXPIRATION)}\n"
            "/-- `CookieJar.MAX_TIME` -/\n"
            f"def maxTime : Int := {int(cj.CookieJar.MAX_TIME)}\n"
            "end Aio.Gen.C16\n"}


# ------------------------------------------------------------------------------ virtual time
class _Clock:
    """stands in for the `time` module inside aiohttp.cookiejar"""
    def __init__(self):
        self.now = float(NOW0)
    def time(self):
        return self.now
    def __getattr__(self, n):
        return getattr(_time, n)


CLOCK = _Clock()


def install_clock():
    import aiohttp.cookiejar as cj
    cj.time = CLOCK


# ------------------------------------------------------------------------------ cookie descriptions
WD = ["Mon", "Tue", "Wed", "Thu", "Fri", "Sat", "Sun"]
WDL = ["Monday", "Tuesday", "Wednesday", "Thursday", "Friday", "Saturday", "Sunday"]
MON = ["Jan", "Feb", "Mar", "Apr", "May", "Jun", "Jul", "Aug", "Sep", "Oct", "Nov", "Dec"]


def fmt_date(ts, style):
    t = _time.gmtime(ts)
    if style == 3:   # RFC 1123 without a zone (still a date for the RFC 6265 5.1.1 algorithm)
        return f"{WD[t.tm_wday]}, {t.tm_mday:02d} {MON[t.tm_mon-1]} {t.tm_year:04d} {t.tm_hour:02d}:{t.tm_min:02d}:{t.tm_sec:02d}"
    if style == 0:   # RFC 1123
        return f"{WD[t.tm_wday]}, {t.tm_mday:02d} {MON[t.tm_mon-1]} {t.tm_year:04d} {t.tm_hour:02d}:{t.tm_min:02d}:{t.tm_sec:02d} GMT"
    if style == 1:   # RFC 850
        return f"{WDL[t.tm_wday]}, {t.tm_mday:02d}-{MON[t.tm_mon-1]}-{t.tm_year % 100:02d} {t.tm_hour:02d}:{t.tm_min:02d}:{t.tm_sec:02d} GMT"
    return f"{WD[t.tm_wday]} {MON[t.tm_mon-1]} {t.tm_mday:2d} {t.tm_hour:02d}:{t.tm_min:02d}:{t.tm_sec:02d} {t.tm_year:04d}"  # asctime


ATTR_ORDER = ["domain", "path", "secure", "maxage", "expires", "httponly"]
JUNK_SIG = {
    "valueless": "C16/parse/valueless-token-drops-following-attributes",
    "barepath": "C16/parse/bare-path-drops-following-attributes",
    "nozone": "C16/parse/date-without-zone-not-parsed",
    "valued": "C16/parse/unknown-attribute-with-value-becomes-cookie",
}


def attr_tokens(c):
    """[(key, header text)] in header order; key "junk" marks a token that is not a cookie attribute of RFC 6265"""
    toks = []
    for k in c.get("order") or ATTR_ORDER:
        if k == "domain" and c.get("domain") is not None:
            toks.append((k, f"Domain={c['domain']}"))
        elif k == "path" and c.get("path") is not None:
            toks.append((k, f"Path={c['path']}"))
        elif k == "secure" and c.get("secure"):
            toks.append((k, "Secure"))
        elif k == "maxage" and c.get("maxage") is not None:
            toks.append((k, f"Max-Age={c['maxage']}"))
        elif k == "expires" and c.get("expires") is not None:
            e = c["expires"]
            toks.append((k, "Expires=" + (fmt_date(e[1], e[2]) if e[0] == "ts" else e[1])))
        elif k == "httponly" and c.get("httponly"):
            toks.append((k, "HttpOnly"))
    j = c.get("junk")
    if j:
        toks.insert(min(j["pos"], len(toks)), ("junk", j["text"]))
    cs = c.get("case")
    if cs:
        def recase(t):
            a, eq, b = t.partition("=")
            return (a.lower() if cs == "lower" else a.upper()) + eq + b
        toks = [(k, recase(t) if k != "junk" else t) for k, t in toks]
    return toks


def header_of(c):
    if "hdr" in c:
        return c["hdr"]
    sp = c.get("spell") or {}
    toks = [t for _, t in attr_tokens(c)]
    if sp.get("eq"):
        toks = [t.replace("=", sp["eq"], 1) for t in toks]
    return sp.get("sep", "; ").join([f"{c['name']}={c['value']}"] + toks) + sp.get("trail", "")


def nozone(c):
    e = c.get("expires")
    return e is not None and e[0] == "ts" and e[2] == 3


def junk_kinds(c):
    ks = []
    if c.get("junk"):
        ks.append(c["junk"]["kind"])
    if nozone(c):
        ks.append("nozone")
    return ks


def as_aiohttp_reads(c):
    """the cookie descriptions aiohttp's Set-Cookie parser makes of a header with a non-attribute token (used only
    to attribute a disagreement to that known parser behaviour, never to judge)"""
    cur = {"name": c["name"], "value": c["value"]}
    out = [cur]
    for k, _ in attr_tokens(c):
        if k == "junk":
            j = c["junk"]
            if j["kind"] == "benign":
                continue
            if j["kind"] in ("valueless", "barepath"):
                break
            cur = {"name": j["name"], "value": j["value"]}
            out.append(cur)
        elif k == "expires" and nozone(c):
            cur["expires"] = ["raw", "Wed,"]
            break
        else:
            cur[k] = c[k]
    return out


def intent_att_maxage(c):
    m = c.get("maxage")
    if m is None or m == "":
        return None
    return int(m) if re.fullmatch(r"-?[0-9]+", m) else "bad"


def intent_att_expires(c):
    e = c.get("expires")
    if e is None:
        return None
    return e[1] if e[0] == "ts" else "bad"


def att(x):
    return "-" if x is None else "bad" if x == "bad" else f"i{int(x)}"


def raw_fields(name, value, domain, path, secure, ma, ex):
    return ",".join([st(name), st(value), st(domain), st(path), b01(secure), att(ma), att(ex)])


def intent_raw(c):
    return raw_fields(c["name"], c["value"], c.get("domain") or "", c.get("path") or "", bool(c.get("secure")),
                      intent_att_maxage(c), intent_att_expires(c))


def parsed_raws(headers):
    """what the real parse path hands to update_cookies, as model input"""
    from aiohttp._cookie_helpers import parse_set_cookie_headers
    from aiohttp.cookiejar import CookieJar
    out = []
    for name, m in parse_set_cookie_headers(headers):
        ma = m["max-age"]
        if ma:
            try:
                ma = int(ma)
            except ValueError:
                ma = "bad"
        else:
            ma = None
        ex = m["expires"]
        if ex:
            ex = CookieJar._parse_date(ex)
            ex = "bad" if ex is None else ex
        else:
            ex = None
        out.append(raw_fields(name, m.value, m["domain"], m["path"], bool(m["secure"]), ma, ex))
    return out


DEFAULT_PORT = {"http": 80, "https": 443, "ws": 80, "wss": 443}


def _split(url):
    from urllib.parse import urlsplit
    u = urlsplit(url)
    scheme = u.scheme.lower()
    host = (u.hostname or "").lower()
    return scheme, host, (u.port or DEFAULT_PORT.get(scheme)), (u.path or "/")


def code_secure(url, origins=()):
    """`is_not_secure` the way the code that exists computes it: `request_url.origin() in treat_as_secure_origin`
    compares yarl URLs, for which an explicitly written default port (`http://h:80`) differs from an implicit one"""
    from urllib.parse import urlsplit
    def key(x):
        u = urlsplit(x)
        return (u.scheme.lower(), (u.hostname or "").lower(), u.port)
    return key(url)[0] in ("https", "wss") or any(key(o) == key(url) for o in origins)


def url_parts(url, origins=()):
    """(host, path, secure?) of a URL, read with urllib — not with yarl, which the implementation uses.
    secure = https/wss, or the URL's origin (scheme, host, port with defaults) is one of the jar's
    `treat_as_secure_origin` origins (documented CookieJar option)"""
    scheme, host, port, path = _split(url)
    secure = scheme in ("https", "wss") or any(_split(o)[:3] == (scheme, host, port) for o in origins)
    return host, path, secure


def config_of(ops):
    return ops[0][1] if ops and ops[0][0] == "O" else {}


def make_jar(allow_ip, cfg):
    from aiohttp.cookiejar import CookieJar
    from yarl import URL
    o = cfg.get("origins")
    if not o:
        return CookieJar(unsafe=allow_ip)
    form = cfg.get("form", "list")
    if form == "str":
        t = o[0]
    elif form == "url":
        t = URL(o[0])
    elif form == "mixed":
        t = [URL(x) if i % 2 else x for i, x in enumerate(o)]
    else:
        t = list(o)
    return CookieJar(unsafe=allow_ip, treat_as_secure_origin=t)


def eff_origins(cfg):
    o = cfg.get("origins") or []
    return o[:1] if cfg.get("form") in ("str", "url") else o


def decorate_url(r, url):
    """the same URL in another spelling: letter case of scheme and host, explicit default port, another port,
    userinfo, query, fragment — none of which RFC 6265 lets matter for cookies (secure-origin matching aside)"""
    from urllib.parse import urlsplit
    u = urlsplit(url)
    scheme, host, path = u.scheme, u.netloc, u.path
    x = r.random()
    if x < 0.2:
        scheme = scheme.upper()
    if r.random() < 0.25 and not host.startswith("["):
        host = host.upper() if r.random() < 0.5 else host.capitalize()
    y = r.random()
    if u.port is not None or "@" in host:
        y = 1.0
    if y < 0.15:
        host += f":{DEFAULT_PORT[u.scheme.lower()]}"
    elif y < 0.3:
        host += ":" + r.choice(["8080", "8443", "81"])
    if r.random() < 0.15 and "@" not in host:
        host = "user:pw@" + host
    tail = u.query and "?" + u.query or ""
    if tail:
        return f"{scheme}://{host}{path}{tail}"
    if r.random() < 0.3:
        tail += "?" + r.choice(["q=1", "a=b&c=/x/y", "x=a;Path=/"])
    if r.random() < 0.2:
        tail += "#" + r.choice(["f", "/x/y"])
    return f"{scheme}://{host}{path}{tail}"


# ------------------------------------------------------------------------------ generators
class Gen:
    def __init__(self, rng):
        self.rng = rng
        self.n = 0

    ip_mode = False

    def host(self):
        if self.ip_mode:
            return self.rng.choice(IP_HOSTS)
        return self.rng.choices(HOSTS, HOST_W)[0]

    def url(self, host=None, scheme=None):
        r = self.rng
        return f"{scheme or r.choice(SCHEMES)}://{host or self.host()}{r.choice(PATHS)}"

    def cookie(self, host, t, strict=True, expiry_p=0.45):
        r = self.rng
        self.n += 1
        c = {"name": r.choice(NAMES), "value": f"v{self.n}"}
        x = r.random()
        if x < 0.45:
            pass
        elif x < 0.70:
            # related to the response host: itself, a parent, a child, dotted
            h = host.strip("[]")
            parts = h.split(".")
            k = r.randrange(len(parts))
            c["domain"] = r.choice(["", "."]) + ".".join(parts[k:]) if r.random() < 0.8 else "sub." + h
        else:
            c["domain"] = r.choice(IP_DOMAINS if self.ip_mode else DOMAINS)
        c["path"] = r.choice(COOKIE_PATHS)
        if c["path"] is None:
            del c["path"]
        if r.random() < 0.2:
            c["secure"] = True
        if r.random() < 0.1:
            c["httponly"] = True
        x = r.random()
        if x < expiry_p * 0.6:
            c["maxage"] = r.choice(["0", "1", "5", "5", "60", "-1", "100000", "253402300799", "abc", "5x"])
        if x > 1 - expiry_p * 0.5 or (c.get("maxage") in ("abc", "5x") and r.random() < 0.6):
            y = r.random()
            if y < 0.12:
                c["expires"] = ["ts", 0, r.randrange(3)]
            elif y < 0.2:
                c["expires"] = ["raw", r.choice(["garbage", "Wed, 99 Jun 2021 10:18:14 GMT", "0"])]
            else:
                c["expires"] = ["ts", t + r.choice([-100, 0, 1, 5, 5, 60, 3600]), r.randrange(3)]
        if not strict:
            c["loose"] = True
            y = r.random()
            if y < 0.3:
                c["maxage"] = r.choice(["+5", "1_0", "", "5.0", "٣"])
            elif y < 0.5:
                c["hdr"] = r.choice([
                    f"{c['name']}={c['value']}; Domain", f"$Version=1; {c['name']}={c['value']}; $Path=/x",
                    f"{c['name']}={c['value']}; secure=1; PATH=/x", f"{c['name']}=\"{c['value']}\"; Path=\"/x\"",
                    f"{c['name']}={c['value']}; Max-Age=\" 5\"", f"{c['name']}; Path=/", f"path=/x; {c['name']}={c['value']}",
                    f"{c['name']}={c['value']} ; Path = /x ; Domain = example.com", f"{c['name']}={c['value']}; domain=EXAMPLE.com; Secure=false",
                    f"{c['name']}={c['value']}; b=v{self.n}x; Path=/y"])
        return c

    def history(self, kind):
        r = self.rng
        t = NOW0
        ops = []
        strict = kind != "malformed"
        n = r.randint(3, 16)
        if kind == "selection":
            w = dict(S=0.30, F=0.55, T=0.05, L=0.04, D=0.04, C=0.02)
        elif kind == "expiry":
            w = dict(S=0.40, F=0.28, T=0.25, L=0.04, D=0.02, C=0.01)
        elif kind == "persistence":
            w = dict(S=0.35, F=0.30, T=0.12, L=0.18, D=0.04, C=0.01)
        else:
            w = dict(S=0.42, F=0.32, T=0.10, L=0.06, D=0.07, C=0.03)
        kinds, weights = list(w), list(w.values())
        self.ip_mode = kind == "ip"
        focus = [self.host() for _ in range(2)] + (["127.0.0.1", "1.127.0.0.1"] if self.ip_mode else ["example.com", "sub.example.com"])
        for _ in range(n):
            k = r.choices(kinds, weights)[0]
            if k == "S":
                host = r.choice(focus) if r.random() < 0.7 else self.host()
                url = self.url(host)
                if kind == "malformed" and r.random() < 0.08:
                    url = None
                cs = [self.cookie(host, t, strict=strict or r.random() < 0.5,
                                  expiry_p=0.75 if kind == "expiry" else 0.4) for _ in range(r.choice([1, 1, 1, 2, 2, 3]))]
                if url is None:
                    # (a URL-less update with a Domain ending in "." leaves a Morsel without a "domain" key, and a later
                    #  filter_cookies for a host with a trailing dot raises KeyError — outside C16, reported separately)
                    # (likewise a URL-less cookie whose Domain is not a valid host name, e.g. "sub.::1", makes a later
                    #  load() raise ValueError from URL.build — also outside C16, reported separately)
                    for c in cs:
                        if not re.fullmatch(r"\.?[A-Za-z0-9]+(\.[A-Za-z0-9]+)*", c.get("domain") or "x") or "hdr" in c:
                            c.pop("domain", None); c.pop("hdr", None)
                ops.append(["S", url, cs])
            elif k == "F":
                ops.append(["F", self.url(r.choice(focus) if r.random() < 0.75 else None)])
            elif k == "T":
                dt = r.choice([1, 1, 4, 5, 6, 55, 60, 100, 3600, 100000])
                t += dt
                ops.append(["T", dt])
            elif k == "L":
                ops.append(["L"])
            elif k == "D":
                ops.append(["D", r.choice(DOMAINS + HOSTS)])
            else:
                ops.append(["C"])
        # always end by looking at every focus host on the stored paths, then dump
        for h in dict.fromkeys(focus):
            ops.append(["F", self.url(h, r.choice(["http", "https"]))])
        ops.append(["X"])
        return ops

    def pairs(self):
        """two consecutive Set-Cookie of one site that differ in exactly one attribute (or in none) — value, Domain,
        Path, Secure, HttpOnly, Max-Age, Expires toggled one at a time, in both orders, in one response or two, with
        an optional query / save+load / tick in between — then queries to the host, a child and the parent"""
        r = self.rng
        t = NOW0
        H = r.choice(["example.com", "sub.example.com", "example.com", "127.0.0.1"])
        parent = H.split(".", 1)[1] if H.count(".") >= 2 and not H[0].isdigit() else H
        self.n += 1
        base = {"name": r.choice(["a", "b", "sid"]), "value": f"v{self.n}"}
        dom_choices = [None, H, "." + H, parent]
        path_choices = [None, "/", "/x", "/x/y"]
        ma_choices = [None, "60", "100000"]
        ex_choices = [None, ["ts", NOW0 + 3600, 0], ["ts", NOW0 + 90, 1]]
        def setk(c, k, v):
            c = dict(c)
            if v is None or v is False:
                c.pop(k, None)
            else:
                c[k] = v
            return c
        base = setk(base, "domain", r.choice(dom_choices))
        base = setk(base, "path", r.choice(path_choices))
        base = setk(base, "secure", r.random() < 0.25)
        base = setk(base, "httponly", r.random() < 0.2)
        if r.random() < 0.35:
            base = setk(base, "maxage", r.choice(ma_choices))
        elif r.random() < 0.2:
            base = setk(base, "expires", r.choice(ex_choices))
        attr = r.choice(["none", "value", "domain", "domain", "domain", "path", "secure", "httponly", "maxage", "expires"])
        var = dict(base)
        if attr == "value":
            self.n += 1
            var["value"] = f"v{self.n}"
        elif attr == "domain":
            var = setk(var, "domain", r.choice([d for d in dom_choices if d != base.get("domain")]))
        elif attr == "path":
            var = setk(var, "path", r.choice([x for x in path_choices if x != base.get("path")]))
        elif attr in ("secure", "httponly"):
            var = setk(var, attr, not base.get(attr))
        elif attr == "maxage":
            var = setk(var, "maxage", r.choice([x for x in ma_choices if x != base.get("maxage")]))
        elif attr == "expires":
            var = setk(var, "expires", r.choice([x for x in ex_choices if x != base.get("expires")]))
        first, second = (base, var) if r.random() < 0.5 else (var, base)
        url1 = f"{r.choice(['http', 'https'])}://{H}{r.choice(PATHS)}"
        url2 = url1 if r.random() < 0.7 else f"{r.choice(['http', 'https'])}://{H}{r.choice(PATHS)}"
        qhosts = list(dict.fromkeys([H, "sub." + H if not H[0].isdigit() else "1." + H, parent, "other." + parent]))
        qpaths = list(dict.fromkeys([(first.get("path") or "/x").rstrip("/") + "/y", "/", "/x", "/x/y/z"]))
        def queries(k):
            return [["F", f"{r.choice(['http', 'https'])}://{r.choice(qhosts)}{r.choice(qpaths)}"] for _ in range(k)]
        ops = []
        if r.random() < 0.3:
            ops.append(["S", url1, [first, second]])
        else:
            ops.append(["S", url1, [first]])
            x = r.random()
            if x < 0.3:
                ops += queries(r.randint(1, 2))          # fills the Morsel cache
            elif x < 0.4:
                ops.append(["L"])
            elif x < 0.5:
                ops.append(["T", r.choice([1, 30])])
            ops.append(["S", url2, [second]])
        x = r.random()
        if x < 0.2:
            ops.append(["L"])
        elif x < 0.35:
            ops.append(["T", r.choice([1, 61, 100])])
        for h in qhosts:
            for sch in ("http", "https"):
                ops.append(["F", f"{sch}://{h}{r.choice(qpaths)}"])
        ops.append(["X"])
        return ops

    def parse_tolerance(self):
        """Set-Cookie headers with attributes in any order and any case, and with one token that is not an RFC 6265
        attribute in any position: a valueless token (`Foo`), a bare `Path`, an unknown attribute with a value
        (`Priority=High`), a date without zone, or a harmless known one (`SameSite=Lax`, `Partitioned`)"""
        r = self.rng
        H = r.choice(["example.com", "sub.example.com"])
        url = f"{r.choice(['http', 'https'])}://{H}{r.choice(['/', '/x/y', '/x/'])}"
        ops = []
        self.n += 1
        name = r.choice(["a", "sid"])
        if r.random() < 0.4:      # an earlier plain cookie that the odd header is meant to replace
            ops.append(["S", url, [{"name": name, "value": f"v{self.n}", "path": "/"}]])
            self.n += 1
        c = {"name": name, "value": f"v{self.n}"}
        if r.random() < 0.5:
            c["domain"] = r.choice(["example.com", ".example.com", H])
        if r.random() < 0.6:
            c["path"] = r.choice(["/", "/x", "/x/y"])
        if r.random() < 0.6:
            c["secure"] = True
        if r.random() < 0.3:
            c["httponly"] = True
        x = r.random()
        if x < 0.35:
            c["maxage"] = r.choice(["0", "30", "60"])
        elif x < 0.7:
            c["expires"] = ["ts", NOW0 + r.choice([-100, 30, 60]), r.choice([0, 1, 2, 3, 3])]
        order = list(ATTR_ORDER)
        r.shuffle(order)
        c["order"] = order
        if r.random() < 0.4:
            c["case"] = r.choice(["lower", "upper"])
        k = r.choice(["valueless", "valueless", "valued", "valued", "barepath", "benign", "none"])
        pos = r.randint(0, 4)
        if k == "valueless":
            c["junk"] = {"kind": k, "pos": pos, "text": r.choice(["Foo", "SameParty", "x-flag"])}
        elif k == "valued":
            self.n += 1
            jn = r.choice(["Priority", "Foo", "Max_Age"])
            c["junk"] = {"kind": k, "pos": pos, "text": f"{jn}=p{self.n}", "name": jn, "value": f"p{self.n}"}
        elif k == "barepath" and "path" not in c:
            c["junk"] = {"kind": k, "pos": pos, "text": r.choice(["Path", "path"])}
        elif k == "benign":
            c["junk"] = {"kind": k, "pos": pos, "text": r.choice(["SameSite=Lax", "Partitioned", "Version=1", "Comment=c"])}
        ops.append(["S", url, [c]])
        if r.random() < 0.3:
            ops.append(["L"])
        ops.append(["T", r.choice([1, 31, 61, 100])])
        for h in dict.fromkeys([H, "sub." + H, "example.com", "other.example.com"]):
            for sch in ("http", "https"):
                ops.append(["F", f"{sch}://{h}{r.choice(['/', '/x', '/x/y/z', '/y'])}"])
        ops.append(["X"])
        return ops

    def spell(self, ops, origins_p=0.0):
        """the same history in other spellings (URL forms, Set-Cookie separators), optionally on a jar configured
        with treat_as_secure_origin, reloaded into the same jar object, with a second jar used in between"""
        r = self.rng
        out = []
        cfg = {}
        if r.random() < origins_p:
            cfg["origins"] = r.sample(SECURE_ORIGINS, r.randint(1, 3))
            cfg["form"] = r.choice(["str", "url", "list", "mixed"])
        if r.random() < 0.3:
            cfg["decoy"] = True
        if cfg:
            out.append(["O", cfg])
        for op in ops:
            if op[0] == "S" and op[1] is not None:
                cs = []
                for c in op[2]:
                    if "hdr" not in c and r.random() < 0.5:
                        c = dict(c, spell={"sep": r.choice([";", "; ", " ; ", ";  ", ";\t"]),
                                           "eq": r.choice(["=", "=", " = ", "= "]), "trail": r.choice(["", "", ";", " ; "])})
                    cs.append(c)
                out.append(["S", decorate_url(r, op[1]), cs])
            elif op[0] == "F":
                out.append(["F", decorate_url(r, op[1])])
            elif op[0] == "L" and r.random() < 0.5:
                out.append(["L", "same"])
            else:
                out.append(op)
        return out

    def secure_origin(self):
        """Secure cookies on a jar with treat_as_secure_origin: queries at the listed origins and at near misses
        (other port, other scheme, sub-domain, parent)"""
        r = self.rng
        ops = []
        for _ in range(r.randint(1, 3)):
            h = r.choice(["example.com", "sub.example.com", "127.0.0.1"])
            self.n += 1
            c = {"name": r.choice(["a", "b", "sid"]), "value": f"v{self.n}", "secure": r.random() < 0.8, "path": "/"}
            if r.random() < 0.5 and h != "127.0.0.1":
                c["domain"] = "example.com"
            ops.append(["S", f"https://{h}/", [c]])
        for _ in range(r.randint(4, 9)):
            sch = r.choice(["http", "http", "ws", "https"])
            h = r.choice(["example.com", "sub.example.com", "127.0.0.1", "other.example.com"])
            port = r.choice(["", "", ":80", ":8080", ":443"])
            ops.append(["F", f"{sch}://{h}{port}/{r.choice(['', 'x'])}"])
        ops.append(["X"])
        ops = self.spell(ops, origins_p=1.0)
        return ops

    def compaction(self):
        """the heap clean-up of _do_expiration at its threshold (> 100 entries and > 2 x live deadlines), timed against
        deadlines: n long-lived cookies with a sliding Max-Age refreshed in rounds until the heap is within a few
        entries of the threshold (on either side), a few short-lived cookies whose deadline passes while nothing
        touches the jar, then the first operation after the deadline is a small update (which may or may not be the
        one that crosses the threshold) or a query; afterwards queries long after every short deadline"""
        r = self.rng
        host = r.choice(["example.com", "sub.example.com"])
        url = f"https://{host}/"
        ops = []
        n = r.randint(35, 75)
        k = r.randint(1, 4)
        long_age = r.choice([3600, 7200, 100000])
        short = []
        for i in range(k):
            self.n += 1
            short.append({"name": f"s{i}", "value": f"v{self.n}", "maxage": str(r.choice([30, 60, 61, 90])), "path": "/"})
        def longc(i):
            return {"name": f"t{i}", "value": "v", "maxage": str(long_age), "path": "/"}
        first = [longc(i) for i in range(n)]
        r.shuffle(first)
        ops.append(["S", url, short + first if r.random() < 0.5 else first + short])
        heap = n + k
        live = n + k
        # refresh rounds: aim at a heap size near max(100, 2*live) from below or just above
        target = max(101, 2 * live + 1) + r.choice([-6, -3, -2, -1, -1, 0, 0, 1, 2, 5])
        t = 0
        while heap < target:
            dt = r.choice([1, 2, 5, 10])
            if t + dt >= 28:
                dt = 0           # stay before the earliest short deadline; equal-time refreshes push nothing
                break
            t += dt
            ops.append(["T", dt])
            m = min(target - heap, r.randint(1, n))
            idx = r.sample(range(n), m)
            ops.append(["S", url, [longc(i) for i in idx]])
            heap += m
        x = r.random()
        if x < 0.5:
            ops.append(["T", max(1, 29 - t)]); t = max(t + 1, 29)
            ops.append(["F", url])                   # just before the deadlines: everything still valid
        # let some or all short deadlines pass with no jar operation in between
        dt = r.choice([31, 61, 62, 91, 95]) - t if t < 29 else r.choice([2, 32, 33, 62, 70])
        ops.append(["T", max(1, dt)])
        y = r.random()
        if y < 0.75:
            m = r.randint(1, 6)
            ops.append(["S", url, [longc(i) for i in r.sample(range(n), m)]])   # may cross the threshold now
        elif y < 0.85:
            ops.append(["F", url])
        else:
            ops.append(["L"])
        ops.append(["X"])
        for dt in (r.choice([1, 40, 100]), 5000, 1000000):
            ops.append(["T", dt])
            ops.append(["F", url])
        ops.append(["X"])
        return ops

    def heap_pressure(self):
        """> 100 heap entries most of which are stale: exercises the heap clean-up branch"""
        r = self.rng
        ops, t = [], NOW0
        hosts = ["example.com", "sub.example.com"]
        for i in range(r.randint(105, 140)):
            h = r.choice(hosts)
            self.n += 1
            c = {"name": r.choice(["a", "b", "c"]), "value": f"v{self.n}", "maxage": str(r.choice([3, 50, 500, 5000]) + i)}
            if r.random() < 0.3:
                c["domain"] = "example.com"
            ops.append(["S", f"http://{h}/", [c]])
            if r.random() < 0.05:
                ops.append(["T", r.choice([1, 10, 100])])
            if r.random() < 0.03:
                ops.append(["F", f"http://{r.choice(hosts)}/"])
        ops += [["X"], ["T", r.choice([1, 60, 600])], ["F", "http://sub.example.com/"], ["F", "http://example.com/"],
                ["T", 10000], ["F", "http://sub.example.com/"], ["F", "http://example.com/"], ["X"]]
        return ops


def is_strict(ops):
    return all(op[1] is not None and not any(c.get("loose") for c in op[2]) for op in ops if op[0] == "S")


# ------------------------------------------------------------------------------ the implementation
def canon_pairs(pairs):
    return "[" + ",".join(sorted(f"{st(n)}={st(v)}" for n, v in pairs)) + "]"


def canon_reply(reply):
    """sort the items of every segment of a driver reply"""
    out = []
    for seg in reply.split(" "):
        if seg.startswith("[") and seg.endswith("]"):
            items = seg[1:-1].split(",") if len(seg) > 2 else []
            out.append("[" + ",".join(sorted(items)) + "]")
        elif seg.startswith("{") and seg.endswith("}"):
            parts = []
            for part in seg[1:-1].split(";"):
                k, _, v = part.partition("=")
                parts.append(k + "=" + ",".join(sorted(v.split(","))) if v else k + "=")
            out.append("{" + ";".join(parts) + "}")
        else:
            out.append(seg)
    return " ".join(out)


def dump_jar(jar):
    ck = []
    for (d, p), sc in jar._cookies.items():
        for name, m in sc.items():
            ck.append("|".join([st(d), st(p), st(name), st(m.value), st(m.get("domain", "")), st(m.get("path", "")), b01(m.get("secure"))]))
    ho = ["|".join([st(d), st(n)]) for d, n in jar._host_only_cookies]
    ex = ["|".join([st(d), st(p), st(n), str(int(w))]) for (d, p, n), w in jar._expirations.items()]
    hp = ["|".join([str(int(w)), st(d), st(p), st(n)]) for w, (d, p, n) in jar._expire_heap]
    return "{cookies=" + ",".join(sorted(ck)) + ";ho=" + ",".join(sorted(ho)) + ";exp=" + ",".join(sorted(ex)) + \
        ";heap=" + ",".join(sorted(hp)) + ";keys=" + "/".join(st(d) + "|" + st(p) for d, p in jar._cookies) + "}"


_TMP = None


def tmp_path():
    global _TMP
    if _TMP is None:
        _TMP = tempfile.TemporaryDirectory(prefix="c16-")
    return os.path.join(_TMP.name, "jar.json")


def _cleanup_tmp():
    global _TMP
    if _TMP is not None:
        _TMP.cleanup()
        _TMP = None


def run_impl(ops, allow_ip):
    """run a history on the real CookieJar. returns (segments, outputs per F op as dict, model line, ref line)"""
    from aiohttp.cookiejar import CookieJar
    from yarl import URL
    install_clock()
    CLOCK.now = float(NOW0)
    cfg = config_of(ops)
    origins = eff_origins(cfg)
    jar = make_jar(allow_ip, cfg)
    decoy = make_jar(not allow_ip, {}) if cfg.get("decoy") else None
    segs, fouts, toks, rtoks = [], [], [], []
    for op in ops:
        k = op[0]
        if decoy is not None and k in "SFL":
            # a second jar in the same process, used in between, must not matter
            decoy.update_cookies_from_headers(["a=decoy; Domain=example.com; Path=/; Max-Age=1", "b=decoy"],
                                              URL("http://sub.example.com/x"))
            decoy.filter_cookies(URL("http://example.com/"))
            if k == "L":
                decoy.clear()
        if k == "O":
            continue
        if k == "S":
            headers = [header_of(c) for c in op[2]]
            raws = parsed_raws(headers)
            if op[1] is None:
                from aiohttp._cookie_helpers import parse_set_cookie_headers
                jar.update_cookies(parse_set_cookie_headers(headers))
                toks.append("S|none|-|" + ";".join(raws))
                rtoks.append("S|none|-|")
            else:
                u = URL(op[1])
                jar.update_cookies_from_headers(headers, u)
                host = "none" if u.raw_host is None else st(u.raw_host)
                if raws:    # update_cookies_from_headers does not call update_cookies when nothing was parsed
                    toks.append(f"S|{host}|{st(u.path)}|" + ";".join(raws))
                rtoks.append(f"S|{host}|{st(u.path)}|" + ";".join(intent_raw(c) for c in op[2] if "hdr" not in c))
        elif k == "T":
            CLOCK.now += op[1]
            toks.append(f"T|{op[1]}"); rtoks.append(toks[-1])
        elif k == "F":
            u = URL(op[1])
            res = jar.filter_cookies(u)
            pairs = [(n, m.value) for n, m in res.items()]
            fouts.append(dict(pairs))
            segs.append(canon_pairs(pairs))
            toks.append(f"F|{st(u.raw_host or '')}|{st(u.path)}|{b01(code_secure(op[1], origins))}")
            rtoks.append(f"F|{st(u.raw_host or '')}|{st(u.path)}|{b01(url_parts(op[1], origins)[2])}")
        elif k == "C":
            jar.clear(); toks.append("C"); rtoks.append("C")
        elif k == "D":
            jar.clear_domain(op[1]); toks.append("D|" + st(op[1])); rtoks.append(toks[-1])
        elif k == "L":
            p = tmp_path()
            jar.save(p)
            if len(op) > 1 and op[1] == "same":
                jar.load(p)               # load() replaces the contents of the jar it is called on
            else:
                jar2 = make_jar(allow_ip, cfg)
                jar2.load(p)
                jar = jar2
            toks.append("L"); rtoks.append("L")
        elif k == "X":
            segs.append(dump_jar(jar)); toks.append("X"); rtoks.append("X")
    head = f"{b01(allow_ip)} {NOW0} "
    return segs, fouts, "run " + head + " ".join(toks), "ref " + head + " ".join(rtoks)


# ------------------------------------------------------------------------------ RFC 6265 reference store (python twin of Aio.C16.Ref)
MAX_TIME = None


def max_time():
    global MAX_TIME
    if MAX_TIME is None:
        from aiohttp.cookiejar import CookieJar
        MAX_TIME = int(CookieJar.MAX_TIME)
    return MAX_TIME


def r_is_ip(host):
    if not host:
        return False
    if ":" in host:
        return True
    r = host.replace(".", "")
    return r != "" and all("0" <= ch <= "9" for ch in r)


def r_domain_match(host, d):
    return host == d or (not r_is_ip(host) and host.endswith("." + d))


def r_path_match(req, cp):
    return req == cp or (req.startswith(cp) and (cp.endswith("/") or req[len(cp):len(cp) + 1] == "/"))


def r_default_path(p):
    if not p.startswith("/"):
        return "/"
    pre = p[:p.rfind("/")]
    return pre if pre else "/"


def r_lower(s):
    return "".join(chr(ord(ch) + 32) if "A" <= ch <= "Z" else ch for ch in s)


def r_domain_attr(d):
    if d.endswith("."):
        d = ""
    if d.startswith("."):
        d = d[1:]
    return r_lower(d)


class RefStore:
    def __init__(self, allow_ip):
        self.allow_ip = allow_ip
        self.now = NOW0
        self.s = []          # dicts: name value domain path host_only secure expiry ev
        self.ledger = []     # every Set-Cookie event with what RFC 6265 makes of it

    def expired(self, c, now=None):
        return c["expiry"] is not None and c["expiry"] <= (self.now if now is None else now)

    def evict(self):
        self.s = [c for c in self.s if not self.expired(c)]

    def receive(self, host, upath, descs):
        ip_block = not self.allow_ip and r_is_ip(host)
        for c in descs:
            ma, ex = intent_att_maxage(c), intent_att_expires(c)
            if isinstance(ma, int):
                expiry = min(self.now + ma, max_time())
            elif isinstance(ex, int):
                expiry = ex
            else:
                expiry = None
            d = r_domain_attr(c.get("domain") or "")
            pa = c.get("path") or ""
            path = pa if pa.startswith("/") else r_default_path(upath)
            ev = {"desc": c, "host": host, "time": self.now, "ma": ma, "ex": ex, "accepted": False, "why": None,
                  "seq": len(self.ledger)}
            self.ledger.append(ev)
            if ip_block:
                ev["why"] = "ip-host"
                continue
            if d == "":
                rc = dict(name=c["name"], value=c["value"], domain=host, path=path, host_only=True,
                          secure=bool(c.get("secure")), expiry=expiry, ev=ev)
            elif not r_domain_match(host, d):
                ev["why"] = "foreign-domain"
                continue
            else:
                rc = dict(name=c["name"], value=c["value"], domain=d, path=path, host_only=False,
                          secure=bool(c.get("secure")), expiry=expiry, ev=ev)
            ev["accepted"] = True
            ev["rc"] = rc
            for i, x in enumerate(self.s):
                if (x["name"], x["domain"], x["path"]) == (rc["name"], rc["domain"], rc["path"]):
                    x["ev"]["replaced_at"] = ev["seq"]
                    self.s[i] = rc
                    break
            else:
                self.s.append(rc)
        if not ip_block:
            self.evict()

    def attachable(self, c, host, rpath, secure, now=None):
        hostok = (host == c["domain"]) if c["host_only"] else r_domain_match(host, c["domain"])
        return hostok and r_path_match(rpath, c["path"]) and (not c["secure"] or secure) and not self.expired(c, now)

    def select(self, host, rpath, secure):
        self.evict()
        if not self.allow_ip and r_is_ip(host):
            return []
        return [c for c in self.s if self.attachable(c, host, rpath, secure)]

    def clear(self):
        for c in self.s:
            c["ev"]["cleared"] = True
        self.s = []

    def clear_domain(self, d):
        self.evict()
        keep = []
        for c in self.s:
            if r_domain_match(c["domain"], d):
                c["ev"]["cleared"] = True
            else:
                keep.append(c)
        self.s = keep


def rstrip_key(p):
    return p.rstrip("/")


def classify_over(ref, n, v, host, rpath, secure):
    """why must (n, v) not be attached?  → structural signature"""
    evs = [e for e in ref.ledger if e["desc"]["name"] == n and e["desc"]["value"] == v]
    if not evs:
        return "C16/sent-unknown-cookie", "a cookie that no response ever set"
    ev = evs[-1]
    if not ev["accepted"]:
        if ev["why"] == "foreign-domain":
            return "C16/cross-site-set/foreign-domain-accepted", f"set by {ev['host']} with Domain={ev['desc'].get('domain')!r}"
        return "C16/ip-host-cookie-accepted", f"set by IP host {ev['host']}"
    rc = ev["rc"]
    if rc["host_only"] and host != rc["domain"]:
        # was it a re-set, without Domain, of a domain cookie that is otherwise the same (same name, value, path)?
        for o in ref.ledger:
            if o is not ev and o.get("accepted") and o["seq"] < ev["seq"] and not o["rc"]["host_only"] \
                    and (o["rc"]["name"], o["rc"]["value"], o["rc"]["domain"], o["rc"]["path"]) == (n, v, rc["domain"], rc["path"]):
                return "C16/host-only-lost/identical-cookie-reset-without-domain", \
                    f"{n}={v} re-set by {rc['domain']} without Domain must become host-only, still sent to {host}"
        # was a same-named cookie of this host at another path deleted before?
        for o in ref.ledger:
            if o is ev or not o.get("accepted"):
                continue
            oc = o["rc"]
            if oc["name"] == n and oc["domain"] == rc["domain"] and rstrip_key(oc["path"]) != rstrip_key(rc["path"]):
                if oc["expiry"] is not None and oc["expiry"] <= ref.now:
                    return "C16/host-only-lost/same-name-other-path-expired", \
                        f"host-only cookie of {rc['domain']} sent to {host} after {n} at {oc['path']} expired"
                if o.get("cleared"):
                    return "C16/host-only-lost/same-name-other-path-cleared", \
                        f"host-only cookie of {rc['domain']} sent to {host} after {n} at {oc['path']} was cleared"
        return "C16/host-only-lost/other", f"host-only cookie of {rc['domain']} sent to {host}"
    if not rc["host_only"] and not r_domain_match(host, rc["domain"]):
        return "C16/sent-to-non-matching-host", f"cookie for {rc['domain']} sent to {host}"
    if not r_path_match(rpath, rc["path"]):
        sub = "multiple-trailing-slashes" if rc["path"].endswith("//") else "other"
        return f"C16/path-mismatch/{sub}", f"cookie path {rc['path']!r} sent to {rpath!r}"
    if rc["secure"] and not secure:
        return "C16/secure-cookie-over-insecure-scheme", "Secure cookie sent over http/ws"
    if rc["expiry"] is not None and rc["expiry"] <= ref.now:
        if ev["ma"] == "bad" and isinstance(ev["ex"], int):
            sub = "invalid-max-age-shadows-expires"
        elif ev["ma"] is None and ev["ex"] == 0:
            sub = "expires-at-epoch"
        else:
            sub = "other"
        return f"C16/sent-after-expiry/{sub}", f"expired at {rc['expiry']}, sent at {ref.now}"
    if ev.get("cleared"):
        return "C16/sent-after-clear", "cookie was cleared"
    if "replaced_at" in ev:
        by = ref.ledger[ev["replaced_at"]]
        if any(ch.isupper() for ch in (by["desc"].get("domain") or "")):
            return "C16/not-sent/domain-attr-case", f"overwrite with Domain={by['desc']['domain']!r} refused, old value still sent"
        return "C16/stale-value-sent", "cookie was overwritten by a later Set-Cookie of the same site"
    return "C16/over-sent/other", "not attachable per the reference store"


def classify_under(ref, cands, host, rpath):
    c = cands[-1]
    ev = c["ev"]
    n = c["name"]
    key = (c["domain"], rstrip_key(c["path"]), n)
    earlier = [o for o in ref.ledger if o.get("accepted") and o["seq"] < ev["seq"]]
    later = [o for o in ref.ledger if o.get("accepted") and o["seq"] > ev["seq"]]
    if any(ch.isupper() for ch in (ev["desc"].get("domain") or "")):
        return "C16/not-sent/domain-attr-case", f"Domain={ev['desc']['domain']!r} refused"
    for o in later:
        oc = o["rc"]
        if (oc["domain"], rstrip_key(oc["path"]), oc["name"]) == key and oc["path"] != c["path"]:
            return "C16/not-sent/path-key-collision", f"{c['path']!r} replaced by {oc['path']!r}"
    if not c["host_only"] and host != c["domain"]:
        for o in ref.ledger:
            if o is not ev and o.get("accepted") and o["rc"]["host_only"] and o["rc"]["domain"] == c["domain"] and o["rc"]["name"] == n:
                return "C16/not-sent/stale-host-only-key", f"domain cookie {n} of {c['domain']} withheld from {host}"
    for o in earlier:
        oc = o["rc"]
        # (only when the jar sees no valid expiry on the new cookie: no Max-Age and no usable Expires, or an invalid
        #  Max-Age, which makes it skip Expires; a new cookie WITH its own deadline that is evicted early is another defect)
        jar_sees_none = not isinstance(ev["ma"], int) and (ev["ma"] == "bad" or not isinstance(ev["ex"], int) or ev["ex"] == 0)
        if (oc["domain"], rstrip_key(oc["path"]), oc["name"]) == key and oc["expiry"] is not None and oc["expiry"] <= ref.now \
                and (c["expiry"] is None or c["expiry"] > ref.now) and jar_sees_none:
            return "C16/not-sent/stale-expiry-after-overwrite", f"deadline {oc['expiry']} of the overwritten cookie applied"
    return "C16/not-sent/other", f"attachable cookie {n} missing"


def judge(ops, allow_ip, fouts):
    """the direct oracle (see _judge). A disagreement in a history that contains a Set-Cookie with a non-attribute
    token is attributed to that parser behaviour (its own signature) iff it disappears when the reference store is
    given the header the way aiohttp's parser reads it."""
    found, ref_segs = _judge(ops, allow_ip, fouts)
    if found:
        kinds = [(oi, k) for oi, op in enumerate(ops) if op[0] == "S" for c in op[2] for k in junk_kinds(c) if k in JUNK_SIG]
        if kinds:
            qops = [["S", op[1], [d for c in op[2] for d in as_aiohttp_reads(c)]] if op[0] == "S" else op for op in ops]
            qmap = {(oi, tk): sg for sg, _, oi, tk in _judge(qops, allow_ip, fouts)[0]}
            out = []
            for sig, detail, oi, tk in found:
                before = [k for i, k in kinds if i < oi]
                if before:
                    if (oi, tk) not in qmap:
                        sig = JUNK_SIG[before[-1]]
                        detail += " [explained by how the Set-Cookie parser reads the header]"
                    else:
                        # still a disagreement with the header read the parser's way: classify it in that reading
                        sig = qmap[(oi, tk)]
                out.append((sig, detail, oi, tk))
            found = out
    return found, ref_segs


def _judge(ops, allow_ip, fouts):
    """compare what the implementation attached with the reference store.
    returns list of (signature, detail, index of the F op, token)"""
    ref = RefStore(allow_ip)
    found, fi = [], 0
    ref_segs = []
    origins = eff_origins(config_of(ops))
    for oi, op in enumerate(ops):
        k = op[0]
        if k == "S":
            host, upath, _ = url_parts(op[1])
            ref.receive(host, upath, op[2])
        elif k == "T":
            ref.now += op[1]
        elif k == "F":
            host, rpath, secure = url_parts(op[1], origins)
            host = host or ""
            cands = ref.select(host, rpath, secure)
            ref_segs.append(canon_pairs([(c["name"], c["value"]) for c in cands]))
            got = fouts[fi]; fi += 1
            allowed = {(c["name"], c["value"]) for c in cands}
            for n, v in got.items():
                if (n, v) not in allowed:
                    sig, detail = classify_over(ref, n, v, host, rpath, secure)
                    found.append((sig, f"{op[1]}: {n}={v}: {detail}", oi, ("over", n, v)))
            for n in sorted({c["name"] for c in cands} - set(got)):
                sig, detail = classify_under(ref, [c for c in cands if c["name"] == n], host, rpath)
                if sig == "C16/not-sent/other" and secure and not code_secure(op[1], origins) \
                        and all(c["secure"] for c in cands if c["name"] == n):
                    sig, detail = "C16/not-sent/secure-origin-explicit-default-port", \
                        "treat_as_secure_origin: an explicitly written default port (:80) on one side only defeats the origin match"
                found.append((sig, f"{op[1]}: {n} not sent: {detail}", oi, ("under", n)))
        elif k == "C":
            ref.clear()
        elif k == "D":
            ref.clear_domain(op[1])
        elif k == "L":
            ref.evict()
    return found, ref_segs


def minimise(ops, allow_ip, token, budget=300):
    """delta-debug a history (ending in the offending query) down to a 1-minimal one whose last query still shows
    the same disagreement (`token`: the same cookie over-sent / the same name withheld); a minimal history isolates
    one root cause, so it is classified afterwards"""
    def shows(o):
        try:
            _, fouts, _, _ = run_impl(o, allow_ip)
            last = max(i for i, op in enumerate(o) if op[0] == "F")
            return any(oi == last and tk == token for _, _, oi, tk in judge(o, allow_ip, fouts)[0])
        except Exception:
            return False
    cur = [op for op in ops if op[0] != "X"]
    assert cur[-1][0] == "F"
    changed = True
    while changed and budget > 0:
        changed = False
        i = 0
        while i < len(cur) - 1 and budget > 0:
            cand = cur[:i] + cur[i + 1:]
            budget -= 1
            if shows(cand):
                cur = cand; changed = True
                continue
            if cur[i][0] == "S":
                shrunk = False
                for j in range(len(cur[i][2]) if len(cur[i][2]) > 1 else 0):
                    cs = cur[i][2][:j] + cur[i][2][j + 1:]
                    cand = cur[:i] + [["S", cur[i][1], cs]] + cur[i + 1:]
                    budget -= 1
                    if shows(cand):
                        cur = cand; changed = shrunk = True
                        break
                if not shrunk:
                    # drop single attributes that do not matter
                    for j, c in enumerate(cur[i][2]):
                        for a in ("junk", "order", "case", "httponly", "secure", "path", "domain", "maxage", "expires"):
                            if a in c:
                                c2 = {k: v for k, v in c.items() if k != a}
                                cand = cur[:i] + [["S", cur[i][1], cur[i][2][:j] + [c2] + cur[i][2][j + 1:]]] + cur[i + 1:]
                                budget -= 1
                                if shows(cand):
                                    cur = cand; changed = True
                                    c = c2
            i += 1
    return cur


_RAW_SEEN = {}
_RAW_RESULT = {}


def report(ctx, ops, allow_ip, found):
    """minimise each disagreement, classify the minimal history, record it under its structural signature"""
    done = set()
    for sig, detail, oi, token in found:
        if sig in done:
            continue
        done.add(sig)
        _RAW_SEEN[sig] = n = _RAW_SEEN.get(sig, 0) + 1
        if n > 3 and n % 25 != 0 and _RAW_RESULT.get(sig, set()) <= set(ctx.violations):
            continue      # this raw classification has so far always minimised to root causes already recorded
        small = minimise(ops[:oi + 1], allow_ip, token)
        _, fouts, _, _ = run_impl(small, allow_ip)
        last = len(small) - 1
        for s2, d2, o2, t2 in judge(small, allow_ip, fouts)[0]:
            if o2 == last and t2 == token:
                _RAW_RESULT.setdefault(sig, set()).add(s2)
                ctx.violation(s2, {"kind": "history", "allow_ip": allow_ip, "ops": small}, d2)


# ------------------------------------------------------------------------------ ClientSession end to end
def run_session(ops, allow_ip=False):
    """the same operations through a real ClientSession: an S op is a GET answered with the Set-Cookie
    headers, an F op is a GET whose Cookie header is recorded. Returns (Cookie maps per request, equivalent jar ops)."""
    import aiohttp
    from aiohttp.connector import BaseConnector
    from yarl import URL
    install_clock()
    CLOCK.now = float(NOW0)
    sent = []
    state = {"headers": [], "location": None}
    cfg = config_of(ops)

    class T(asyncio.Transport):
        def __init__(self, loop, proto):
            super().__init__(); self.loop = loop; self.proto = proto; self.buf = bytearray(); self.closing = False
        def write(self, data):
            self.buf += bytes(data)
            if b"\r\n\r\n" in self.buf:
                head = bytes(self.buf).split(b"\r\n\r\n")[0].decode("latin-1"); self.buf.clear()
                ck = [l.split(":", 1)[1].strip() for l in head.split("\r\n")[1:] if l.lower().startswith("cookie:")]
                sent.append(ck)
                loc, hdrs = state["location"], state["headers"]
                state["location"], state["headers"] = None, []      # the next hop gets a plain 200
                resp = ("HTTP/1.1 302 Found\r\nLocation: " + loc + "\r\n" if loc else "HTTP/1.1 200 OK\r\n") + \
                    "Content-Length: 0\r\nConnection: close\r\n" + "".join(f"Set-Cookie: {h}\r\n" for h in hdrs) + "\r\n"
                self.loop.call_soon(self.proto.data_received, resp.encode("latin-1"))
        def writelines(self, l):
            for d in l: self.write(d)
        def is_closing(self): return self.closing
        def close(self):
            if not self.closing:
                self.closing = True; self.loop.call_soon(self.proto.connection_lost, None)
        abort = close
        def pause_reading(self): pass
        def resume_reading(self): pass
        def get_extra_info(self, n, d=None): return d
        def get_write_buffer_size(self): return 0
        def set_write_buffer_limits(self, high=None, low=None): pass

    class Conn(BaseConnector):
        async def _create_connection(self, req, traces, timeout):
            proto = self._factory()
            proto.connection_made(T(self._loop, proto))
            return proto

    jar_ops = []

    async def main():
        def web(u):
            return re.sub(r"^[wW][sS]([sS]?)://", lambda m: "http" + m.group(1).lower() + "://", u)
        async with aiohttp.ClientSession(connector=Conn(), cookie_jar=make_jar(allow_ip, cfg)) as s:
            if cfg:
                jar_ops.append(["O", {k: v for k, v in cfg.items() if k != "decoy"}])
            for op in ops:
                k = op[0]
                if k in ("S", "F", "R"):
                    url = web(op[1])
                    state["headers"] = [header_of(c) for c in op[2]] if k in ("S", "R") else []
                    state["location"] = web(op[3]) if k == "R" else None
                    async with s.get(URL(url), allow_redirects=(k == "R")) as r:
                        await r.read()
                    jar_ops.append(["F", url])
                    if k in ("S", "R"):
                        jar_ops.append(["S", url, op[2]])
                    if k == "R":
                        jar_ops.append(["F", web(op[3])])
                elif k == "T":
                    CLOCK.now += op[1]; jar_ops.append(op)
                elif k == "C":
                    s.cookie_jar.clear(); jar_ops.append(op)
                elif k == "D":
                    s.cookie_jar.clear_domain(op[1]); jar_ops.append(op)
                elif k == "L":
                    p = tmp_path(); s.cookie_jar.save(p); s.cookie_jar.load(p); jar_ops.append(["L", "same"])

    loop = asyncio.new_event_loop()
    try:
        loop.run_until_complete(main())
    finally:
        loop.close()
    fouts = []
    for ck in sent:
        d = {}
        for line in ck:
            for item in line.split(";"):
                item = item.strip()
                if item:
                    n, _, v = item.partition("=")
                    d[n] = v
        fouts.append(d)
    return fouts, jar_ops


# ------------------------------------------------------------------------------ check
def one_history(ctx, ops, allow_ip, tag, lines, pending):
    segs, fouts, line, refline = run_impl(ops, allow_ip)
    strict = is_strict(ops)
    nontrivial = any(fouts) or any(op[0] == "S" for op in ops)
    ctx.case((tag, allow_ip, ops), nontrivial=nontrivial,
             sample={"kind": tag, "ops": ops[:6], "impl": " ".join(segs)[:160]} if ctx.evaluations % 499 == 0 else None)
    ctx.hit("hist:" + tag)
    for op in ops:
        ctx.hit("op:" + op[0])
    ref_segs = None
    if strict:
        found, ref_segs = judge(ops, allow_ip, fouts)
        for sig, _, _, _ in found:
            ctx.hit("oracle:" + sig)
        if found:
            report(ctx, ops, allow_ip, found)
    lines.append(line)
    pending.append(("run", {"kind": "history", "allow_ip": allow_ip, "ops": ops}, " ".join(segs)))
    if ref_segs is not None:
        lines.append(refline)
        pending.append(("ref", {"kind": "history", "allow_ip": allow_ip, "ops": ops}, " ".join(ref_segs)))


CORPUS_DIR = os.path.join(os.path.dirname(os.path.dirname(os.path.abspath(__file__))), "corpus", "C16")


def corpus_cases():
    if not os.path.isdir(CORPUS_DIR):
        return []
    out = []
    for f in sorted(os.listdir(CORPUS_DIR)):
        if f.endswith(".json"):
            with open(os.path.join(CORPUS_DIR, f)) as fh:
                out.append(json.load(fh))
    return out


def scripted_cases():
    """deterministic histories that run first on every seed: one per mechanism the check claims to cover, so that no
    catch depends on the random stream. None of them touches a known finding."""
    E, S_, O_, V = "example.com", "sub.example.com", "other.example.com", "evil.org"
    def ck(n, v, **kw):
        d = {"name": n, "value": v}; d.update(kw); return d
    allq = [["F", f"{sch}://{h}{p}"] for h in (E, S_, "a." + S_, O_, "not" + E, "com", V, E + ".") for sch in ("http", "https")
            for p in ("/", "/x", "/x/", "/x/y", "/xy")]
    cases = []
    # acceptance: own host, parent, child, sibling, lookalike, public-suffix-like, foreign site, leading dot
    cases.append(([["S", f"http://{S_}/x/y", [ck("own", "v1"), ck("par", "v2", domain=E), ck("dot", "v3", domain="." + E),
                                               ck("chi", "v4", domain="a." + S_), ck("sib", "v5", domain=O_),
                                               ck("look", "v6", domain="ample.com"), ck("tld", "v7", domain="com"),
                                               ck("for", "v8", domain=V), ck("sec", "v9", secure=True, path="/x"),
                                               ck("pth", "v10", path="/x/"), ck("dflt", "v11")]],
                   ["S", f"http://{V}/", [ck("par", "e1", domain=E), ck("own", "e2", domain=S_), ck("evil", "e3")]],
                   ["S", f"http://not{E}/", [ck("par", "e4", domain=E)]]] + allq + [["X"]], False))
    # expiry boundaries, deletion by Max-Age=0 / negative / past Expires, overwrite with the cache filled
    cases.append(([["S", f"http://{E}/", [ck("m5", "v1", maxage="5"), ck("e5", "v2", expires=["ts", NOW0 + 5, 0]),
                                           ck("ses", "v3"), ck("del0", "v4"), ck("deln", "v5"), ck("dele", "v6")]],
                   ["F", f"http://{E}/"], ["T", 4], ["F", f"http://{E}/"],
                   ["S", f"http://{E}/", [ck("del0", "x", maxage="0"), ck("deln", "x", maxage="-1"),
                                           ck("dele", "x", expires=["ts", NOW0 - 100, 1]), ck("ses", "v7")]],
                   ["F", f"http://{E}/"], ["T", 1], ["F", f"http://{E}/"], ["F", f"http://{S_}/"], ["T", 1], ["F", f"http://{E}/"],
                   ["S", f"http://{E}/", [ck("m5", "v8", maxage="100")]], ["T", 99], ["F", f"http://{E}/"], ["T", 1], ["F", f"http://{E}/"],
                   ["X"]], False))
    # persistence: host-only flag, deadline, Secure and path survive save+load (fresh and same jar), then expire
    cases.append(([["S", f"https://{E}/x/y", [ck("ho", "v1", maxage="50"), ck("dom", "v2", domain=E, secure=True), ck("p", "v3", path="/x/")]],
                   ["L"], ["F", f"https://{S_}/x/y"], ["F", f"http://{E}/x/y"], ["F", f"https://{E}/x"], ["L", "same"],
                   ["F", f"https://{S_}/x/y"], ["F", f"https://{E}/x/y"], ["T", 50], ["L"], ["F", f"https://{E}/x/y"], ["X"]], False))
    # clear_domain / clear
    cases.append(([["S", f"http://{E}/", [ck("a", "v1"), ck("b", "v2", domain=E)]], ["S", f"http://{S_}/", [ck("c", "v3")]],
                   ["S", f"http://{O_}/", [ck("d", "v4")]], ["S", f"http://{V}/", [ck("e", "v5")]],
                   ["D", S_], ["F", f"http://{S_}/"], ["F", f"http://{O_}/"], ["D", E], ["F", f"http://{E}/"], ["F", f"http://{O_}/"],
                   ["F", f"http://{V}/"], ["C"], ["F", f"http://{V}/"], ["X"]], False))
    # IP policy, both settings
    ipops = [["S", "http://127.0.0.1/", [ck("a", "v1"), ck("b", "v2", domain="0.0.1")]], ["S", "http://1.127.0.0.1/", [ck("c", "v3", domain="127.0.0.1")]],
             ["S", "http://[::1]/", [ck("d", "v4")]], ["F", "http://127.0.0.1/"], ["F", "http://1.127.0.0.1/"], ["F", "http://[::1]/"],
             ["L"], ["F", "http://127.0.0.1/"], ["X"]]
    cases.append((ipops, False)); cases.append((ipops, True))
    # treat_as_secure_origin: listed origin, default port, other port, other scheme, sub-domain
    cases.append(([["O", {"origins": ["http://example.com", "http://sub.example.com:8080"], "form": "mixed"}],
                   ["S", f"https://{E}/", [ck("s", "v1", secure=True, domain=E), ck("n", "v2", domain=E)]],
                   ["F", f"http://{E}/"], ["F", f"http://{E}:80/"], ["F", f"http://{E}:8080/"], ["F", f"ws://{E}/"],
                   ["F", f"http://{S_}/"], ["F", f"http://{S_}:8080/"], ["F", f"https://{S_}/"], ["F", f"HTTP://EXAMPLE.COM/"], ["X"]], False))
    # heap clean-up at its threshold while a deadline passes unobserved (61 deadlines, 121 heap entries)
    longs = [ck(f"t{i}", "v", maxage="3600", path="/") for i in range(60)]
    cases.append(([["S", f"https://{E}/", [ck("sid", "secret", maxage="60", path="/")] + longs], ["T", 10], ["S", f"https://{E}/", longs],
                   ["T", 49], ["F", f"https://{E}/"], ["T", 2], ["S", f"https://{E}/", longs[:2]], ["X"], ["T", 39], ["F", f"https://{E}/"],
                   ["T", 1000000], ["F", f"https://{E}/"], ["X"]], False))
    # spellings: URL forms and header separators
    cases.append(([["S", f"HTTP://User:pw@EXAMPLE.com:80/x/y?q=/z#frag", [ck("a", "v1", spell={"sep": ";", "eq": " = ", "trail": ";"}, path="/x", secure=True),
                                                                      ck("b", "v2", case="upper", domain=E, maxage="10")]],
                   ["F", f"https://{E}:8443/x/y?a=b#c"], ["F", f"http://{E}:8080/x"], ["F", f"https://Sub.Example.COM/x"], ["T", 10],
                   ["F", f"https://{S_}/"], ["X"]], False))
    return cases


def session_scripted():
    """deterministic end-to-end cases for the ClientSession layer (redirect hops, unsafe jar, secure origins)"""
    def ck(n, v, **kw):
        d = {"name": n, "value": v}; d.update(kw); return d
    E, S_, V = "example.com", "sub.example.com", "evil.org"
    return [
        ([["S", f"https://{E}/login", [ck("sid", "v1", secure=True), ck("d", "v2", domain=E)]],
          ["R", f"http://{S_}/a", [ck("r", "v3", domain=E)], f"http://{V}/b"], ["F", f"http://{V}/"],
          ["R", f"https://{E}/x/a", [ck("p", "v4", path="/x")], f"https://{E}/y"], ["F", f"https://{E}/x/z"],
          ["R", f"http://{V}/", [ck("sid", "e1", domain=E)], f"https://{E}/"]], False),
        ([["S", "http://127.0.0.1/", [ck("a", "v1")]], ["F", "http://127.0.0.1/x"], ["R", "http://127.0.0.1/", [ck("b", "v2")], "http://1.127.0.0.1/"]], True),
        ([["O", {"origins": ["http://example.com"], "form": "str"}], ["S", f"https://{E}/", [ck("s", "v1", secure=True)]],
          ["F", f"http://{E}/"], ["F", f"http://{S_}/"], ["R", f"http://{E}/", [], f"http://{E}:8080/"]], False),
    ]


def check(ctx):
    rng = ctx.rng
    g = Gen(rng)
    lines, pending = [], []
    for case in corpus_cases():
        one_history(ctx, case["ops"], bool(case.get("allow_ip")), "corpus", lines, pending)
    for ops, allow_ip in scripted_cases():
        one_history(ctx, ops, allow_ip, "scripted", lines, pending)
    q = ctx.quick
    plan = [("acceptance", 1000 if q else 30000), ("selection", 900 if q else 25000), ("expiry", 1000 if q else 30000),
            ("persistence", 700 if q else 18000), ("malformed", 600 if q else 15000), ("ip", 400 if q else 10000)]
    for kind, n in plan:
        for _ in range(n):
            allow_ip = rng.random() < (0.85 if kind == "ip" else 0.25)
            one_history(ctx, g.history(kind), allow_ip, kind, lines, pending)
    for _ in range(600 if q else 15000):
        one_history(ctx, g.pairs(), rng.random() < 0.2, "pairs", lines, pending)
    for _ in range(12 if q else 300):
        one_history(ctx, g.heap_pressure(), False, "heap-pressure", lines, pending)
    for _ in range(60 if q else 1500):
        one_history(ctx, g.compaction(), False, "compaction", lines, pending)
    for _ in range(400 if q else 10000):
        one_history(ctx, g.parse_tolerance(), False, "parse-tolerance", lines, pending)
    for _ in range(500 if q else 12000):
        base = g.pairs() if rng.random() < 0.3 else g.history(rng.choice(["acceptance", "selection", "expiry", "persistence"]))
        one_history(ctx, g.spell(base, origins_p=0.3), rng.random() < 0.25, "spellings", lines, pending)
    for _ in range(250 if q else 6000):
        one_history(ctx, g.secure_origin(), rng.random() < 0.3, "secure-origin", lines, pending)
    outs = ctx.model(lines)
    if outs is not None:
        for (what, case, impl), out in zip(pending, outs):
            if what == "run":
                ctx.compare(case, impl, canon_reply(out), "CookieJar vs Aio.C16.step")
            else:
                ctx.compare(case, impl, canon_reply(out), "python twin of the reference store vs Aio.C16.Ref")
    # end to end through a real ClientSession (real parse path in, real Cookie header out, redirect hops)
    sess = [(o, a) for o, a in session_scripted()]
    for _ in range(200 if q else 6000):
        ops = g.history(rng.choice(["acceptance", "selection", "expiry"]))
        ops = [op for op in ops if op[0] != "X"][:10]
        if not is_strict(ops):
            continue
        # some responses are redirects: the Set-Cookie of the 3xx is stored and the next hop gets its own Cookie header
        ops = [["R", op[1], op[2], g.url(scheme=rng.choice(["http", "https"]))] if op[0] == "S" and rng.random() < 0.3 else op
               for op in ops]
        if rng.random() < 0.3:
            ops = g.spell(ops, origins_p=0.5)
        sess.append((ops, rng.random() < 0.2))
    for ops, allow_ip in sess:
        fouts, jar_ops = run_session(ops, allow_ip)
        ctx.case(("session", ops), nontrivial=any(fouts))
        ctx.hit("hist:session")
        # the session's jar must behave like a bare jar on the equivalent operations …
        _, fouts2, _, _ = run_impl(jar_ops, allow_ip)
        if fouts != fouts2:
            ctx.violation("C16/session-cookie-header-differs-from-jar",
                          {"kind": "session", "allow_ip": allow_ip, "ops": ops}, f"Cookie headers {fouts} vs filter_cookies {fouts2}")
        # … and is judged by the same oracle
        found, _ = judge(jar_ops, allow_ip, fouts)
        for sig, _, _, _ in found:
            ctx.hit("oracle:" + sig)
        if found:
            report(ctx, jar_ops, allow_ip, found)
    _cleanup_tmp()


def replay(ctx, case):
    if case.get("kind") == "session":
        aip = bool(case.get("allow_ip"))
        fouts, jar_ops = run_session(case["ops"], aip)
        found, _ = judge(jar_ops, aip, fouts)
        _, fouts2, _, _ = run_impl(jar_ops, aip)
        if fouts != fouts2:
            ctx.violation("C16/session-cookie-header-differs-from-jar", case, f"{fouts} vs {fouts2}")
    else:
        _, fouts, _, _ = run_impl(case["ops"], bool(case.get("allow_ip")))
        found, _ = judge(case["ops"], bool(case.get("allow_ip")), fouts)
    for sig, detail, _, _ in found:
        ctx.violation(sig, case, detail)
