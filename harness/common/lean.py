"""Lean side: generated files, lake build (serialised by a file lock), axiom audit, driver."""
import fcntl, os, re, subprocess, tempfile, time
from .guard import VERIF, MachineryError

LEAN_DIR = os.path.join(VERIF, "lean")
DRIVER = os.path.join(LEAN_DIR, ".lake", "build", "bin", "aiodriver")
ALLOWED_AXIOMS = {"propext", "Classical.choice", "Quot.sound"}
FORBIDDEN_TOKENS = re.compile(
    r"\b(sorry|admit|native_decide|bv_decide|implemented_by|unsafe)\b|^\s*axiom\s|maxHeartbeats\s+0\b",
    re.M,
)


class _Lock:
    def __enter__(self):
        d = os.path.join(VERIF, ".locks")
        os.makedirs(d, exist_ok=True)
        self.f = open(os.path.join(d, "lake.lock"), "w")
        fcntl.flock(self.f, fcntl.LOCK_EX)
        return self

    def __exit__(self, *a):
        fcntl.flock(self.f, fcntl.LOCK_UN)
        self.f.close()


def write_generated(files):
    """files: {relative path under lean/: content}. Rewrites only what changed. Returns changed list."""
    changed = []
    with _Lock():
        for rel, content in files.items():
            p = os.path.join(LEAN_DIR, rel)
            old = None
            if os.path.exists(p):
                with open(p) as f:
                    old = f.read()
            if old != content:
                os.makedirs(os.path.dirname(p), exist_ok=True)
                with open(p, "w") as f:
                    f.write(content)
                changed.append(rel)
    return changed


PRIVATE_DRIVER = None      # this process's own copy of the driver binary, taken under the build lock


def _take_private_driver():
    """Another check running at the same time (on another tree) may relink lean/.lake/build/bin/aiodriver while
    this one is using it: each process runs a private copy taken while it still holds the build lock."""
    global PRIVATE_DRIVER
    import atexit, shutil
    if not os.path.exists(DRIVER):
        return
    try:
        base = os.path.join(VERIF, ".locks")
        os.makedirs(base, exist_ok=True)
        d = tempfile.mkdtemp(prefix="aiodriver-", dir=base)
        dst = os.path.join(d, "aiodriver")
        shutil.copy2(DRIVER, dst)
        os.chmod(dst, 0o755)
        old = PRIVATE_DRIVER
        PRIVATE_DRIVER = dst
        atexit.register(shutil.rmtree, d, True)
        if old:
            shutil.rmtree(os.path.dirname(old), ignore_errors=True)
    except OSError:
        PRIVATE_DRIVER = None


def lake_build(targets, timeout=1500):
    """returns (ok, log)"""
    with _Lock():
        t0 = time.time()
        try:
            r = subprocess.run(
                ["lake", "build"] + list(targets),
                cwd=LEAN_DIR, stdout=subprocess.PIPE, stderr=subprocess.STDOUT,
                text=True, timeout=timeout,
            )
        except subprocess.TimeoutExpired:
            raise MachineryError("lake build timed out")
        except FileNotFoundError:
            raise MachineryError("lake not found on PATH")
        if r.returncode == 0 and "aiodriver" in targets:
            _take_private_driver()
        return r.returncode == 0, r.stdout, time.time() - t0


def strip_comments(src):
    # remove nested /- -/ block comments and -- line comments (string literals are rare in proofs)
    out, i, depth, n = [], 0, 0, len(src)
    while i < n:
        if src.startswith("/-", i):
            depth += 1; i += 2; continue
        if depth and src.startswith("-/", i):
            depth -= 1; i += 2; continue
        if depth:
            i += 1; continue
        if src.startswith("--", i):
            j = src.find("\n", i)
            i = n if j < 0 else j
            continue
        out.append(src[i]); i += 1
    return "".join(out)


def grep_gate(rel_files):
    """forbidden tokens outside comments, in the given lean/ relative files"""
    hits = []
    for rel in rel_files:
        p = os.path.join(LEAN_DIR, rel)
        if not os.path.exists(p):
            continue
        with open(p) as f:
            src = strip_comments(f.read())
        for m in FORBIDDEN_TOKENS.finditer(src):
            hits.append(f"{rel}: {m.group(0).strip()}")
    return hits


def lean_sources_of(modules):
    """transitive closure (within lean/) of the given module names → relative file paths"""
    seen, todo, files = set(), list(modules), []
    while todo:
        m = todo.pop()
        if m in seen:
            continue
        seen.add(m)
        rel = m.replace(".", "/") + ".lean"
        p = os.path.join(LEAN_DIR, rel)
        if not os.path.exists(p):
            continue
        files.append(rel)
        with open(p) as f:
            for line in f:
                mm = re.match(r"\s*(?:public\s+)?import\s+([\w.]+)", line)
                if mm:
                    todo.append(mm.group(1))
    return sorted(files)


def leanchecker(modules, timeout=1200):
    """independent re-check of the compiled modules (thorough tier): → (ok, detail)"""
    try:
        with _Lock():
            r = subprocess.run(["lake", "env", "leanchecker"] + list(modules), cwd=LEAN_DIR,
                               stdout=subprocess.PIPE, stderr=subprocess.STDOUT, text=True, timeout=timeout)
    except subprocess.TimeoutExpired:
        raise MachineryError("leanchecker timed out")
    except FileNotFoundError:
        return True, "leanchecker not on PATH (skipped)"
    return r.returncode == 0, (r.stdout.strip()[-400:] or "ok")


def audit(modules, theorems, timeout=900):
    """`#print axioms` for each theorem. returns {theorem: (ok, detail)}"""
    src = "".join(f"import {m}\n" for m in modules) + "".join(f"#print axioms {t}\n" for t in theorems)
    with tempfile.NamedTemporaryFile("w", suffix=".lean", dir=LEAN_DIR, delete=False) as f:
        f.write(src)
        path = f.name
    try:
        with _Lock():
            r = subprocess.run(["lake", "env", "lean", path], cwd=LEAN_DIR,
                               stdout=subprocess.PIPE, stderr=subprocess.STDOUT, text=True, timeout=timeout)
    except subprocess.TimeoutExpired:
        raise MachineryError("axiom audit timed out")
    finally:
        os.unlink(path)
    out = r.stdout
    res = {}
    for t in theorems:
        m = re.search(r"'" + re.escape(t) + r"' depends on axioms: \[([^\]]*)\]", out, re.S)
        if m:
            ax = {a.strip() for a in m.group(1).replace("\n", " ").split(",") if a.strip()}
            bad = ax - ALLOWED_AXIOMS
            res[t] = (not bad, "axioms: " + ", ".join(sorted(ax)) if ax else "no axioms")
            if bad:
                res[t] = (False, "disallowed axioms: " + ", ".join(sorted(bad)))
        elif re.search(r"'" + re.escape(t) + r"' does not depend on any axioms", out):
            res[t] = (True, "no axioms")
        else:
            res[t] = (False, "not found / did not elaborate")
    return res, out


class Driver:
    """batch interface to the native model driver"""

    def __init__(self):
        self.path = PRIVATE_DRIVER if PRIVATE_DRIVER and os.path.exists(PRIVATE_DRIVER) else DRIVER
        self.available = os.path.exists(self.path)
        self.lines = 0

    def run(self, lines, timeout=1200):
        if not self.available:
            return None
        data = "".join(l + "\n" for l in lines)
        try:
            r = subprocess.run([self.path], input=data, stdout=subprocess.PIPE, stderr=subprocess.PIPE,
                               text=True, timeout=timeout)
        except subprocess.TimeoutExpired:
            raise MachineryError("model driver timed out")
        except OSError as e:
            raise MachineryError(f"model driver could not be started: {e}")
        if r.returncode != 0:
            raise MachineryError(f"model driver crashed: rc={r.returncode} {r.stderr[-400:]}")
        outs = r.stdout.split("\n")
        if outs and outs[-1] == "":
            outs.pop()
        if len(outs) != len(lines):
            raise MachineryError(f"model driver answered {len(outs)} lines for {len(lines)} requests")
        self.lines += len(lines)
        return outs
