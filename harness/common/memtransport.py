"""In-memory transport for driving real aiohttp protocol objects without sockets."""
import asyncio


class MemTransport(asyncio.Transport):
    def __init__(self, loop, proto):
        super().__init__()
        self.loop, self.proto = loop, proto
        self.out = bytearray()
        self.closed = False      # connection_lost delivered
        self.closing = False
        self.paused = False
        self.pause_calls = 0

    def write(self, data):
        if self.closing:
            return
        self.out += bytes(data)

    def writelines(self, l):
        for d in l:
            self.write(d)

    def is_closing(self):
        return self.closing

    def close(self):
        if not self.closing:
            self.closing = True
            self.loop.call_soon(self._lost, None)

    def abort(self):
        self.close()

    def _lost(self, exc):
        if not self.closed:
            self.closed = True
            self.proto.connection_lost(exc)

    def peer_close(self):
        """the peer drops the connection"""
        if not self.closing:
            self.closing = True
            self.loop.call_soon(self._lost, None)

    def pause_reading(self):
        self.paused = True; self.pause_calls += 1

    def resume_reading(self):
        self.paused = False

    def is_reading(self):
        return not self.paused

    def get_extra_info(self, name, default=None):
        return default

    def get_write_buffer_size(self):
        return 0

    def get_write_buffer_limits(self):
        return (0, 0)

    def set_write_buffer_limits(self, high=None, low=None):
        pass

    def can_write_eof(self):
        return False
