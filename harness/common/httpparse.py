"""Shared harness for the HTTP parser model (C01, C03, C10): runs the real pure-Python
parser on a segmented byte stream and renders what it did in the driver's canonical form."""
import asyncio, random
from .codec import hx

KNOWN_ERRS = {"BadHttpMessage", "BadHttpMethod", "BadStatusLine", "InvalidHeader", "InvalidURLError",
              "LineTooLong", "TransferEncodingError", "ContentLengthError"}

_loop = None


def loop():
    global _loop
    if _loop is None:
        _loop = asyncio.new_event_loop()
    return _loop


class Cfg:
    def __init__(self, max_line=8190, max_field=8190, max_headers=128, response=False, lax=False,
                 read_until_eof=False, with_body=True, resp_method=b""):
        self.max_line, self.max_field, self.max_headers = max_line, max_field, max_headers
        self.response, self.lax, self.read_until_eof = response, lax, read_until_eof
        self.with_body, self.resp_method = with_body, resp_method

    def spec(self):
        b = lambda x: "1" if x else "0"
        return f"{self.max_line},{self.max_field},{self.max_headers},{b(self.response)},{b(self.lax)},{b(self.read_until_eof)},{b(self.with_body)},{hx(self.resp_method)}"

    def key(self):
        return self.spec()


class _Transport:
    def pause_reading(self): pass
    def resume_reading(self): pass
    def is_closing(self): return False


_patched = False
_log = None   # event sink of the run in progress


def _patch():
    """record every call the parser makes on the payload streams it creates"""
    global _patched
    if _patched:
        return
    import aiohttp.http_parser as hp
    from aiohttp.streams import StreamReader

    class RecStream(StreamReader):
        def __init__(self, *a, **kw):
            super().__init__(*a, **kw)
            self._rec = []
            if _log is not None:
                _log.append(("new", self))

        def feed_data(self, data):
            if data:
                self._rec.append(("D", bytes(data)))
            return super().feed_data(data)

        def begin_http_chunk_receiving(self):
            self._rec.append(("B",)); return super().begin_http_chunk_receiving()

        def end_http_chunk_receiving(self):
            self._rec.append(("C",)); return super().end_http_chunk_receiving()

        def feed_eof(self):
            self._rec.append(("F",)); return super().feed_eof()

        def set_exception(self, exc, exc_cause=None):
            self._rec.append(("X", type(exc).__name__ if not isinstance(exc, type) else exc.__name__))
            try:
                return super().set_exception(exc, exc_cause) if exc_cause is not None else super().set_exception(exc)
            except TypeError:
                return super().set_exception(exc)

    hp.StreamReader = RecStream
    _patched = True


def url_ok(is_connect, path):
    """the yarl oracle: would HttpRequestParser.parse_message accept this target?"""
    from yarl import URL
    try:
        if is_connect:
            URL.build(authority=path, encoded=True).host
            return True
        if path.startswith("/"):
            pp, _, frag = path.partition("#")
            pp, _, qs = pp.partition("?")
            URL.build(path=pp, query_string=qs, fragment=frag, encoded=True)
            return True
        u = URL(path, encoded=True)
        u.host
        return bool(u.absolute)
    except ValueError:
        return False


def oracle_table(stream_segs):
    """every (is_connect, target) the parser could hand to yarl: all SP-delimited tokens of the
    concatenated stream that contain no CTL/whitespace (a superset of the request-targets)"""
    data = b"".join(stream_segs)
    toks, seen = [], set()
    for p in data.split(b" "):
        if not p or p in seen or any(c < 0x21 or c == 0x7F for c in p):
            continue
        seen.add(p)
        if len(seen) > 64:
            break
        ps = p.decode("utf-8", "surrogateescape")
        if url_ok(True, ps):
            toks.append("c:" + hx(p))
        if url_ok(False, ps):
            toks.append("n:" + hx(p))
    return ",".join(toks) if toks else "-"


def _enc(s):
    return s.encode("utf-8", "surrogateescape") if isinstance(s, str) else bytes(s)


def _dec(b):
    return bytes(b).decode("utf-8", "surrogateescape")


def _show_msg(cfg, m, has_payload):
    if cfg.response:
        method, path, code, reason = b"", b"", m.code, _enc(m.reason)
    else:
        method, path, code, reason = _enc(m.method), _enc(m.path), 0, b""
    hs = ",".join(hx(k) + "=" + hx(v) for k, v in m.raw_headers)
    comp = "none" if m.compression is None else hx(_enc(m.compression))
    b = lambda x: "1" if x else "0"
    return (f"M({hx(method)},{hx(path)},{m.version[0]}.{m.version[1]},{code},{hx(reason)},{b(m.should_close)},"
            f"{comp},{b(m.upgrade)},{b(m.chunked)},{b(has_payload)};{hs})")


def _struct_msg(cfg, m):
    if cfg.response:
        return (m.code, _enc(m.reason), tuple(m.version), tuple((bytes(k), bytes(v)) for k, v in m.raw_headers))
    return (_enc(m.method), _enc(m.path), tuple(m.version), tuple((bytes(k), bytes(v)) for k, v in m.raw_headers))


def _show_rec(rec):
    out, acc = [], b""
    for e in rec:
        if e[0] == "D":
            acc += e[1]
            continue
        if acc:
            out.append(f"D({hx(acc)})"); acc = b""
        tok = e[0] if e[0] != "X" else f"X({e[1]})"
        if tok.startswith("X(") and out and out[-1] == tok:
            continue  # the payload parser and feed_data both call set_exception: one observable error
        out.append(tok)
    if acc:
        out.append(f"D({hx(acc)})")
    return out


def make_parser(cfg, limit=2 ** 20):
    import aiohttp.http_parser as hp
    from aiohttp.base_protocol import BaseProtocol
    _patch()
    lp = loop()
    proto = BaseProtocol(lp)
    proto.transport = _Transport()
    if cfg.response:
        cls = hp.HttpResponseParserPy
        if not cfg.lax:
            cls = type("StrictResp", (hp.HttpResponseParserPy,), {"lax": False})
        p = cls(proto, lp, limit, max_line_size=cfg.max_line, max_headers=cfg.max_headers,
                max_field_size=cfg.max_field, method=(cfg.resp_method.decode() or None),
                read_until_eof=cfg.read_until_eof, response_with_body=cfg.with_body, auto_decompress=False)
    else:
        p = hp.HttpRequestParserPy(proto, lp, limit, max_line_size=cfg.max_line, max_headers=cfg.max_headers,
                                   max_field_size=cfg.max_field, auto_decompress=False)
    proto._parser = p
    return p


class ParserHang(BaseException):
    """one feed_data call used more than HANG_CPU_S seconds of CPU: a loop that does not end (a read is a few KB)"""


HANG_CPU_S = 2.0
HANGS = []


def note_hang(cfg, segs):
    """remember an input on which feed_data did not return; after a few of them further exploration is pointless
    (every such input costs HANG_CPU_S) — the check's `finally: hang_report(ctx)` turns them into violations"""
    from .stop import StopCheck
    HANGS.append((cfg.spec(), hx(b"".join(segs)), [len(s) for s in segs], cfg.response))
    if len(HANGS) >= 3:
        raise StopCheck(f"feed_data did not return within {HANG_CPU_S} s of CPU on {len(HANGS)} inputs")


def confirm_hang(cfg, segs):
    """the watchdog measures the CPU time of the whole process, and a garbage collection over the harness's own
    millions of pending cases can take seconds: a hang counts only if it happens again on a fresh parser with the
    collector switched off and five times the budget"""
    global HANG_CPU_S
    import gc
    p = make_parser(cfg)
    kw = {"SEP": b"\n" if cfg.lax else b"\r\n"} if cfg.response else {}
    was, budget = gc.isenabled(), HANG_CPU_S
    gc.disable()
    HANG_CPU_S = 5 * budget
    try:
        for seg in segs:
            try:
                _watch(True)
                try:
                    p.feed_data(seg, **kw)
                finally:
                    _watch(False)
            except ParserHang:
                return True
            except BaseException as ex:  # noqa
                if type(ex).__name__ == "_Runaway":
                    raise
                return False
        return False
    finally:
        HANG_CPU_S = budget
        if was:
            gc.enable()


def hang_report(ctx):
    for spec, stream, cuts, resp in HANGS:
        ctx.violation(f"C10/hang/feed_data-does-not-return/{'resp' if resp else 'req'}", {"cfg": spec, "stream": stream, "cuts": cuts},
                      f"HttpParser.feed_data did not return within {HANG_CPU_S} s of CPU time on a {sum(cuts)}-byte stream (busy loop: the event loop is blocked)")
    del HANGS[:]
_watch_ok = None


def _watch(on):
    """CPU-time watchdog around one parser call (ITIMER_VIRTUAL counts this process's user time only)"""
    global _watch_ok
    import signal
    if _watch_ok is None:
        def _fire(signum, frame):
            raise ParserHang(f"feed_data used more than {HANG_CPU_S} s of CPU")
        try:
            signal.signal(signal.SIGVTALRM, _fire); _watch_ok = True
        except (ValueError, OSError):
            _watch_ok = False
    if _watch_ok:
        signal.setitimer(signal.ITIMER_VIRTUAL, HANG_CPU_S if on else 0)


def run_impl(cfg, segs, eof=False):
    """→ (canonical string in the driver's format, structured outcome for the oracle)"""
    global _log
    from aiohttp.streams import EMPTY_PAYLOAD
    p = make_parser(cfg)
    outs = []
    all_msgs = []         # every message object handed out, looked at again at the end of the run
    events = []           # flat structured events across the run (for the direct oracle)
    current = None        # payload in progress
    cur_done = False      # `current` has seen EOF or an exception
    _ended = lambda rec: any(e[0] in ("F", "X") for e in rec)
    err = None
    for seg in segs:
        _log = []
        kw = {}
        if cfg.response:
            kw["SEP"] = b"\n" if cfg.lax else b"\r\n"
        try:
            _watch(True)
            try:
                msgs, upgraded, rest = p.feed_data(seg, **kw)
            finally:
                _watch(False)
            e = None
        except BaseException as ex:  # noqa
            if type(ex).__name__ == "_Runaway":
                raise
            if isinstance(ex, ParserHang):
                if not confirm_hang(cfg, segs):
                    return run_impl(cfg, segs, eof)     # the watchdog fired on something else (a GC pause): run again
                note_hang(cfg, segs)
            msgs, upgraded, rest, e = None, None, b"", ex
        created = [s for (k, s) in _log if k == "new"]
        _log = None
        toks = []
        if current is not None:
            cur_done = cur_done or _ended(current._rec)
            toks += _show_rec(current._rec); events += current._rec; current._rec = []
        if msgs is not None:
            for m, pl in msgs:
                hp_ = pl is not EMPTY_PAYLOAD
                toks.append(_show_msg(cfg, m, hp_))
                events.append(("M", _show_msg(cfg, m, hp_), _struct_msg(cfg, m)))
                all_msgs.append(m)
                if hp_:
                    cur_done = _ended(pl._rec)
                    toks += _show_rec(pl._rec); events += pl._rec; pl._rec = []
                    current = pl
        else:
            # messages parsed before the exception are lost to the caller, but their payload
            # streams were created: show what was recorded on them (the model does the same)
            # (not part of `events`: a caller that never receives the message cannot observe them)
            for s in created:
                toks += ["M?"] + _show_rec(s._rec); s._rec = []
        if e is not None:
            name = type(e).__name__
            if name not in KNOWN_ERRS:
                name = f"E_OTHER({name})"
            outs.append(" ".join(toks) + f" R=- U=? !{name}")
            err = name
            break
        outs.append(" ".join(toks) + f" R={hx(rest)} U={'1' if upgraded else '0'}")
    pending = False
    if err is None:
        pending = bool(p._tail) or bool(p._lines) or (
            p._payload_parser is not None and p._payload_parser._type.name != "PARSE_UNTIL_EOF")
    if eof and err is None:
        try:
            m = p.feed_eof()
            e = None
        except BaseException as ex:  # noqa
            m, e = None, ex
        toks = []
        if current is not None:
            toks += _show_rec(current._rec); events += current._rec; current._rec = []
        if m is not None:
            toks.append(_show_msg(cfg, m, False))
        s = "eof: " + " ".join(toks)
        if e is not None:
            name = type(e).__name__
            if name not in KNOWN_ERRS:
                name = f"E_OTHER({name})"
            s += " !" + name
        outs.append(s)
    # a body stream that was handed to the caller and is neither ended nor failed although feed_data raised:
    # whoever reads that body waits for ever (the connection-level error is queued behind the running handler)
    body_open = err is not None and current is not None and not cur_done
    # what the application reads is `message.headers` (a multidict view), not raw_headers: at the end of the run —
    # when later messages of the connection have been parsed — each message must still show its own fields
    hdr_view = None
    for i, m in enumerate(all_msgs):
        want = [(_dec(k), _dec(v)) for k, v in m.raw_headers]
        md = getattr(m.headers, "_md", m.headers)     # HeadersDictProxy joins repeated fields; look at the multidict behind it
        got = [(str(k), str(v)) for k, v in md.items()]
        if want != got:
            hdr_view = (i, got[:4], want[:4]); break
    return " | ".join(outs), {"events": events, "err": err, "pending": pending, "body_open_after_error": body_open, "hdr_view": hdr_view}


def model_line(cfg, segs, eof=False):
    toks = [hx(s) for s in segs]
    if eof:
        toks.append("EOF")
    return f"feed {cfg.spec()} {oracle_table(segs)} " + " ".join(toks)


# ------------------------------------------------------------------ normalisation for ≈
def flatten_events(events):
    """token stream at byte granularity, for prefix comparison"""
    out = []
    for e in events:
        if e[0] == "D":
            out.extend(("d", b) for b in e[1])
        elif e[0] == "B":
            continue
        else:
            out.append(tuple(e))
    return out


def rejected(o):
    return o["err"] is not None or any(e[0] == "X" for e in o["events"])


def accepted(o):
    return not rejected(o) and not o["pending"]


# ------------------------------------------------------------------ generators
METHODS = [b"GET", b"POST", b"PUT", b"DELETE", b"HEAD", b"OPTIONS", b"PATCH", b"get", b"M-SEARCH"]
HEADER_POOL = [
    (b"Accept", b"*/*"), (b"User-Agent", b"ua/1.0"), (b"X-A", b"b"), (b"Cookie", b"a=b; c=d"),
    (b"Connection", b"keep-alive"), (b"Connection", b"close"), (b"Content-Type", b"text/plain"),
    (b"X-Empty", b""), (b"X-Ws", b"a \t b"), (b"X-Utf", "hé".encode()), (b"Accept-Encoding", b"gzip, deflate"),
    (b"Expect", b"100-continue"), (b"X-Long", b"v" * 40), (b"Connection", b"Upgrade"), (b"Upgrade", b"websocket"),
    # content codings in several spellings (the parser runs with auto_decompress off: only the reported coding matters)
    (b"Content-Encoding", b"gzip"), (b"Content-Encoding", b"GZIP"), (b"Content-Encoding", b"Br"), (b"Content-Encoding", b"identity"),
]
TARGETS = [b"/", b"/a/b?x=1&y=2", b"/%20x", b"/a#frag", b"*", b"http://example.com/p?q", b"/caf\xc3\xa9",
           b"//double", b"/a;b=c", b"http://[::1]:80/x"]


def chunked_body(rng, parts, ext=False, trailers=None, lax_ws=False):
    out = b""
    for p in parts:
        if not p:
            continue
        size = b"%x" % len(p)
        if rng.random() < 0.3:
            size = size.upper()
        if ext and rng.random() < 0.5:
            size += rng.choice([b";a=b", b";x", b"; q=\"z\"", b";" + b"e" * rng.randint(1, 12)])
        out += size + b"\r\n" + p + b"\r\n"
    out += b"0\r\n"
    for k, v in (trailers or []):
        out += k + b": " + v + b"\r\n"
    out += b"\r\n"
    return out


def gen_request(rng, small=True):
    """one valid request → bytes"""
    method = rng.choice(METHODS)
    target = rng.choice(TARGETS)
    if target == b"*":
        method = b"OPTIONS"
    if rng.random() < 0.05:
        method, target = b"CONNECT", rng.choice([b"example.com:443", b"h:1"])
    version = b"HTTP/1.1" if rng.random() < 0.85 else b"HTTP/1.0"
    hs = [(b"Host", b"example.com")] if (version == b"HTTP/1.1" or rng.random() < 0.5) else []
    for _ in range(rng.randint(0, 4)):
        hs.append(rng.choice(HEADER_POOL))
    body = b""
    r = rng.random()
    if method not in (b"CONNECT",) and r < 0.35:
        n = rng.choice([0, 1, 2, 5, 17] if small else [0, 1, 100, 4096])
        data = bytes(rng.choice(b"abc\r\n0123;") for _ in range(n))
        hs.append((b"Content-Length", b"%d" % n)); body = data
    elif method not in (b"CONNECT",) and r < 0.65 and version == b"HTTP/1.1":
        parts = [bytes(rng.choice(b"xyz\r\n09af") for _ in range(rng.choice([1, 2, 3, 10, 16, 17])))
                 for _ in range(rng.randint(0, 3))]
        tr = [(b"X-T", b"v")] * rng.randint(0, 2) if rng.random() < 0.4 else None
        hs.append((b"Transfer-Encoding", rng.choice([b"chunked", b"Chunked", b"gzip, chunked", b"chunked "])))
        body = chunked_body(rng, parts, ext=True, trailers=tr)
    rng.shuffle(hs)
    # Host must not be duplicated by the shuffle pool; singleton duplicates are a mutation class
    seen, hs2 = set(), []
    for k, v in hs:
        lk = k.lower()
        if lk in (b"connection", b"upgrade", b"content-type") and lk in seen:
            continue
        seen.add(lk); hs2.append((k, v))
    sep = rng.choice([b": ", b":", b":  ", b":\t"])
    head = method + b" " + target + b" " + version + b"\r\n" + b"".join(k + sep + v + b"\r\n" for k, v in hs2) + b"\r\n"
    return head + body


def gen_response(rng, lax=True):
    version = b"HTTP/1.1" if rng.random() < 0.85 else b"HTTP/1.0"
    code = rng.choice([200, 200, 201, 204, 304, 100, 101, 404, 500])
    reason = rng.choice([b"OK", b"", b"Not Found", b"Multi Word Reason"])
    hs = []
    for _ in range(rng.randint(0, 4)):
        hs.append(rng.choice(HEADER_POOL))
    body = b""
    r = rng.random()
    if r < 0.4:
        n = rng.choice([0, 1, 2, 5, 17])
        body = bytes(rng.choice(b"abc\r\n0123;") for _ in range(n))
        hs.append((b"Content-Length", b"%d" % n))
    elif r < 0.7:
        parts = [bytes(rng.choice(b"xyz\r\n09af") for _ in range(rng.choice([1, 2, 3, 10, 16, 17])))
                 for _ in range(rng.randint(0, 3))]
        hs.append((b"Transfer-Encoding", rng.choice([b"chunked", b"Chunked", b"gzip, chunked"])))
        body = chunked_body(rng, parts, ext=True, trailers=[(b"X-T", b"v")] if rng.random() < 0.3 else None)
    eol = b"\r\n"
    if lax and rng.random() < 0.2:
        eol = b"\n"
    head = version + b" " + (b"%d" % code) + (b" " + reason if reason or rng.random() < 0.5 else b"") + eol
    for k, v in hs:
        head += k + b": " + v + (b"\r" * rng.randint(1, 4) if lax and rng.random() < 0.08 else b"") + eol
        if lax and rng.random() < 0.1:
            head += b" folded" + eol
    head += eol
    if eol == b"\n":
        body = body  # bodies keep CRLF framing; lax parser accepts both
    return head + body


MUTATIONS = ["lfcr", "te_empty", "value_trailing_ctl", "chunk_size_lf", "nonutf8_err", "huge_cl", "dup_cl", "sign_cl", "space_cl", "us_cl", "uni_cl", "empty_cl", "cl_te", "te_list", "te_twice", "te_bad",
             "lf_for_crlf", "cr_only", "obs_fold", "ctl_value", "ctl_name", "ctl_target", "ws_before_colon", "ws_name_lead",
             "no_colon", "chunk_plus", "chunk_0x", "chunk_space", "chunk_empty", "chunk_big", "chunk_ext_lf", "chunk_ext_cr", "chunk_no_crlf",
             "bad_trailer", "no_host", "dup_host", "empty_host", "byte_flip", "byte_insert", "byte_delete", "truncate",
             "bad_version", "bad_method", "two_spaces", "kelvin_te", "long_line", "many_headers", "abs_bad_url", "connect_bad",
             "start_line_ws", "te_case", "bad_status"]


def mutate(rng, data, kind=None):
    kind = kind or rng.choice(MUTATIONS)
    d = data
    lines = d.split(b"\r\n")

    def after_first_line(extra):
        i = d.find(b"\r\n")
        return d[:i + 2] + extra + d[i + 2:] if i >= 0 else d + extra

    if kind == "start_line_ws":
        # a control byte that Python's str.split() treats as whitespace (LF VT FF CR FS GS RS US, also HT) inside or
        # around a start line — request line or status line, of any message of the stream: in front of it, in place
        # of / next to one of its spaces, or at its end
        starts = [i for i, l in enumerate(lines) if b"HTTP/" in l]
        if not starts: return d, kind
        i = rng.choice(starts)
        l = lines[i]
        c = bytes([rng.choice([10, 10, 10, 11, 12, 13, 28, 29, 30, 31, 9])])
        sp = [j for j in range(len(l)) if l[j:j + 1] == b" "]
        how = rng.choice(["lead", "lead", "replace", "before", "after", "end"])
        if how == "lead" or not sp:
            l = c + l
        elif how == "end":
            l = l + c
        else:
            j = rng.choice(sp)
            l = l[:j] + c + l[j + 1:] if how == "replace" else (l[:j] + c + l[j:] if how == "before" else l[:j + 1] + c + l[j + 1:])
        return b"\r\n".join(lines[:i] + [l] + lines[i + 1:]), kind
    if kind == "lfcr":
        # LF CR instead of CR LF at some line ends (a lax parser sees an LF-terminated line and a stray CR)
        idx = [i for i in range(len(d) - 1) if d[i:i + 2] == b"\r\n"]
        if not idx: return d, kind
        for i in rng.sample(idx, min(len(idx), rng.choice([1, 1, 2, 3]))):
            d = d[:i] + b"\n\r" + d[i + 2:]
        return d, kind
    if kind == "te_empty":
        te = rng.choice([b"", b" ", b"\t", b" ,", b","])
        return after_first_line(b"Transfer-Encoding:" + te + b"\r\n" + (b"Content-Length: 5\r\n" if rng.random() < 0.7 else b"")) + (b"hello" if rng.random() < 0.5 else b""), kind
    if kind == "value_trailing_ctl":
        c = bytes([rng.choice([10, 13, 11, 12, 0, 9, 32, 127])]) * rng.choice([1, 1, 2])
        h = rng.choice([b"Host: a", b"Content-Length: 5", b"Transfer-Encoding: chunked", b"X-V: v", b"Connection: close"])
        return after_first_line(h + c + b"\r\n"), kind
    if kind == "chunk_size_lf":
        head = b"POST /c HTTP/1.1\r\nHost: h\r\nTransfer-Encoding: chunked\r\n\r\n"
        body = rng.choice([b"5\n\r\nhello\r\n0\r\n\r\n", b"5\r\nhello\r\n0\n\r\n\r\n", b"5\n;ext\r\nhello\r\n0\r\n\r\n", b"5\r\r\nhello\r\n0\r\n\r\n",
                           b"5\x0b\r\nhello\r\n0\r\n\r\n", b"5 \r\nhello\r\n0\r\n\r\n", b"5\r\nhello\r\n0\r\nX: y\n\r\n\r\n"])
        return head + body + b"GET /next HTTP/1.1\r\nHost: h\r\n\r\n", kind
    if kind == "nonutf8_err":
        # a syntax error next to a byte that is not valid UTF-8: the error path must still produce a 400
        return rng.choice([
            b"GET /\xff\x7f HTTP/1.1\r\nHost: h\r\n\r\n", b"GET /\xff\x00 HTTP/1.1\r\nHost: h\r\n\r\n",
            b"G\xffE T / HTTP/1.1\r\nHost: h\r\n\r\n", b"GET / HTTP/1.\xff\r\nHost: h\r\n\r\n", b"\xff\xfe\r\nHost: h\r\n\r\n",
            b"GET / HTTP/1.1\r\nHost: h\r\nX\xff Y: v\r\n\r\n", b"GET / HTTP/1.1\r\nHost: h\r\nX: a\xff\x00\r\n\r\n",
            b"GET / HTTP/1.1\r\nHost: h\r\nContent-Length: \xff1\r\n\r\n", b"GET / HTTP/1.1\r\nHost: h\r\nTransfer-Encoding: \xffchunked\r\n\r\n",
            b"POST / HTTP/1.1\r\nHost: h\r\nTransfer-Encoding: chunked\r\n\r\n\xff\r\n\r\n",
            b"POST / HTTP/1.1\r\nHost: h\r\nTransfer-Encoding: chunked\r\n\r\n3;\xff\n\r\nabc\r\n0\r\n\r\n",
            b"POST / HTTP/1.1\r\nHost: h\r\nTransfer-Encoding: chunked\r\n\r\n0\r\nX\xff: \x00\r\n\r\n",
            b"GET http://\xff[::1 HTTP/1.1\r\nHost: h\r\n\r\n", b"CONNECT \xff:70000 HTTP/1.1\r\nHost: h\r\n\r\n",
            b"GET /" + bytes([rng.randrange(128, 256), rng.choice([0, 9, 11, 32, 127])]) + b" HTTP/1.1\r\nHost: h\r\n\r\n",
        ]), kind
    if kind == "huge_cl":
        n = rng.choice([4299, 4300, 4301, 5000])
        return after_first_line(b"Content-Length: " + rng.choice([b"0", b"1"]) * n + b"\r\n"), kind
    if kind == "dup_cl":
        return after_first_line(b"Content-Length: 3\r\nContent-Length: 3\r\n"), kind
    if kind in ("sign_cl", "space_cl", "us_cl", "uni_cl", "empty_cl"):
        v = {"sign_cl": b"+3", "space_cl": b"1 2", "us_cl": b"1_0", "uni_cl": "٣".encode(), "empty_cl": b""}[kind]
        return after_first_line(b"Content-Length: " + v + b"\r\n"), kind
    if kind == "cl_te":
        return after_first_line(b"Content-Length: 3\r\nTransfer-Encoding: chunked\r\n"), kind
    if kind == "te_list":
        return after_first_line(b"Transfer-Encoding: " + rng.choice([b"chunked, chunked", b"gzip", b"chunked ,", b"chunked, gzip",
                                                                      b"\x0bchunked", b"chunked;q=1", b", chunked", b"chunked,",
                                                                      b"Chunked, chunked", b"chunked, CHUNKED", b"cHuNkEd, gzip, chunked", b"CHUNKED,chunked",
                                                                      b"chunked, Chunked ", b"gzip, Chunked", b"CHUNKED"]) + b"\r\n"), kind
    if kind == "bad_status":
        # the status code of a response is exactly three ASCII digits
        i = d.find(b"\r\n")
        first = d[:i] if i >= 0 else d
        if not first.startswith(b"HTTP/"):
            return b"HTTP/1.1 " + rng.choice([b"2x0", b"+20", b"20", b"2000", b"\xd9\xa2\xd9\xa0\xd9\xa0", b"\xc2\xb200", b"-00", b"0x1", b"2 0", b"1e2", b"200.", b"\xef\xbc\x92\xef\xbc\x90\xef\xbc\x90"]) + b" OK\r\nContent-Length: 0\r\n\r\n", kind
        parts = first.split(b" ", 2)
        if len(parts) < 2: return d, kind
        parts[1] = rng.choice([b"2x0", b"+20", b"20", b"2000", b"\xd9\xa2\xd9\xa0\xd9\xa0", b"\xc2\xb200", b"-00", b"0x1", b"1e2", b"200.", b"\xef\xbc\x92\xef\xbc\x90\xef\xbc\x90", b"_00", b"2_0"])
        return b" ".join(parts) + (d[i:] if i >= 0 else b""), kind
    if kind == "te_case":
        # codings are case-insensitive: a list that names chunked twice (in any spelling), or not last, with a body
        # that is valid chunked data and a pipelined request behind it
        te = rng.choice([b"Chunked, chunked", b"chunked, CHUNKED", b"cHuNkEd, gzip, chunked", b"CHUNKED,chunked", b"chunked,Chunked",
                         b"Chunked, gzip", b"CHUNKED", b"Chunked", b"gzip, Chunked", b"chunked, chunked"])
        return (b"POST /c HTTP/1.1\r\nHost: h\r\nTransfer-Encoding: " + te + b"\r\n\r\n3\r\nabc\r\n0\r\n\r\n"
                b"GET /next HTTP/1.1\r\nHost: h\r\n\r\n"), kind
    if kind == "te_twice":
        return after_first_line(b"Transfer-Encoding: chunked\r\nTransfer-Encoding: chunked\r\n"), kind
    if kind == "te_bad":
        return after_first_line(b"Transfer-Encoding: xchunked\r\n"), kind
    if kind == "kelvin_te":
        return after_first_line(b"Transfer-Encoding: chun\xe2\x84\xaaed\r\n"), kind
    if kind == "lf_for_crlf":
        idx = [i for i in range(len(d) - 1) if d[i:i + 2] == b"\r\n"]
        if not idx: return d, kind
        i = rng.choice(idx); return d[:i] + b"\n" + d[i + 2:], kind
    if kind == "cr_only":
        idx = [i for i in range(len(d) - 1) if d[i:i + 2] == b"\r\n"]
        if not idx: return d, kind
        i = rng.choice(idx); return d[:i] + b"\r" + d[i + 2:], kind
    if kind == "obs_fold":
        return after_first_line(b"X-Fold: a\r\n " + rng.choice([b"b", b"Content-Length: 5", b""]) + b"\r\n"), kind
    if kind == "ctl_value":
        c = bytes([rng.choice(list(range(0, 32)) + [127, 128, 255])])
        return after_first_line(b"X-C: a" + c + b"b\r\n"), kind
    if kind == "ctl_name":
        c = bytes([rng.choice(list(range(0, 33)) + [127, 128, 255, 40, 41, 44, 47, 58, 59, 60, 61, 62, 63, 64, 91, 92, 93, 123, 125])])
        return after_first_line(b"X" + c + b"C: a\r\n"), kind
    if kind == "ctl_target":
        c = bytes([rng.choice(list(range(0, 33)) + [127, 128, 255])])
        i = d.find(b" ")
        return (d[:i + 2] + c + d[i + 2:] if i >= 0 else d), kind
    if kind == "ws_before_colon":
        return after_first_line(b"X-W" + rng.choice([b" ", b"\t"]) + b": a\r\n"), kind
    if kind == "ws_name_lead":
        return after_first_line(rng.choice([b" ", b"\t"]) + b"X-W: a\r\n"), kind
    if kind == "no_colon":
        return after_first_line(b"NoColonHere\r\n"), kind
    if kind.startswith("chunk_") or kind == "bad_trailer":
        head = b"POST /c HTTP/1.1\r\nHost: h\r\nTransfer-Encoding: chunked\r\n\r\n"
        body = {
            "chunk_plus": b"+3\r\nabc\r\n0\r\n\r\n", "chunk_0x": b"0x3\r\nabc\r\n0\r\n\r\n", "chunk_space": b" 3\r\nabc\r\n0\r\n\r\n",
            "chunk_empty": b"\r\nabc\r\n0\r\n\r\n", "chunk_big": b"ffffffffffffffffffff\r\nabc\r\n0\r\n\r\n",
            "chunk_ext_lf": b"3;a\nb\r\nabc\r\n0\r\n\r\n",
            "chunk_ext_cr": rng.choice([b"3;a\rb\r\nabc\r\n0\r\n\r\n", b"3;a=\"x\ry\"\r\nabc\r\n0\r\n\r\n", b"3\r\nabc\r\n0;z\r\r\n\r\n", b"3;\r\r\nabc\r\n0\r\n\r\n"]),
            "chunk_no_crlf": b"3\r\nabcX\r\n0\r\n\r\n",
            "bad_trailer": rng.choice([b"0\r\nBad Trailer\r\n\r\n", b"0\r\nX : y\r\n\r\n", b"0\r\nX: a\x00\r\n\r\n", b"0\r\nX: y\n\r\n",
                                       b"0\r\n: v\r\n\r\n", b"0\r\n:\r\n\r\n", b"0\r\n X: y\r\n\r\n", b"0\r\nX: y\r\n folded\r\n\r\n", b"0\r\nX\x7f: y\r\n\r\n",
                                       b"0\r\nX: y\r\n: v\r\n\r\n", b"3\r\nabc\r\n0\r\n(bad): v\r\n\r\n"]),
        }[kind]
        return head + body + b"GET /next HTTP/1.1\r\nHost: h\r\n\r\n", kind
    if kind == "no_host":
        # Host removed from the generated request(s) whatever the target form (origin, absolute, asterisk, authority)
        kept = [l for l in lines if not l.lower().startswith(b"host:")]
        if len(kept) != len(lines) and rng.random() < 0.8:
            return b"\r\n".join(kept), kind
        t = rng.choice([b"/", b"http://example.com/x", b"http://example.com:80/p?q", b"*", b"//double"])
        m = b"OPTIONS" if t == b"*" else rng.choice([b"GET", b"POST", b"CONNECT"])
        if m == b"CONNECT": t = b"example.com:443"
        return m + b" " + t + b" HTTP/1.1\r\nAccept: x\r\n" + (b"Content-Length: 3\r\n\r\nabc" if m == b"POST" else b"\r\n"), kind
    if kind == "dup_host":
        return after_first_line(b"Host: a\r\nHost: b\r\n"), kind
    if kind == "empty_host":
        return b"GET / HTTP/1.1\r\nHost:\r\n\r\n", kind
    if kind == "byte_flip" and d:
        i = rng.randrange(len(d)); return d[:i] + bytes([rng.randrange(256)]) + d[i + 1:], kind
    if kind == "byte_insert":
        i = rng.randrange(len(d) + 1); return d[:i] + bytes([rng.choice([0, 9, 10, 13, 32, 58, 59, 128, rng.randrange(256)])]) + d[i:], kind
    if kind == "byte_delete" and d:
        i = rng.randrange(len(d)); return d[:i] + d[i + 1:], kind
    if kind == "truncate" and d:
        return d[:rng.randrange(len(d))], kind
    if kind == "bad_version":
        return d.replace(b"HTTP/1.1", rng.choice([b"HTTP/1.1x", b"HTTP/11.1", b"http/1.1", b"HTTP/1", b"HTTP/\xd9\xa1.1", b"HTTP/9.9"]), 1), kind
    if kind == "bad_method":
        return rng.choice([b"G@T", b"", b"GE T", b"G\xc3\xa9T", b"GET\t"]) + d[d.find(b" "):], kind
    if kind == "two_spaces":
        return d.replace(b" ", b"  ", 1), kind
    if kind == "long_line":
        return after_first_line(b"X-L: " + b"z" * rng.choice([100, 300, 9000]) + b"\r\n"), kind
    if kind == "many_headers":
        return after_first_line(b"".join(b"X-%d: v\r\n" % i for i in range(rng.choice([5, 20, 140])))), kind
    if kind == "abs_bad_url":
        return rng.choice([b"GET http://[::1 HTTP/1.1", b"GET http://a:99999999/ HTTP/1.1", b"GET noscheme HTTP/1.1", b"GET a:b HTTP/1.1",
                           b"GET ://x HTTP/1.1"]) + b"\r\nHost: h\r\n\r\n", kind
    if kind == "connect_bad":
        return rng.choice([b"CONNECT a:b HTTP/1.1", b"CONNECT /[ HTTP/1.1", b"CONNECT h:70000 HTTP/1.1", b"CONNECT [::1 HTTP/1.1"]) + b"\r\nHost: h\r\n\r\n", kind
    return d, kind


def deterministic_mutants(per_kind=12):
    """every mutation class drawn `per_kind` times from a FIXED random stream (independent of VERIF_SEED): what a check
    claims to catch must not depend on the luck of the seed → [(stream, kind, is_response)]"""
    import random

    class _Seq(random.Random):
        """choice() walks through the alternatives (the i-th draw of a kind takes the i-th variant of every list)"""
        idx = None

        def choice(self, seq):
            if self.idx is None:
                return super().choice(seq)
            return seq[self.idx % len(seq)]
    rng = _Seq(20260922)
    out = []
    for kind in MUTATIONS:
        for i in range(per_kind):
            rng.idx = None
            base = gen_request(rng) if i % 4 else b"".join(gen_request(rng) for _ in range(2))
            rng.idx = i
            data, k = mutate(rng, base, kind)
            out.append((data, k, False))
        for i in range(max(2, per_kind // 4)):
            rng.idx = None
            base = gen_response(rng, True)
            rng.idx = i
            data, k = mutate(rng, base, kind)
            out.append((data, k, True))
    return out


def cuts_single(data):
    return [[data[:i], data[i:]] for i in range(1, len(data))]


def cuts_random(rng, data, k):
    if len(data) < 2:
        return [data]
    pts = sorted(rng.sample(range(1, len(data)), min(k, len(data) - 1)))
    out, prev = [], 0
    for p in pts:
        out.append(data[prev:p]); prev = p
    out.append(data[prev:])
    return out


def bytewise(data):
    return [data[i:i + 1] for i in range(len(data))]


def near_limits(rng, data, cfg):
    """pick limits within ±1 of an actual line length of this stream (50%)"""
    lines = [l for l in data.split(b"\r\n") if l]
    if not lines or rng.random() < 0.5:
        return cfg
    first = len(lines[0])
    rest = [len(l) for l in lines[1:]] or [first]
    d1, d2 = rng.choice([-1, 0, 0, 1]), rng.choice([-1, 0, 0, 1])
    if rng.random() < 0.6:
        cfg.max_line = max(1, first + d1)
    if rng.random() < 0.6:
        cfg.max_field = max(1, rng.choice(rest) + d2)
    if rng.random() < 0.25:
        cfg.max_headers = max(1, len(lines) + rng.choice([-2, -1, 0, 1]))
    elif rng.random() < 0.2:
        # the head's own line count (start line, fields, blank line): the trailer budget of a chunked body is what is left
        head = data.split(b"\r\n\r\n")[0]
        cfg.max_headers = max(1, head.count(b"\r\n") + 2 + rng.choice([-1, 0, 0, 1, 2]))
    return cfg
