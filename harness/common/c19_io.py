"""C19 helpers: an instrumented in-memory StreamReader fed lazily (one segment each time the
reader blocks), and the scripted consumer that mirrors `Aio.C19.drive`."""
import asyncio, warnings

warnings.filterwarnings("ignore", category=DeprecationWarning)


class StepLimit(BaseException):
    """the reader made more stream calls than any terminating run can"""


class SizeErr(Exception):
    pass


class Proto:
    connected = True
    _reading_paused = False

    def pause_reading(self):
        pass

    def resume_reading(self, resume_parser=True):
        pass


def make_stream(loop, limit, bound):
    from aiohttp.streams import StreamReader

    class Counting(StreamReader):
        __slots__ = ("steps", "bound")

        async def read(self, n=-1):
            self.steps += 1
            if self.steps > self.bound:
                raise StepLimit()
            return await super().read(n)

        async def readuntil(self, separator=b"\n", *, max_size=None):
            self.steps += 1
            if self.steps > self.bound:
                raise StepLimit()
            return await super().readuntil(separator, max_size=max_size)

    sr = Counting(Proto(), limit, loop=loop)
    sr.steps = 0
    sr.bound = bound
    return sr


async def lazily_fed(sr, segs, prefed, eof_with_last, coro):
    """run `coro` (which reads from sr) while delivering `segs[prefed:]` one at a time, each
    only when the reader is parked in `_wait`; EOF comes with the last segment or at the next park"""
    for s in segs[:prefed]:
        sr.feed_data(s)
    i = prefed
    if i >= len(segs) and eof_with_last:
        sr.feed_eof()
    task = asyncio.ensure_future(coro)
    while not task.done():
        if sr._waiter is not None and not sr._waiter.done():
            if i < len(segs):
                sr.feed_data(segs[i]); i += 1
                if i == len(segs) and eof_with_last:
                    sr.feed_eof()
            elif not sr._eof:
                sr.feed_eof()
        await asyncio.sleep(0)
    return task.result(), sr.total_bytes


def err_name(e):
    from aiohttp.http_exceptions import LineTooLong, BadHttpMessage
    if isinstance(e, LineTooLong): return "E_LINE"
    if isinstance(e, BadHttpMessage): return "E_BADMSG"
    if isinstance(e, SizeErr): return "E_SIZE"
    if isinstance(e, AssertionError): return "E_ASSERT"
    if isinstance(e, UnicodeError): return f"E_OTHER({type(e).__name__})"
    if isinstance(e, ValueError): return "E_VALUE"
    if isinstance(e, RuntimeError): return "E_RUNTIME"
    return f"E_OTHER({type(e).__name__})"


def hx(b):
    b = bytes(b)
    return b.hex() if b else "-"


def show_hdrs(h):
    items = [(k.encode("utf-8", "surrogateescape"), v.encode("utf-8", "surrogateescape")) for k, v in getattr(h, '_md', h).items()]
    return "&".join(f"{hx(k)}={hx(v)}" for k, v in items) if items else "~"


def show_list(l):
    return ",".join(hx(x) for x in l) if l else "~"


class Stuck(Exception):
    pass


class ActionError(Exception):
    def __init__(self, exc, n):
        self.exc, self.n = exc, n


async def do_action(part, action, sr, collect):
    """returns (tag, list of raw byte strings); an exception is re-raised as ActionError carrying the number of
    read_chunk / readline calls of this action that had succeeded (makes *when* the reader gives up observable)"""
    n = [0]
    orig_chunk, orig_line = part.read_chunk, part.readline

    async def read_chunk(size=8192):
        r = await orig_chunk(size); n[0] += 1; return r

    async def readline():
        r = await orig_line(); n[0] += 1; return r

    part.read_chunk, part.readline = read_chunk, readline
    try:
        return await _do_action(part, action, sr)
    except (Stuck, StepLimit):
        raise
    except Exception as e:
        raise ActionError(e, n[0])
    finally:
        del part.read_chunk, part.readline


async def _do_action(part, action, sr):
    k = action[0]
    if k == "R":
        d = await part.read()
        return "R", [bytes(d)]
    if k == "X":
        await part.release()
        return "X", []
    if k == "S":
        return "S", []
    if k == "L":
        out, last_empty = [], False
        while not part.at_eof():
            l = await part.readline()
            if l == b"" and last_empty and not part.at_eof() and sr.at_eof():
                raise Stuck()
            last_empty = l == b""
            out.append(bytes(l))
        return "L", out
    if k == "C":
        sizes = action[1]
        out, i = [], 0
        while not part.at_eof():
            out.append(bytes(await part.read_chunk(sizes[i % len(sizes)])))
            i += 1
        return "C", out
    if k == "P":
        out = []
        for _ in range(action[1]):
            if part.at_eof():
                break
            out.append(bytes(await part.read_chunk(action[2])))
        await part.release()
        return "P", out
    raise AssertionError(action)


def action_token(a):
    if a[0] == "C":
        return "C" + ".".join(str(x) for x in a[1])
    if a[0] == "P":
        return f"P{a[1]}.{a[2]}"
    return a[0]


async def consume(reader, script, descend, sr, events, parts, ctr):
    from aiohttp.multipart import MultipartReader
    while True:
        part = await reader.next()
        if part is None:
            return
        if isinstance(part, MultipartReader):
            if descend:
                events.append("N" + show_hdrs(part.headers) + "(")
                sub = []
                parts.append(("N", part, sub))
                await consume(part, script, descend, sr, events, sub, ctr)
                events.append(")")
            else:
                parts.append(("N", part, None))
        else:
            a = script[ctr[0] % len(script)]
            ctr[0] += 1
            tag, data = await do_action(part, a, sr, None)
            events.append(f"B{show_hdrs(part.headers)}:{tag}:{show_list(data)}")
            parts.append(("B", part, tag, data))


def run_reader(loop, wire_segs, boundary, subtype, *, script, descend=True, prefed=0, eof_with_last=False,
               limit=2 ** 16, max_field=8190, max_headers=128, max_size=2 ** 62, bound=None):
    """drive the real MultipartReader; returns (event string, parts tree, steps, error-or-None)"""
    from aiohttp.multipart import MultipartReader
    total = sum(len(s) for s in wire_segs)
    if bound is None:
        bound = 16 * total + 4096
    sr = make_stream(loop, limit, bound)
    events, parts = [], []
    q = '"' + boundary.replace("\\", "\\\\").replace('"', '\\"') + '"'
    rd = MultipartReader({"Content-Type": f"multipart/{subtype}; boundary={q}"}, sr,
                         client_max_size=max_size, max_field_size=max_field, max_headers=max_headers,
                         max_size_error_cls=SizeErr)
    err = None

    async def main():
        nonlocal err
        try:
            await consume(rd, script, descend, sr, events, parts, [0])
            events.append("END")
        except Stuck:
            events.append("STUCK"); err = "STUCK"
        except StepLimit:
            events.append("LOOP"); err = "LOOP"
        except ActionError as e:
            err = err_name(e.exc)
            events.append(f"{err}@{e.n}")
        except Exception as e:
            err = err_name(e)
            events.append(err)

    _, fed = loop.run_until_complete(lazily_fed(sr, wire_segs, prefed, eof_with_last, main()))
    rd.fed_bytes = fed
    return " ".join(events), parts, sr.steps, err, rd


def rd_line(wire_segs, boundary, subtype, *, script, descend=True, prefed=0, eof_with_last=False,
            limit=2 ** 16, max_field=8190, max_headers=128, max_size=2 ** 62):
    return " ".join([
        "rd", hx(boundary.encode()), "1" if subtype == "form-data" else "0", str(max_field), str(max_headers),
        str(max_size), "1" if eof_with_last else "0", str(limit), str(prefed), show_list(wire_segs),
        "1" if descend else "0", ",".join(action_token(a) for a in script)])
