"""Standalone reproduction of the C16 findings on the real CookieJar (run with PYTHONPATH=<repo> AIOHTTP_NO_EXTENSIONS=1)."""
import aiohttp, aiohttp.cookiejar as cj
from aiohttp import CookieJar
from yarl import URL
T = [1_700_000_000.0]
class Clock:
    def time(self): return T[0]
    def __getattr__(self, n): import time; return getattr(time, n)
cj.time = Clock()
def sent(j, u): return sorted((k, m.value) for k, m in j.filter_cookies(URL(u)).items())
def jar(): T[0] = 1_700_000_000.0; return CookieJar()
E = URL("http://example.com/")
j = jar(); j.update_cookies_from_headers(["a=1; Path=/x; Max-Age=1", "a=2; Path=/y"], E); T[0] += 5
print("F10  host-only a=2 sent to sub.example.com:", sent(j, "http://sub.example.com/y"), "(expected [])")
j = jar(); j.update_cookies_from_headers(["a=1"], E); j.update_cookies_from_headers(["a=2; Domain=example.com"], E)
print("F21  domain cookie withheld from sub.example.com:", sent(j, "http://sub.example.com/"), "(expected [('a','2')])")
j = jar(); j.update_cookies_from_headers(["a=1; Max-Age=5"], E); j.update_cookies_from_headers(["a=2"], E); T[0] += 10
print("F22  session cookie evicted with old deadline:", sent(j, "http://example.com/"), "(expected [('a','2')])")
j = jar(); j.update_cookies_from_headers(["a=1; Max-Age=abc; Expires=Wed, 09 Jun 2021 10:18:14 GMT"], E)
print("F23  invalid Max-Age hides past Expires:", sent(j, "http://example.com/"), "(expected [])")
j = jar(); j.update_cookies_from_headers(["a=1"], E); j.update_cookies_from_headers(["a=deleted; Expires=Thu, 01 Jan 1970 00:00:00 GMT"], E)
print("F24  epoch Expires keeps the cookie:", sent(j, "http://example.com/"), "(expected [])")
j = jar(); j.update_cookies_from_headers(["a=1; Path=/x//"], E)
print("F25  Path=/x// sent to /x/y:", sent(j, "http://example.com/x/y"), "(expected [])")
j = jar(); j.update_cookies_from_headers(["a=1; Path=/x", "a=2; Path=/x/"], E)
print("F25b Path=/x replaced by Path=/x/:", sent(j, "http://example.com/x"), "(expected [('a','1')])")
j = jar(); j.update_cookies_from_headers(["a=1; Domain=Example.COM"], E)
print("F26  upper-case Domain refused:", sent(j, "http://example.com/"), "(expected [('a','1')])")
