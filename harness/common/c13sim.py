"""C13 scenario engine: one real WebSocket session (server `WebSocketResponse` behind the real
`RequestHandler`, or client `ClientWebSocketResponse` behind the real `ClientSession` /
`ResponseHandler`) over an in-memory transport, stepped one event-loop callback at a time under
virtual time.  Labels (the only nondeterminism, see lean/AioModel/C13.lean):

  call <t> recv | close <code> | send <n> | ping     start an application task (loop.create_task)
  cancel <t>                                          task.cancel()
  peer text <n> | ping | pong | close <code> | bad    the scripted peer's frame is delivered
  drop <0|1>                                          connection loss (clean EOF / with an OSError)
  pausew | resumew                                    transport write back-pressure
  adv <ms>                                            virtual time passes (not beyond the next timer; only when nothing is ready)
  tick                                                run ONE ready callback; if none is ready, jump the
                                                      clock to the next timer and move the due timers to ready

After every label a projection of the real objects is recorded.  Times are milliseconds.
"""
import asyncio, base64, hashlib, heapq, struct, threading
from asyncio import events

from .vloop import VLoop

WS_KEY = b"258EAFA5-E914-47DA-95CA-C5AB0DC85B11"
APP_TASKS = 3


class MemTransport(asyncio.Transport):
    def __init__(self, loop):
        super().__init__()
        self.loop = loop
        self.proto = None
        self.out = bytearray()
        self.closing = False
        self.lost = False
        self.read_paused = False
        self.close_calls = 0

    def write(self, data):
        if self.closing:
            return
        self.out += bytes(data)

    def writelines(self, l):
        for d in l:
            self.write(d)

    def is_closing(self):
        return self.closing

    def close(self):
        self.close_calls += 1
        if not self.closing:
            self.closing = True
            self.loop.call_soon(self._lost, None)

    abort = close

    def drop(self, exc):
        if not self.closing:
            self.closing = True
            self.loop.call_soon(self._lost, exc)
            return True
        return False

    def _lost(self, exc):
        if not self.lost:
            self.lost = True
            self.proto.connection_lost(exc)

    def pause_reading(self):
        self.read_paused = True

    def resume_reading(self):
        self.read_paused = False

    def get_extra_info(self, name, default=None):
        return default

    def get_write_buffer_size(self):
        return 0

    def set_write_buffer_limits(self, high=None, low=None):
        pass


def frame(opcode, payload=b"", masked=False, rsv=0):
    b0 = 0x80 | rsv | opcode
    n = len(payload)
    mb = 0x80 if masked else 0
    if n < 126:
        h = struct.pack("!BB", b0, n | mb)
    elif n < 65536:
        h = struct.pack("!BBH", b0, 126 | mb, n)
    else:
        h = struct.pack("!BBQ", b0, 127 | mb, n)
    if masked:
        return h + b"\x00\x00\x00\x00" + payload
    return h + payload


def parse_frames(b):
    """frames written by aiohttp on the wire -> list of (opcode, payload) ; payload unmasked"""
    out, i = [], 0
    while i + 2 <= len(b):
        op = b[i] & 0xF
        ln = b[i + 1] & 0x7F
        j = i + 2
        if ln == 126:
            ln = int.from_bytes(b[j:j + 2], "big"); j += 2
        elif ln == 127:
            ln = int.from_bytes(b[j:j + 8], "big"); j += 8
        mask = None
        if b[i + 1] & 0x80:
            mask = b[j:j + 4]; j += 4
        p = bytes(b[j:j + ln])
        if mask:
            p = bytes(x ^ mask[k % 4] for k, x in enumerate(p[:8])) + p[8:]  # only the head is needed
        out.append((op, p, ln))
        i = j + ln
    return out


def frame_tokens(b):
    toks = []
    for op, p, ln in parse_frames(b):
        if op == 8:
            toks.append("C" + str(int.from_bytes(p[:2], "big") if len(p) >= 2 else 0))
        elif op == 9:
            toks.append("P")
        elif op == 10:
            toks.append("O")
        elif op in (1, 2):
            toks.append("T")
        else:
            toks.append("?%d" % op)
    return toks


class Sim:
    """one session; all private attributes read here are the anchored state of C13"""

    def __init__(self, cfg):
        self.cfg = cfg
        self.loop = VLoop()
        self.loop.stop_on_quiescence = False
        self.excs = []
        self.loop.set_exception_handler(lambda l, c: self.excs.append(c))
        self.tasks = [None] * APP_TASKS
        self.task_info = [None] * APP_TASKS     # (op, start_ms)
        self.results = ["-"] * APP_TASKS
        self.done_at = [None] * APP_TASKS
        self.tie = False
        self.hb_fired_reset_pending = False
        self.ws = None
        self.tr = None
        self.proto = None
        self.mark = 0
        self._keep = []
        self.transport_cls = MemTransport
        self.client_tail = b""       # bytes the peer sends in the same segment as its 101 response

    # ---- loop plumbing -------------------------------------------------------------
    def __enter__(self):
        asyncio.set_event_loop(self.loop)
        events._set_running_loop(self.loop)
        self.loop._thread_id = threading.get_ident()   # is_running() must hold: eager task start depends on it
        return self

    def __exit__(self, *a):
        loop = self.loop
        try:
            if self.tr is not None:
                self.tr.closing = True      # teardown only: later close() calls are no-ops
            for t in asyncio.all_tasks(loop):
                t.cancel()
            for _ in range(2000):
                if not loop._ready:
                    break
                h = loop._ready.popleft()
                if not h._cancelled:
                    h._run()
            for t in asyncio.all_tasks(loop):
                if t.done() and not t.cancelled():
                    t.exception()
        except BaseException:
            pass
        finally:
            loop._thread_id = None
            events._set_running_loop(None)
            asyncio.set_event_loop(None)
            try:
                loop._ready.clear(); loop._scheduled.clear()
                loop.close()
            except BaseException:
                pass

    def now_ms(self):
        v = self.loop.time() * 1000
        assert v == int(v), v
        return int(v)

    def _prune(self):
        loop = self.loop
        while loop._scheduled and loop._scheduled[0]._cancelled:
            h = heapq.heappop(loop._scheduled)
            h._scheduled = False
        while loop._ready and loop._ready[0]._cancelled:
            loop._ready.popleft()

    def _prune_all(self):
        self._prune()

    def n_ready(self):
        return sum(1 for h in self.loop._ready if not h._cancelled)

    def n_timers(self):
        return sum(1 for h in self.loop._scheduled if not h._cancelled)

    def tick(self):
        """one micro-step; returns 'cb' | 'time' | 'idle'"""
        loop = self.loop
        self._prune()
        if loop._ready:
            h = loop._ready.popleft()
            cb = getattr(h, "_callback", None)
            if getattr(cb, "__name__", "") == "_send_heartbeat" and self.ws is not None and self.ws._need_heartbeat_reset:
                self.hb_fired_reset_pending = True   # generator coverage only: the coincidence case was exercised
            h._run()
            return "cb"
        if loop._scheduled:
            when = loop._scheduled[0]._when
            if when > loop._vt:
                loop._vt = when
            due = []
            while loop._scheduled and loop._scheduled[0]._when <= loop._vt:
                h = heapq.heappop(loop._scheduled)
                h._scheduled = False
                if not h._cancelled:
                    due.append(h)
            if len({h._when for h in due}) != len(due):
                self.tie = True
            for h in due:
                loop._ready.append(h)
            return "time"
        return "idle"

    def settle(self, limit=5000):
        """run ready callbacks (no clock movement) until nothing is ready"""
        n = 0
        while True:
            self._prune()
            if not self.loop._ready:
                return n
            self.tick(); n += 1
            if n > limit:
                raise RuntimeError("settle: no fixpoint")

    # ---- set-up ---------------------------------------------------------------------
    def setup(self):
        if self.cfg["side"] == "server":
            self._setup_server()
        else:
            self._setup_client()
        self.mark = len(self.tr.out)
        self.base_timers = self.n_timers()

    def _setup_server(self):
        from aiohttp import web
        cfg = self.cfg
        holder = {}
        forever = self.loop.create_future()
        self._keep.append(forever)

        async def handler(request):
            ws = web.WebSocketResponse(
                timeout=cfg["close_timeout"] / 1000, receive_timeout=(cfg["recv_timeout"] or 0) / 1000 or None,
                autoclose=cfg["autoclose"], autoping=cfg["autoping"],
                heartbeat=None if cfg["heartbeat"] is None else cfg["heartbeat"] / 1000,
                writer_limit=cfg["limit"], compress=False)
            await ws.prepare(request)
            holder["ws"] = ws
            await forever
            return ws

        server = web.Server(handler)
        self._keep.append(server)
        proto = server()
        tr = MemTransport(self.loop)
        tr.proto = proto
        proto.connection_made(tr)
        key = base64.b64encode(b"0123456789abcdef").decode()
        proto.data_received((
            "GET /ws HTTP/1.1\r\nHost: h\r\nUpgrade: websocket\r\nConnection: Upgrade\r\n"
            f"Sec-WebSocket-Key: {key}\r\nSec-WebSocket-Version: 13\r\n\r\n").encode())
        self.settle()
        self.ws = holder["ws"]
        self.tr, self.proto = tr, proto
        self.reader = self.ws._reader
        self.writer = self.ws._writer

    def _setup_client(self):
        import aiohttp
        from aiohttp.connector import BaseConnector
        from aiohttp.client_ws import ClientWSTimeout
        cfg = self.cfg
        loop = self.loop
        sim = self

        class Conn(BaseConnector):
            async def _create_connection(self, req, traces, timeout):
                proto = self._factory()
                tr = sim.transport_cls(loop)
                tr.proto = proto
                proto.connection_made(tr)
                sim.tr, sim.proto = tr, proto
                return proto

        holder = {}

        async def main():
            conn = Conn()
            session = aiohttp.ClientSession(connector=conn, timeout=aiohttp.ClientTimeout(total=None))
            holder["session"] = session
            ws = await session.ws_connect(
                "http://h/ws",
                timeout=ClientWSTimeout(ws_receive=(cfg["recv_timeout"] or 0) / 1000 or None,
                                        ws_close=cfg["close_timeout"] / 1000),
                autoclose=cfg["autoclose"], autoping=cfg["autoping"],
                heartbeat=None if cfg["heartbeat"] is None else cfg["heartbeat"] / 1000)
            holder["ws"] = ws

        t = loop.create_task(main())
        self._keep.append(t)
        self.settle()
        # the scripted peer answers the upgrade request
        req = bytes(self.tr.out)
        key = None
        for line in req.split(b"\r\n"):
            if line.lower().startswith(b"sec-websocket-key:"):
                key = line.split(b":", 1)[1].strip()
        accept = base64.b64encode(hashlib.sha1(key + WS_KEY).digest())
        self.proto.data_received(
            b"HTTP/1.1 101 Switching Protocols\r\nUpgrade: websocket\r\nConnection: upgrade\r\n"
            b"Sec-WebSocket-Accept: " + accept + b"\r\n\r\n" + self.client_tail)
        self.settle()
        if not t.done() or t.exception():
            raise RuntimeError(f"client handshake failed: {t}")
        self.ws = holder["ws"]
        self._keep.append(holder["session"])
        self.reader = self.ws._reader
        self.writer = self.ws._writer
        # the client writer's limit is fixed by ws_connect (DEFAULT_CHUNK_SIZE): scenarios must say so
        assert cfg["limit"] == self.writer._limit, (cfg["limit"], self.writer._limit)

    # ---- labels ---------------------------------------------------------------------
    def apply(self, lab):
        k = lab[0]
        if k == "tick":
            self.tick()
        elif k == "call":
            self._call(lab[1], lab[2:])
        elif k == "cancel":
            t = self.tasks[lab[1]]
            if t is not None and not t.done():
                t.cancel()
        elif k == "peer":
            self._peer(lab[1:])
        elif k == "drop":
            self.tr.drop(ConnectionResetError("dropped") if lab[1] else None)
        elif k == "adv":
            self._prune_all()
            if not self.n_ready():
                heads = [h._when for h in self.loop._scheduled if not h._cancelled]
                target = self.loop._vt + lab[1] / 1000
                if heads:
                    target = max(self.loop._vt, min(target, min(heads)))
                self.loop._vt = target
        elif k == "pausew":
            if not self.proto._paused and not self.tr.closing:
                self.proto.pause_writing()
        elif k == "resumew":
            if self.proto._paused and not self.tr.lost:
                self.proto.resume_writing()
        else:
            raise ValueError(lab)

    def _call(self, t, op):
        cur = self.tasks[t]
        if cur is not None and not cur.done():
            return
        ws = self.ws
        if op[0] == "recv":
            coro = ws.receive()
        elif op[0] == "close":
            coro = ws.close(code=op[1])
        elif op[0] == "send":
            coro = ws.send_bytes(b"x" * op[1])
        elif op[0] == "ping":
            coro = ws.ping()
        else:
            raise ValueError(op)
        task = self.loop.create_task(coro)
        self.tasks[t] = task
        self.task_info[t] = (op, self.now_ms())
        self.results[t] = "p"
        self.done_at[t] = None

    def _peer(self, m):
        if self.tr.closing:
            return
        masked = self.cfg["side"] == "server"
        if m[0] == "text":
            data = frame(1, b"a" * m[1], masked)
        elif m[0] == "ping":
            data = frame(9, b"", masked)
        elif m[0] == "pong":
            data = frame(10, b"", masked)
        elif m[0] == "close":
            data = frame(8, struct.pack("!H", m[1]) if m[1] else b"", masked)
        elif m[0] == "bad":
            data = frame(1, b"zz", masked, rsv=0x40)   # RSV1 without negotiated compression: protocol error
        else:
            raise ValueError(m)
        self.proto.data_received(data)

    # ---- projection -----------------------------------------------------------------
    def task_status(self, t):
        tk = self.tasks[t]
        if tk is None:
            return "-"
        if not tk.done():
            return "p"
        if self.done_at[t] is None:
            self.done_at[t] = self.now_ms()
        if tk.cancelled():
            return "x:cancelled"
        e = tk.exception()
        if e is not None:
            return "x:" + exc_kind(e)
        r = tk.result()
        op = self.task_info[t][0][0]
        if op == "recv":
            return "r:" + msg_token(r)
        if op == "close":
            return "c:" + ("1" if r else "0")
        return "s:ok"

    def proj(self):
        ws, tr = self.ws, self.tr
        dw = self.proto._drain_waiter
        dws = "-" if dw is None else ("c" if dw.cancelled() else "d" if dw.done() else "p")
        exc = ws._exception
        cw = ws._close_wait
        cws = "-" if cw is None else ("c" if cw.cancelled() else "d" if cw.done() else "p")
        rw = self.reader._waiter
        parts = [
            f"now={self.now_ms()}",
            f"c={int(ws._closed)}", f"g={int(ws._closing)}",
            f"cc={'-' if ws._close_code is None else int(ws._close_code)}",
            f"w={int(ws._waiting)}", f"cw={cws}",
            f"ex={'-' if exc is None else exc_kind(exc)}",
            f"wc={int(self.writer._closing)}", f"tc={int(tr.closing)}", f"tl={int(tr.lost)}",
            f"pw={int(self.proto._paused)}", f"dw={dws}",
            f"fr={','.join(frame_tokens(tr.out[self.mark:])) or '-'}",
            f"os={self.writer._output_size}", f"buf={len(self.reader._buffer)}", f"eof={int(self.reader._eof)}",
            f"rw={'-' if rw is None else ('d' if rw.done() else 'p')}",
            f"hb={int(ws._heartbeat_cb is not None)}", f"pg={int(ws._pong_response_cb is not None)}",
            f"nr={int(ws._need_heartbeat_reset)}", f"pt={int(ws._ping_task is not None)}",
            f"rdy={self.n_ready()}", f"tm={self.n_timers()}",
            "t=" + "|".join(self.task_status(t) for t in range(APP_TASKS)),
        ]
        return " ".join(parts)


def exc_kind(e):
    import aiohttp
    from aiohttp.client_exceptions import ClientConnectionResetError, ServerTimeoutError
    from aiohttp.http_websocket import WebSocketError
    from aiohttp.streams import EofStream
    if isinstance(e, asyncio.CancelledError):
        return "cancelled"
    if isinstance(e, ServerTimeoutError):
        return "pongtimeout"
    if isinstance(e, asyncio.TimeoutError):
        return "timeout"
    if isinstance(e, ClientConnectionResetError):
        return "reset"
    if isinstance(e, WebSocketError):
        return "wserr"
    if isinstance(e, EofStream):
        return "eof"
    if isinstance(e, ConnectionError):
        return "conn"
    if isinstance(e, AssertionError):
        return "assert"
    if isinstance(e, RuntimeError):
        return "runtime"
    return f"E_OTHER({type(e).__name__})"


def msg_token(m):
    from aiohttp import WSMsgType
    t = m.type
    if t is WSMsgType.CLOSE:
        return f"CLOSE{int(m.data)}"
    if t in (WSMsgType.TEXT, WSMsgType.BINARY):
        return "TEXT"
    return t.name


def run_scenario(cfg, labels, *, epilogue=False, max_ticks=400):
    """Run the labels on the real objects.  With `epilogue`, the scenario is then driven to the end:
    phase A = ticks until nothing is ready and no timer is armed; then the connection is dropped
    (`drop.0`) and phase B = ticks until idle again.  The labels actually applied (including the
    epilogue's) are returned so that the model can replay exactly the same sequence.
    returns dict(labels, trace=[projection after set-up, then after each label], a_end, tie)"""
    with Sim(cfg) as sim:
        sim.setup()
        labels = [tuple(l) for l in labels]
        trace = [sim.proj()]
        for lab in labels:
            sim.apply(lab)
            trace.append(sim.proj())
        a_end = None
        complete = True
        if epilogue:
            def drain_ticks():
                n = 0
                while True:
                    sim._prune()
                    if not sim.loop._ready and not sim.loop._scheduled:
                        return True
                    if n >= max_ticks:
                        return False
                    sim.apply(("tick",)); labels.append(("tick",)); trace.append(sim.proj()); n += 1
            complete = drain_ticks()
            a_end = len(trace) - 1
            sim.apply(("drop", 0)); labels.append(("drop", 0)); trace.append(sim.proj())
            complete = drain_ticks() and complete
        return {"labels": labels, "trace": trace, "a_end": a_end, "tie": sim.tie, "complete": complete,
                "hb_fired_reset_pending": sim.hb_fired_reset_pending,
                "loop_excs": [str(c.get("message")) for c in sim.excs]}


def run_fragment_wedge(cfg, size, seg):
    """F9 at session level: one legal binary frame of `size` bytes delivered `seg` bytes per read while a
    receive() is parked; the transport honours pause_reading().  Returns facts about the final state."""
    with Sim(cfg) as sim:
        sim.setup()
        sim.apply(("call", 0, "recv"))
        sim.settle()
        data = frame(2, b"x" * size, masked=cfg["side"] == "server")
        i = 0
        reads = 0
        while i < len(data) and not sim.tr.read_paused and not sim.tr.closing:
            sim.proto.data_received(data[i:i + seg]); i += seg; reads += 1
            if sim.loop._ready:
                sim.settle()
        # let every timer fire: nothing may remain that could still wake the reader
        for _ in range(200):
            sim._prune()
            if not sim.loop._ready and not sim.loop._scheduled:
                break
            sim.tick()
        return {"status": sim.task_status(0), "read_paused": sim.tr.read_paused, "undelivered": max(0, len(data) - i),
                "reads": reads, "closed": bool(sim.ws.closed), "tr_closing": sim.tr.closing,
                "idle": not sim.loop._ready and not sim.loop._scheduled}


# ------------------------------------------------------------------------------------------------
# read-side flow control (not part of the Lean model): a transport that really honours
# pause_reading()/resume_reading() and a peer whose bytes wait in the "kernel buffer" meanwhile

class FlowTransport(MemTransport):
    """bytes fed by the peer are handed to data_received() one segment per loop callback, only while reading
    is not paused; resume_reading() restarts the delivery from the next loop callback (as a selector transport does)"""
    seg = 65536

    def __init__(self, loop):
        super().__init__(loop)
        self.inbox = bytearray()
        self.pumping = False
        self.pauses = 0
        self.resumes = 0
        self.delivered = 0

    def feed(self, data):
        self.inbox += data
        self._schedule()

    def _schedule(self):
        if not self.pumping and self.inbox and not self.read_paused and not self.closing:
            self.pumping = True
            self.loop.call_soon(self._pump)

    def _pump(self):
        self.pumping = False
        if self.read_paused or self.closing or not self.inbox:
            return
        chunk = bytes(self.inbox[:self.seg])
        del self.inbox[:self.seg]
        self.delivered += len(chunk)
        self.proto.data_received(chunk)
        self._schedule()

    def pause_reading(self):
        if not self.read_paused:
            self.pauses += 1
        self.read_paused = True

    def resume_reading(self):
        if self.read_paused:
            self.resumes += 1
        self.read_paused = False
        self._schedule()


def flow_wire(frames, masked):
    out = bytearray()
    for f in frames:
        if f[0] == "bin":
            out += frame(2, b"b" * f[1], masked)
        elif f[0] == "text":
            out += frame(1, b"t" * f[1], masked)
        elif f[0] == "ping":
            out += frame(9, b"", masked)
        elif f[0] == "close":
            out += frame(8, struct.pack("!H", f[1]), masked)
        else:
            raise ValueError(f)
    return bytes(out)


def run_flow(plan, max_ticks=60000):
    """plan: side, frames [(bin,n)|(text,n)|(ping,)|(close,code)], seg, eager (frames pipelined in the same bytes as the
    handshake), pre_delay_ms (server handler waits that long before prepare()), read_bufsize (server, optional),
    app_delay_ms (pause between two receive() calls), split_after/gap_ms (frames[split_after:] are sent gap_ms later).  An application task reads until a terminal message.
    Returns the facts the oracle needs; everything is observed on the real objects."""
    import aiohttp
    from aiohttp import web, WSMsgType
    side = plan["side"]
    cfg = {"side": side, "autoclose": True, "autoping": True, "heartbeat": None, "recv_timeout": None,
           "close_timeout": 10000, "limit": 65536 if side == "server" else 262144}
    seg = plan["seg"]
    k = plan.get("split_after")
    wire = flow_wire(plan["frames"] if k is None else plan["frames"][:k], masked=side == "server")
    wire2 = b"" if k is None else flow_wire(plan["frames"][k:], masked=side == "server")
    tcls = type("FlowT", (FlowTransport,), {"seg": seg})
    got = []
    with Sim(cfg) as sim:
        sim.transport_cls = tcls
        loop = sim.loop

        def run_until(pred):
            for _ in range(max_ticks):
                if pred():
                    return True
                sim._prune()
                if not loop._ready and not loop._scheduled:
                    return pred()
                sim.tick()
            return False

        holder = {}
        if side == "server":
            forever = loop.create_future()
            sim._keep.append(forever)

            async def handler(request):
                if plan.get("pre_delay_ms"):
                    await asyncio.sleep(plan["pre_delay_ms"] / 1000)
                ws = web.WebSocketResponse(timeout=10.0, compress=False)
                await ws.prepare(request)
                holder["ws"] = ws
                if plan.get("app") == "handler":
                    # the usual server shape: the handler itself iterates and returns the response object
                    async for m in ws:
                        got.append(("bin" if m.type is WSMsgType.BINARY else "text" if m.type is WSMsgType.TEXT else msg_token(m),
                                    len(m.data) if m.type in (WSMsgType.BINARY, WSMsgType.TEXT) else 0))
                        if plan.get("app_delay_ms"):
                            await asyncio.sleep(plan["app_delay_ms"] / 1000)
                    got.append(("ITER_END",))
                    holder["returned"] = True
                    return ws
                await forever
                return ws

            kw = {"read_bufsize": plan["read_bufsize"]} if plan.get("read_bufsize") else {}
            server = web.Server(handler, **kw)
            sim._keep.append(server)
            proto = server()
            tr = tcls(loop)
            tr.proto = proto
            proto.connection_made(tr)
            key = base64.b64encode(b"0123456789abcdef").decode()
            req = ("GET /ws HTTP/1.1\r\nHost: h\r\nUpgrade: websocket\r\nConnection: Upgrade\r\n"
                   f"Sec-WebSocket-Key: {key}\r\nSec-WebSocket-Version: 13\r\n\r\n").encode()
            tr.feed(req + (wire if plan.get("eager") else b""))
            if not run_until(lambda: "ws" in holder):
                return {"setup_failed": True}
            sim.ws, sim.tr, sim.proto = holder["ws"], tr, proto
            if not plan.get("eager"):
                tr.feed(wire)
        else:
            if plan.get("eager"):
                sim.client_tail = wire
            sim.setup()
            if not plan.get("eager"):
                sim.tr.feed(wire)
        ws, tr, proto = sim.ws, sim.tr, sim.proto

        async def app():
            if plan.get("app") == "handler":
                while "returned" not in holder:
                    await asyncio.sleep(0.125)
                return
            if plan.get("app") == "iter":
                # what most applications write: `async for msg in ws`
                async for m in ws:
                    got.append(("bin" if m.type is WSMsgType.BINARY else "text" if m.type is WSMsgType.TEXT else msg_token(m),
                                len(m.data) if m.type in (WSMsgType.BINARY, WSMsgType.TEXT) else 0))
                    if plan.get("app_delay_ms"):
                        await asyncio.sleep(plan["app_delay_ms"] / 1000)
                got.append(("ITER_END",))
                return
            while True:
                m = await ws.receive()
                if m.type in (WSMsgType.BINARY, WSMsgType.TEXT):
                    got.append(("bin" if m.type is WSMsgType.BINARY else "text", len(m.data)))
                else:
                    got.append((msg_token(m),))
                    return
                if plan.get("app_delay_ms"):
                    await asyncio.sleep(plan["app_delay_ms"] / 1000)

        if wire2:
            # the rest of the peer's frames is sent later (a separate TCP segment): it waits in the transport while reading is paused
            loop.call_later(plan.get("gap_ms", 125) / 1000, tr.feed, wire2)
        task = loop.create_task(app())
        if plan.get("app") == "handler":
            # the polling helper task must not keep the loop alive for ever when the handler never returns
            run_until(lambda: task.done() or loop.time() > 600)
        else:
            run_until(lambda: False)
        sim._prune()
        quiescent = not loop._ready and not loop._scheduled
        err = None
        if task.done() and not task.cancelled() and task.exception() is not None:
            err = exc_kind(task.exception())
        return {"got": got, "app_done": task.done(), "app_error": err, "quiescent": quiescent,
                "inbox_left": len(tr.inbox), "read_paused": tr.read_paused, "pauses": tr.pauses, "resumes": tr.resumes,
                "proto_reading_paused": bool(proto._reading_paused),
                "msg_queue_paused": bool(getattr(proto, "_msg_queue_paused", False)),
                "queue_size": ws._reader._size, "queue_len": len(ws._reader._buffer),
                "closed": bool(ws.closed), "close_code": None if ws.close_code is None else int(ws.close_code),
                "tr_closing": tr.closing, "now_ms": round(loop.time() * 1000),
                "loop_excs": [str(c.get("message")) for c in sim.excs]}
