"""C08 — back-pressure on a real server connection (two reasons to pause one transport).

`web_protocol.RequestHandler` (a `BaseProtocol`) pauses its transport for the body `StreamReader`'s
high-water mark (`BaseProtocol._reading_paused`) *and* for a full pipelined-request queue
(`_msg_queue_paused`).  Either resume path has to honour the other reason.  The scenarios here drive the
real `web.Server` protocol over an in-memory transport that honours pause_reading(): k pipelined GETs
followed by a POST whose body is delivered in segments, handlers released one by one, the POST handler
reading nothing / a part / everything.  After every step the property is evaluated on the implementation:

* transport reading  =>  every unfinished body stream holds at most its high-water mark;
* a handler blocked on an empty body buffer with bytes still to come  =>  transport not paused;
* what the handler read is a prefix of (and when complete, exactly) the body sent.
"""
import asyncio, logging

GET = b"GET /g HTTP/1.1\r\nHost: a\r\n\r\n"


class Tr(asyncio.Transport):
    def __init__(self):
        super().__init__(extra={"peername": ("127.0.0.1", 1)})
        self.paused = False; self.closing = False; self.calls = []; self.out = 0
    def pause_reading(self): self.paused = True; self.calls.append("P")
    def resume_reading(self): self.paused = False; self.calls.append("R")
    def is_reading(self): return not self.paused
    def is_closing(self): return self.closing
    def close(self): self.closing = True
    def abort(self): self.closing = True
    def write(self, d): self.out += len(d)
    def writelines(self, l):
        for d in l: self.out += len(d)
    def get_write_buffer_size(self): return 0
    def get_write_buffer_limits(self): return (0, 0)
    def set_write_buffer_limits(self, high=None, low=None): pass
    def can_write_eof(self): return False


def body_bytes(n):
    return bytes(65 + (i % 57) for i in range(n))


def wire_of(case, body):
    """(extra header lines, bytes after the head) for the POST body: content coding, then framing"""
    import zlib
    coding = case.get("coding", "")
    data = body
    hdr = b""
    if coding == "gzip":
        co = zlib.compressobj(6, zlib.DEFLATED, 31); data = co.compress(body) + co.flush()
        hdr += b"Content-Encoding: gzip\r\n"
    elif coding == "deflate":
        data = zlib.compress(body)
        hdr += b"Content-Encoding: deflate\r\n"
    if case.get("framing", "length") == "chunked":
        k = max(1, case.get("chunk", 16))
        out = bytearray()
        for i in range(0, len(data), k):
            piece = data[i:i + k]
            out += b"%x\r\n" % len(piece) + piece + b"\r\n"
        out += b"0\r\n\r\n"
        return hdr + b"Transfer-Encoding: chunked\r\n", bytes(out)
    return hdr + b"Content-Length: %d\r\n" % len(data), data


def gen_kept_back(rng, i):
    """the payload parser keeps input back while reading is paused: one read carries a body several times the
    high-water mark as many HTTP chunks and/or as a content-coded (gzip/deflate) body that expands far above
    it; the handler drains in steps below the low-water mark, so every resume re-enters the parser, which
    refills the stream and pauses again from inside resume_reading()"""
    from aiohttp.web_protocol import MAX_MSG_QUEUE_SIZE as Q
    rb = rng.choice([16, 16, 64, 256])
    high = 2 * rb
    coding = rng.choice(["", "", "gzip", "deflate"])
    framing = "chunked" if (coding == "" or rng.random() < 0.5) else "length"
    total = rng.choice([6, 12, 24, 40]) * high + rng.randint(0, 5)
    if coding:
        total *= rng.choice([1, 4])
    case = {"kind": "server", "rb": rb, "n_get": rng.choice([0, 0, 1, Q // 2, Q - 1]), "total": total,
            "framing": framing, "coding": coding, "chunk": rng.choice([1, rb // 2, rb, rb, high]),
            "reader": rng.choice(["small-n", "small-n", "all-n", "chunks", "all", "line"]),
            "split_head": False}
    _, wire = wire_of(case, body_bytes(total))
    w = len(wire)
    first = rng.choice([w, w, w - 5 if w > 5 else w, max(1, w // 2), max(1, w - 1)])
    case["first"] = first
    todo = ["rel:%d" % rng.choice([1, Q // 2, Q])] * rng.randint(0, 2) + ["post-go"]
    rest = w - first
    while rest > 0:
        k = min(rng.choice([1, 5, rb, w]), rest); todo.append("data:%d" % k); rest -= k
    case["steps"] = todo + ["rel:%d" % (case["n_get"] + 2)]
    return case


def gen_case(rng, i):
    rb = rng.choice([16, 16, 64, 256])
    from aiohttp.web_protocol import MAX_MSG_QUEUE_SIZE as Q
    n_get = rng.choice([0, 1, Q // 2 - 1, Q // 2, Q - 2, Q - 1, Q - 1, Q - 1, Q, Q + 3])
    high = 2 * rb
    total = rng.choice([high + 1, 3 * high, 5 * high + 7, rb, 1])
    first = rng.choice([0, 1, rb, high, high + 1, 2 * high + 3, total])
    if rng.random() < 0.35:
        # both reasons to pause at once: queue (nearly) full and the last request's body above high water
        n_get = rng.choice([Q - 1, Q - 1, Q, Q + 2])
        total = rng.choice([3 * high, 5 * high + 7])
        first = rng.choice([high + 1, 2 * high + 3, total])
    first = min(first, total)
    seg = rng.choice([1, rb // 2, rb, high + 1, total])
    reader = rng.choice(["none", "none", "part", "all", "all-n", "chunks"])
    steps = []
    # after the first delivery: release handlers in batches, deliver more body, interleaved
    rest = total - first
    todo = ["rel:%d" % rng.choice([1, 2, Q // 2 - 1, Q // 2, Q // 2 + 1, Q])] * rng.randint(1, 4)
    while rest > 0:
        k = min(seg, rest); todo.append("data:%d" % k); rest -= k
    rng.shuffle(todo)
    steps = todo + ["rel:%d" % (n_get + 2), "post-go"]
    if rng.random() < 0.5:
        steps.insert(rng.randrange(len(steps)), "post-go")
    return {"kind": "server", "rb": rb, "n_get": n_get, "total": total, "first": first, "reader": reader,
            "steps": steps, "split_head": rng.random() < 0.3}


DIRECTED = [
    # queue full (31 GET + POST) and the POST body above high water, nobody reads it; the queue drains
    {"kind": "server", "rb": 16, "n_get": 31, "total": 400, "first": 100, "reader": "none", "split_head": False,
     "steps": ["rel:16", "rel:16", "post-go"]},
    {"kind": "server", "rb": 64, "n_get": 31, "total": 1000, "first": 129, "reader": "all", "split_head": False,
     "steps": ["rel:40", "data:500", "post-go", "data:371"]},
    # parser keeps input back: 24 chunks of 16 bytes in one read, limit 16, handler reads 8 at a time
    {"kind": "server", "rb": 16, "n_get": 0, "total": 384, "first": 10 ** 6, "reader": "small-n", "split_head": False,
     "framing": "chunked", "coding": "", "chunk": 16, "steps": ["post-go"]},
    # gzip body expanding far above high water, Content-Length framing
    {"kind": "server", "rb": 16, "n_get": 0, "total": 2000, "first": 10 ** 6, "reader": "small-n", "split_head": False,
     "framing": "length", "coding": "gzip", "steps": ["post-go"]},
    # body only: plain StreamReader back-pressure through the real parser
    {"kind": "server", "rb": 16, "n_get": 0, "total": 200, "first": 33, "reader": "all-n", "split_head": False,
     "steps": ["post-go", "data:100", "data:67"]},
]


def run(case):
    """returns (violations [(signature, detail)], summary dict)"""
    from aiohttp import web
    from aiohttp.streams import StreamReader
    viol, info = [], {"steps": 0, "paused_both": 0, "max_buffered_over_high": 0}

    def v(sig, detail):
        if not any(s == sig for s, _ in viol):
            viol.append((sig, detail))

    async def main():
        loop = asyncio.get_running_loop()
        gate = asyncio.Semaphore(0)          # one permit = one GET handler may finish
        post_go = asyncio.Event()
        st = {"done": 0, "post": None, "read": bytearray(), "post_done": False, "post_err": None, "blocked": False}
        body = body_bytes(case["total"])

        hook = [lambda where: None]

        async def handler(request):
            if request.method == "POST":
                st["post"] = request
                await post_go.wait()
                c = request.content
                try:
                    how = case["reader"]
                    if how == "part":
                        st["read"] += await c.read(max(1, case["rb"] // 2))
                    elif how == "all":
                        st["read"] += await request.read()
                    elif how == "all-n":
                        while True:
                            d = await c.read(case["rb"])
                            if not d: break
                            st["read"] += d
                            hook[0]("in-handler-read")
                    elif how == "small-n":
                        # below the low-water mark: the limits are not raised by the read size
                        while True:
                            d = await c.read(max(1, case["rb"] // 2))
                            if not d: break
                            st["read"] += d
                            hook[0]("in-handler-read")
                    elif how == "line":
                        while True:
                            d = await c.readuntil(b"A", max_size=10 ** 9)
                            if not d: break
                            st["read"] += d
                            hook[0]("in-handler-read")
                    elif how == "chunks":
                        async for d in c.iter_any():
                            st["read"] += d
                            hook[0]("in-handler-read")
                except Exception as e:  # noqa
                    st["post_err"] = type(e).__name__
                st["post_done"] = True
            else:
                await gate.acquire()
            st["done"] += 1
            return web.Response(text="ok")

        server = web.Server(handler, read_bufsize=case["rb"])
        proto = server()
        tr = Tr()
        proto.connection_made(tr)
        hdr, wire = wire_of(case, body)
        head = b"POST /p HTTP/1.1\r\nHost: a\r\n" + hdr + b"\r\n"
        wtotal = len(wire)
        sent = 0                       # wire bytes of the body handed to data_received

        async def settle():
            last = None
            same = 0
            for _ in range(4000):
                await asyncio.sleep(0)
                cur = (st["done"], tr.out, len(st["read"]), len(tr.calls), st["post"] is not None)
                same = same + 1 if cur == last else 0
                last = cur
                if same >= 6:
                    break

        def readers():
            out = []
            for _, payload in list(proto._messages):
                if isinstance(payload, StreamReader) and type(payload) is StreamReader:
                    out.append(payload)
            if st["post"] is not None and not st["post_done"]:
                c = st["post"].content
                if type(c) is StreamReader and c not in out:
                    out.append(c)
            return out

        def check(where):
            info["steps"] += 1
            if proto.transport is None:
                return
            if proto._msg_queue_paused and proto._reading_paused:
                info["paused_both"] += 1
            for r in readers():
                if r.is_eof():
                    continue
                low, high = r.get_read_buffer_limits()
                # bytes in the stream's buffer (a parked readuntil() holds its partial line outside of it)
                buffered = r._size
                if buffered > high:
                    info["max_buffered_over_high"] = max(info["max_buffered_over_high"], buffered - high)
                    if not tr.paused:
                        v("C08/backpressure/not-paused-above-high-water/server-connection/"
                          + ("stream-flag-still-set" if proto._reading_paused else "stream-flag-cleared"),
                          f"{where}: body stream holds {buffered} unread bytes > high water {high}, "
                          f"_reading_paused={proto._reading_paused} _msg_queue_paused={proto._msg_queue_paused}, "
                          f"but the transport is reading (calls {''.join(tr.calls)})")
            # a handler blocked on an empty buffer, bytes still to come, transport paused
            if st["post"] is not None and not st["post_done"] and post_go.is_set():
                c = st["post"].content
                w = getattr(c, "_waiter", None)
                if w is not None and not w.done() and sent < wtotal and tr.paused:
                    v("C08/stuck-pause/server-connection",
                      f"{where}: handler parked on the empty body buffer ({len(st['read'])} of {case['total']} read, "
                      f"{sent} delivered) with the transport paused (_reading_paused={proto._reading_paused} "
                      f"_msg_queue_paused={proto._msg_queue_paused})")

        def deliver(data, where):
            proto.data_received(data)

        hook[0] = check

        gets = GET * case["n_get"]
        first = wire[:case["first"]]
        if case.get("split_head"):
            deliver(gets, "gets"); await settle(); check("after-gets")
            if tr.paused:
                # the queue is full: the client's next bytes wait in the socket until reading resumes
                pending_head = head + first
            else:
                deliver(head + first, "post-head"); pending_head = None
        else:
            deliver(gets + head + first, "first"); pending_head = None
        sent = len(first) if pending_head is None else 0
        await settle(); check("after-first-delivery")
        queue = []                     # body segments the peer still wants to send
        for s_ in case["steps"]:
            kind, _, arg = s_.partition(":")
            if kind == "rel":
                for _ in range(int(arg)):
                    gate.release()
            elif kind == "post-go":
                post_go.set()
            elif kind == "data":
                queue.append(int(arg))
            await settle()
            # the transport delivers what is pending as long as it is reading
            progressed = True
            while progressed and not tr.paused and proto.transport is not None:
                progressed = False
                if pending_head is not None:
                    deliver(pending_head, "post-head"); sent = len(first); pending_head = None; progressed = True
                elif queue and sent < wtotal:
                    k = queue.pop(0)
                    deliver(wire[sent:sent + k], "body"); sent += k; progressed = True
                if progressed:
                    await settle()
                    check("after-delivery")
            check("after-" + s_)
        # end: everything released; whatever is still pending is delivered while the transport reads
        post_go.set()
        for _ in range(case["n_get"] + 2):
            gate.release()
        for _ in range(200):
            await settle()
            if tr.paused or proto.transport is None:
                break
            if pending_head is not None:
                deliver(pending_head, "post-head"); sent = len(first); pending_head = None
            elif sent < wtotal:
                k = queue.pop(0) if queue else wtotal - sent
                deliver(wire[sent:sent + k], "body"); sent += k
            else:
                break
            check("drain")
        await settle(); check("end")
        got = bytes(st["read"])
        if got != body[:len(got)]:
            v("C08/delivery/reordered-or-corrupt/server-connection", f"handler read {got[:24]!r}…, sent {body[:24]!r}…")
        if case["reader"] in ("all", "all-n", "small-n", "line", "chunks") and st["post_err"] is None and proto.transport is not None:
            if st["post_done"] and got != body:
                v("C08/eof/reported-before-all-data/server-connection",
                  f"handler finished reading with {len(got)} of {case['total']} body bytes")
            elif not st["post_done"] and st["post"] is not None and (sent < wtotal or pending_head is not None) and tr.paused:
                v("C08/stuck-pause/server-connection/final",
                  f"quiescent: handler has {len(got)} of {case['total']} bytes, {sent} delivered, transport paused "
                  f"(_reading_paused={proto._reading_paused} _msg_queue_paused={proto._msg_queue_paused})")
        info["read"] = len(got); info["sent"] = sent; info["post_done"] = st["post_done"]
        info["post_err"] = st["post_err"]
        info["pauses"] = tr.calls.count("P")
        info["handlers_done"] = st["done"]
        proto.connection_lost(None)
        await asyncio.sleep(0)
        await server.shutdown(0.01)

    lg = logging.getLogger("aiohttp.server")
    old = lg.level
    lg.setLevel(logging.CRITICAL + 1)
    loop = asyncio.new_event_loop()
    try:
        asyncio.set_event_loop(loop)
        loop.run_until_complete(asyncio.wait_for(main(), 30))
    except asyncio.TimeoutError:
        v("C08/server-connection/scenario-timeout", "scenario did not finish in 30 s")
    finally:
        lg.setLevel(old)
        try:
            pend = [t for t in asyncio.all_tasks(loop) if not t.done()]
            for t in pend:
                t.cancel()
            if pend:
                loop.run_until_complete(asyncio.gather(*pend, return_exceptions=True))
        except BaseException:  # noqa
            pass
        asyncio.set_event_loop(None)
        loop.close()
    return viol, info


# ------------------------------------------------------------------ client connection
def gen_client(rng, i):
    """the client side of the same question: real client_proto.ResponseHandler (it overrides pause_reading /
    resume_reading) + real HttpResponseParser; a response body several times the high-water mark as HTTP chunks,
    gzip/deflate-coded, Content-Length or close-delimited, delivered only while the transport reads"""
    rb = rng.choice([16, 16, 64, 256])
    high = 2 * rb
    coding = rng.choice(["", "", "gzip", "deflate"])
    framing = rng.choice(["chunked", "chunked", "length", "eof"])
    total = rng.choice([1, rb, high + 1, 6 * high, 24 * high + 3]) * (rng.choice([1, 4]) if coding else 1)
    case = {"kind": "client", "rb": rb, "total": total, "framing": framing, "coding": coding,
            "chunk": rng.choice([1, rb // 2, rb, high]),
            "reader": rng.choice(["small-n", "small-n", "all-n", "chunks", "all", "line", "iter-chunks"])}
    _, wire = wire_of(dict(case, framing="length" if framing == "eof" else framing), body_bytes(total))
    w = len(wire)
    case["segs"] = [rng.choice([w, w, max(1, w // 2), 1, 7, rb, high + 1]) for _ in range(6)]
    case["read_first"] = rng.random() < 0.5          # the application starts reading before / after the first delivery
    return case


CLIENT_DIRECTED = [
    {"kind": "client", "rb": 16, "total": 384, "framing": "chunked", "coding": "", "chunk": 16, "reader": "small-n",
     "segs": [10 ** 6], "read_first": False},
    {"kind": "client", "rb": 16, "total": 3000, "framing": "length", "coding": "gzip", "chunk": 16, "reader": "small-n",
     "segs": [10 ** 6], "read_first": False},
    {"kind": "client", "rb": 16, "total": 200, "framing": "eof", "coding": "", "chunk": 16, "reader": "all-n",
     "segs": [33, 33, 200], "read_first": True},
]


def run_client(case):
    from aiohttp.client_proto import ResponseHandler
    viol, info = [], {"steps": 0, "max_buffered_over_high": 0, "pauses": 0}

    def v(sig, detail):
        if not any(s == sig for s, _ in viol):
            viol.append((sig, detail))

    async def main():
        loop = asyncio.get_running_loop()
        body = body_bytes(case["total"])
        eof_framed = case["framing"] == "eof"
        hdr, wire = wire_of(dict(case, framing="length" if eof_framed else case["framing"]), body)
        if eof_framed:
            hdr = b"".join(l + b"\r\n" for l in hdr.split(b"\r\n") if l and not l.startswith(b"Content-Length"))
        head = b"HTTP/1.1 200 OK\r\n" + hdr + b"\r\n"
        proto = ResponseHandler(loop)
        tr = Tr()
        proto.connection_made(tr)
        proto.set_response_params(read_bufsize=case["rb"], read_until_eof=eof_framed)
        st = {"read": bytearray(), "done": False, "err": None, "payload": None}
        sent = [0]
        wtotal = len(wire)
        closed = [False]

        def check(where):
            info["steps"] += 1
            p = st["payload"]
            if p is None or proto.transport is None or closed[0]:
                return
            if not p.is_eof():
                low, high = p.get_read_buffer_limits()
                buffered = p._size
                if buffered > high:
                    info["max_buffered_over_high"] = max(info["max_buffered_over_high"], buffered - high)
                    if not tr.paused:
                        v("C08/backpressure/not-paused-above-high-water/client-connection/"
                          + ("stream-flag-still-set" if proto._reading_paused else "stream-flag-cleared"),
                          f"{where}: response body stream holds {buffered} bytes > high water {high}, "
                          f"_reading_paused={proto._reading_paused}, but the transport is reading (calls {''.join(tr.calls)})")
            w = getattr(p, "_waiter", None)
            if w is not None and not w.done() and not st["done"] and tr.paused:
                v("C08/stuck-pause/client-connection",
                  f"{where}: reader parked on the empty response body buffer ({len(st['read'])} of {case['total']} read, "
                  f"{sent[0]} of {wtotal} wire bytes delivered) with the transport paused (_reading_paused={proto._reading_paused})")

        async def reader():
            try:
                msg, p = await proto.read()
                st["payload"] = p
                how = case["reader"]
                k = {"small-n": max(1, case["rb"] // 2), "all-n": case["rb"]}.get(how)
                if k:
                    while True:
                        d = await p.read(k)
                        if not d: break
                        st["read"] += d; check("in-read")
                elif how == "all":
                    st["read"] += await p.read()
                elif how == "line":
                    while True:
                        d = await p.readuntil(b"A", max_size=10 ** 9)
                        if not d: break
                        st["read"] += d; check("in-read")
                elif how == "iter-chunks":
                    async for d, _ in p.iter_chunks():
                        st["read"] += d; check("in-read")
                else:
                    async for d in p.iter_any():
                        st["read"] += d; check("in-read")
            except Exception as e:  # noqa
                st["err"] = type(e).__name__
            st["done"] = True

        async def settle():
            last, same = None, 0
            for _ in range(2000):
                await asyncio.sleep(0)
                cur = (len(st["read"]), len(tr.calls), st["done"], st["payload"] is not None)
                same = same + 1 if cur == last else 0
                last = cur
                if same >= 5:
                    break

        task = None
        if case.get("read_first"):
            task = asyncio.ensure_future(reader()); await settle()
        proto.data_received(head)
        segs = list(case["segs"])
        for rounds in range(4000):
            await settle(); check("after-delivery")
            if task is None:
                task = asyncio.ensure_future(reader()); await settle(); check("after-reader-start")
            if st["done"] or proto.transport is None:
                break
            if tr.paused:
                # nothing arrives while paused; if the reader cannot move either, the stuck clause has fired
                if getattr(st["payload"], "_waiter", None) is not None:
                    break
                continue
            if sent[0] < wtotal:
                k = segs.pop(0) if segs else wtotal - sent[0]
                proto.data_received(wire[sent[0]:sent[0] + k]); sent[0] += k
            elif eof_framed and not closed[0]:
                closed[0] = True
                proto.connection_lost(None)
            else:
                break
        await settle(); check("end")
        got = bytes(st["read"])
        info["pauses"] = tr.calls.count("P"); info["read"] = len(got); info["done"] = st["done"]; info["err"] = st["err"]
        if got != body[:len(got)]:
            v("C08/delivery/reordered-or-corrupt/client-connection", f"read {got[:24]!r}…, sent {body[:24]!r}…")
        if st["err"] is None:
            if st["done"] and got != body:
                v("C08/eof/reported-before-all-data/client-connection", f"reader finished with {len(got)} of {case['total']} bytes")
            elif not st["done"] and sent[0] >= wtotal and (not eof_framed or closed[0]):
                v("C08/eof/never-reported/client-connection", f"all {wtotal} wire bytes delivered, reader has {len(got)} of {case['total']} and is still waiting")
        if task is not None and not task.done():
            task.cancel()
        if not closed[0]:
            proto.connection_lost(None)
        await asyncio.sleep(0)

    loop = asyncio.new_event_loop()
    try:
        asyncio.set_event_loop(loop)
        loop.run_until_complete(asyncio.wait_for(main(), 30))
    except asyncio.TimeoutError:
        v("C08/client-connection/scenario-timeout", "scenario did not finish in 30 s")
    finally:
        try:
            pend = [t for t in asyncio.all_tasks(loop) if not t.done()]
            for t in pend:
                t.cancel()
            if pend:
                loop.run_until_complete(asyncio.gather(*pend, return_exceptions=True))
        except BaseException:  # noqa
            pass
        asyncio.set_event_loop(None)
        loop.close()
    return viol, info
