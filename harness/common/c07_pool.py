"""C07 — label-driven execution of the real `aiohttp.connector.BaseConnector`.

The real connector runs on a `VLoop` that is *stepped by hand* (one ready callback per
`tick`), so that external events can be injected between any two callbacks: that is the
"all interleavings at await granularity" quantifier of the property.  Only three things are
replaced: sockets (`MemTransport`), `_create_connection` (an attempt that is resolved by a
label) and `random.shuffle` inside `_release_waiter` (the order comes from a label).

Labels (also the wire format of the Lean driver, see lean/Driver/C07.lean):
  s<t>      spawn: loop.create_task(connector.connect(req_t, [], timeout))
  k         tick: run the head of the loop's ready queue (one task step)
  o<t>/f<t> the connection attempt of task t succeeds / fails with OSError
  c<t>      task t is cancelled (Task.cancel())
  m<t>      the connect-timeout timer of task t fires (asyncio.timeout._on_timeout)
  r<t>/x<t> the connection handed to task t is released to the pool / closed
  l<c>      connection number c is lost (the peer closed it) while pooled or while in use
  C         connector._close_immediately()
  p<k0>.<k1>...  the order `random.shuffle` will give to the waiter queues from now on
  t<t>      the trace callback task t is suspended in returns
  a<d>      d seconds pass on the connector's clock (`monotonic`, virtual)
  S         the keep-alive timer fires: connector._cleanup() (only if it is armed)

Trace hooks: with `mask != 0` every connect() gets a real `aiohttp.tracing.Trace` whose TraceConfig has, for
each selected hook (bit 0 on_connection_reuseconn, 1 queued_start, 2 queued_end, 3 create_start,
4 create_end), a callback that suspends on a future resolved by the `t` label — so every await the
connector performs between a capacity check and the matching reservation/release is an interleaving point.
"""
import asyncio
import inspect
from collections import deque

from .vloop import VLoop


class MemTransport(asyncio.Transport):
    def __init__(self, proto, cid):
        super().__init__()
        self.proto, self.cid = proto, cid
        self.closing = False
        self.lost = False

    def write(self, data):
        pass

    def is_closing(self):
        return self.closing

    def close(self):
        self.closing = True

    abort = close

    def get_extra_info(self, name, default=None):
        return default

    def pause_reading(self):
        pass

    def resume_reading(self):
        pass

    def get_write_buffer_size(self):
        return 0

    def set_write_buffer_limits(self, high=None, low=None):
        pass


class _Shuffle:
    """stands in for the `random` module inside aiohttp.connector: `shuffle` orders the
    waiter queues by the host index order given by the last `p` label (keys not named keep
    their relative order, after the named ones)."""

    def __init__(self, real):
        self._real = real
        self.perm = []
        self.calls = 0

    def __getattr__(self, name):
        return getattr(self._real, name)

    def shuffle(self, lst):
        self.calls += 1
        rank = {}
        for i, k in enumerate(self.perm):
            rank.setdefault(k, i)
        big = len(self.perm)
        lst.sort(key=lambda key: rank.get(_host_index(key), big))


def _host_index(key):
    return int(key.host[1:])


class Pool:
    """one scenario: N tasks with fixed keys on a real BaseConnector(limit, limit_per_host)"""

    def __init__(self, limit, lph, keys, mask=0, ka=15):
        import aiohttp.connector as connector_mod
        from aiohttp import ClientTimeout
        from aiohttp.client_reqrep import ClientRequestBase
        from multidict import CIMultiDict
        from yarl import URL

        self.mod = connector_mod
        self.loop = VLoop()
        self.loop.set_task_factory(lambda loop, coro, **kw: asyncio.tasks._PyTask(coro, loop=loop, **kw))
        self.excs = []
        self.loop.set_exception_handler(lambda l, c: self.excs.append(c))
        asyncio.set_event_loop(self.loop)
        asyncio.events._set_running_loop(self.loop)
        self._real_monotonic = connector_mod.monotonic
        connector_mod.monotonic = lambda: self.clock
        self._real_random = connector_mod.random
        self.shuf = _Shuffle(self._real_random)
        connector_mod.random = self.shuf
        self.keys = list(keys)
        self.nkeys = max(self.keys) + 1 if self.keys else 1
        self.mask = mask
        self.clock = 0.0           # what `monotonic()` returns inside aiohttp.connector
        self.trace_wait = {}       # tid -> (hook letter, future) while suspended in a trace callback
        self.created_by = {}       # tid -> cid of the connection its attempt produced
        self.attempt = {}          # tid -> future of the running connection attempt
        self.transports = []       # every transport created, index = connection id
        self.handed = {}           # tid -> Connection
        self.handed_cid = {}
        self.tasks = [None] * len(keys)
        pool = self

        class Connector(connector_mod.BaseConnector):
            async def _create_connection(self, req, traces, timeout):
                tid = req._verif_tid
                fut = self._loop.create_future()
                pool.attempt[tid] = fut
                try:
                    await fut
                finally:
                    pool.attempt.pop(tid, None)
                # the attempt succeeded: only now does a transport exist
                proto = self._factory()
                tr = MemTransport(proto, len(pool.transports))
                pool.created_by[tid] = tr.cid
                pool.transports.append(tr)
                proto.connection_made(tr)
                return proto

        # bit 5 of `mask`: force_close=True (then keepalive_timeout must not be given)
        self.conn = (Connector(limit=limit, limit_per_host=lph, force_close=True) if mask >> 5 & 1
                     else Connector(limit=limit, limit_per_host=lph, keepalive_timeout=ka))
        self.reqs = []
        for t, k in enumerate(self.keys):
            r = ClientRequestBase("GET", URL(f"http://h{k}/"), headers=CIMultiDict(), loop=self.loop, ssl=True)
            r._verif_tid = t
            if not hasattr(r, "proxy"):
                r.proxy = None
            self.reqs.append(r)
        self.timeout = ClientTimeout(total=None, connect=1000.0)
        self.traces = [[] for _ in self.keys]
        if mask & 31:
            from types import SimpleNamespace
            from aiohttp import TraceConfig
            from aiohttp.tracing import Trace

            def hook(letter):
                async def cb(session, ctx, params):
                    fut = pool.loop.create_future()
                    pool.trace_wait[ctx.tid] = (letter, fut)
                    try:
                        await fut
                    finally:
                        pool.trace_wait.pop(ctx.tid, None)
                return cb
            tc = TraceConfig()
            for bit, (letter, sig) in enumerate([("r", tc.on_connection_reuseconn), ("q", tc.on_connection_queued_start),
                                                 ("Q", tc.on_connection_queued_end), ("s", tc.on_connection_create_start),
                                                 ("e", tc.on_connection_create_end)]):
                if mask >> bit & 1:
                    sig.append(hook(letter))
            tc.freeze()
            self.traces = [[Trace(SimpleNamespace(), tc, SimpleNamespace(tid=t))] for t in range(len(self.keys))]
        self.hostkey = [r.connection_key for r in self.reqs]
        self.key_of_host = {}
        for t, k in enumerate(self.keys):
            self.key_of_host[k] = self.hostkey[t]
        self._drain()

    # ------------------------------------------------------------------ loop stepping
    def _task_of(self, handle):
        cb = handle._callback
        owner = getattr(cb, "__self__", None)
        if isinstance(owner, asyncio.tasks._PyTask):
            for i, t in enumerate(self.tasks):
                if t is owner:
                    return i
        return None

    def _drain(self):
        """run (in order) every ready callback that is not a step of one of the scenario's
        tasks; task steps stay queued in their order"""
        while True:
            rest, other = deque(), None
            for h in self.loop._ready:
                if other is None and not h._cancelled and self._task_of(h) is None:
                    other = h
                elif not h._cancelled:
                    rest.append(h)
            self.loop._ready.clear()
            self.loop._ready.extend(rest)
            if other is None:
                return
            other._run()

    def ready(self):
        return [self._task_of(h) for h in self.loop._ready if not h._cancelled]

    # ------------------------------------------------------------------ labels
    def do(self, lab):
        op, arg = lab[0], lab[1:]
        if op == "s":
            t = int(arg)
            if self.tasks[t] is None:
                self.tasks[t] = self.loop.create_task(self.conn.connect(self.reqs[t], self.traces[t], self.timeout))
        elif op == "k":
            if self.loop._ready:
                h = self.loop._ready.popleft()
                h._run()
        elif op in "of":
            t = int(arg)
            fut = self.attempt.get(t)
            if fut is not None and not fut.done():
                if op == "o":
                    fut.set_result(None)
                else:
                    fut.set_exception(OSError("connect failed"))
        elif op == "c":
            t = int(arg)
            if self.tasks[t] is not None:
                self.tasks[t].cancel()
        elif op == "m":
            t = int(arg)
            task = self.tasks[t]
            if task is not None and not task.done():
                for h in list(self.loop._scheduled):
                    owner = getattr(h._callback, "__self__", None)
                    if isinstance(owner, asyncio.Timeout) and getattr(owner, "_task", None) is task and not h._cancelled:
                        h._run()
                        h.cancel()
                        break
        elif op in "rx":
            t = int(arg)
            c = self.conn_of(t)
            if c is not None and c._protocol is not None:
                if op == "r":
                    c.release()
                else:
                    c.close()
        elif op == "l":
            cid = int(arg)
            if cid < len(self.transports):
                tr = self.transports[cid]
                idle = any(p is tr.proto for q in self.conn._conns.values() for p, _ in q)
                if (idle or tr.proto in self.conn._acquired) and not tr.closing:
                    tr.closing = True
                    tr.lost = True
                    tr.proto.connection_lost(None)
        elif op == "C":
            self.conn._close_immediately()
        elif op == "t":
            t = int(arg)
            w = self.trace_wait.get(t)
            if w is not None and not w[1].done():
                w[1].set_result(None)
        elif op == "a":
            self.clock += int(arg)
        elif op == "S":
            if self.conn._cleanup_handle is not None:
                self.conn._cleanup()
        elif op == "p":
            self.shuf.perm = [int(x) for x in arg.split(".")] if arg else []
        else:
            raise ValueError(lab)
        self._drain()

    # ------------------------------------------------------------------ observation
    def _cid(self, proto):
        for tr in self.transports:
            if tr.proto is proto:
                return tr.cid
        return None

    def conn_of(self, t):
        """the Connection handed to task t (None if connect() has not returned one)"""
        c = self.handed.get(t)
        if c is None:
            task = self.tasks[t]
            if task is not None and task.done() and not task.cancelled() and task.exception() is None:
                c = self.handed[t] = task.result()
                self.handed_cid[t] = self._cid(c._protocol)
        return c

    def task_state(self, t):
        """i not spawned; s spawned (first step queued); w/W/V parked on a pending/woken/cancelled
        waiter future; c/c+/c- connection attempt pending/succeeded/failed (task not resumed yet);
        h<cid> holds connection cid; d released it; X cancelled, T timeout, E OSError,
        Q 'Connector is closed', ?(..) anything else.  '!' = a cancellation request is pending."""
        from aiohttp.client_exceptions import ClientConnectionError
        task = self.tasks[t]
        if task is None:
            return "i"
        if task.done():
            if task.cancelled():
                return "X"
            e = task.exception()
            if e is None:
                c = self.conn_of(t)
                return f"h{self.handed_cid[t]}" if c._protocol is not None else "d"
            if isinstance(e, TimeoutError):
                return "T"
            if isinstance(e, ClientConnectionError):
                return "Q"
            if isinstance(e, OSError):
                return "E"
            return "?(" + type(e).__name__ + ")"
        bang = "!" if task.cancelling() > 0 else ""
        if inspect.getcoroutinestate(task.get_coro()) == inspect.CORO_CREATED:
            return "s" + bang
        if t in self.trace_wait:
            letter, tf = self.trace_wait[t]
            plus = "+" if tf.done() and not tf.cancelled() else ""
            if letter == "r":
                base = f"u{self._cid(self._frame_local(task, '_get', 'proto'))}"
            elif letter in "qQ":
                f = self._frame_local(task, "_wait_for_available_connection", "fut")
                # f is None: the task is suspended in the hook *before* it has created / registered its waiter future
                base = "w0" if f is None else "w" if not f.done() else "V" if f.cancelled() else "W"
            elif letter == "s":
                base = "c"
            else:
                base = "c+"
                letter = f"e{self.created_by[t]}"
            return base + "~" + letter + plus + bang
        if t in self.attempt:
            f = self.attempt[t]
            if not f.done() or f.cancelled():
                return "c" + bang
            return ("c-" if f.exception() is not None else "c+") + bang
        f = task._fut_waiter
        if f is None:
            return "?(running)"
        return ("w" if not f.done() else "V" if f.cancelled() else "W") + bang

    @staticmethod
    def _frame_local(task, func, name):
        """local variable `name` of the (suspended) coroutine `func` in the await chain of `task`"""
        co = task.get_coro()
        while co is not None:
            fr = getattr(co, "cr_frame", None)
            if fr is not None and fr.f_code.co_name == func:
                return fr.f_locals.get(name)
            co = getattr(co, "cr_await", None)
        return None

    def project(self):
        """what the Lean model prints too (lean/Driver/C07.lean `showSt`)"""
        c = self.conn
        H = range(self.nkeys)

        def per(d):
            return ".".join(str(len(d[self.key_of_host[k]]) if self.key_of_host.get(k) in d else 0) for k in H)
        ph = sum(1 for p in c._acquired if isinstance(p, self.mod._TransportPlaceholder))
        open_tr = "".join("1" if not tr.closing else "0" for tr in self.transports) or "-"
        fut_owner = {}
        for t, task in enumerate(self.tasks):
            if task is not None and not task.done() and task._fut_waiter is not None:
                fut_owner[id(task._fut_waiter)] = t
                if t in self.trace_wait and self.trace_wait[t][0] in "qQ":
                    fut_owner[id(self._frame_local(task, "_wait_for_available_connection", "fut"))] = t
        wq = ";".join(f"{_host_index(key)}:" + (".".join(str(fut_owner.get(id(f), "?")) for f in q) or "-")
                      for key, q in c._waiters.items()) or "-"
        idle = "/".join((".".join(str(self._cid(p)) for p, _ in c._conns[self.key_of_host[k]])
                         if self.key_of_host.get(k) in c._conns else "") or "-" for k in H)
        return (f"acq={len(c._acquired)} ph={ph} host={per(c._acquired_per_host)} wq={wq} "
                f"idle={idle} ready={'.'.join(map(str, self.ready())) or '-'} "
                f"tasks={','.join(self.task_state(t) for t in range(len(self.tasks)))} open={open_tr} "
                f"closed={'1' if c._closed else '0'} timer={'1' if c._cleanup_handle is not None else '0'}")

    def enabled(self):
        """labels that can change the state now (used by the generators)"""
        out = []
        for t in range(len(self.tasks)):
            st = self.task_state(t)
            if "~" in st:
                out += [f"c{t}", f"m{t}"]
                if "+" not in st.split("~")[1] and not st.endswith("!"):
                    out.append(f"t{t}")
                continue
            if st == "i":
                out.append(f"s{t}")
            elif st[0] == "s":
                out.append(f"c{t}")
            elif st[0] in "wWV":
                out += [f"c{t}", f"m{t}"]
            elif st[0] == "c":
                out += [f"c{t}", f"m{t}"]
                if st in ("c",):
                    out += [f"o{t}", f"f{t}"]
            elif st[0] == "h":
                out += [f"r{t}", f"x{t}"]
        if self.loop._ready:
            out.append("k")
        for q in self.conn._conns.values():
            for p, _ in q:
                if p.is_connected():
                    out.append(f"l{self._cid(p)}")
        for p in self.conn._acquired:
            if not isinstance(p, self.mod._TransportPlaceholder) and p.is_connected():
                out.append(f"l{self._cid(p)}")
        if not self.conn._closed:
            out.append("C")
        if self.conn._cleanup_handle is not None:
            out.append("S")
        return out

    # ------------------------------------------------------------------ oracle side facts
    def in_use(self):
        """harness-side count, independent of the connector's own bookkeeping: connection attempts in
        progress plus connections handed out, still open and not yet released -> (total, per host list)"""
        per = [0] * self.nkeys
        for t in self.attempt:
            per[self.keys[t]] += 1
        for t, (letter, _) in self.trace_wait.items():
            if letter in "rse":      # holds a pooled connection / a reservation / a freshly created connection
                per[self.keys[t]] += 1
        for t in range(len(self.tasks)):
            c = self.conn_of(t)
            # handed out and not yet given back (even if the peer has closed it meanwhile: the slot is the holder's)
            if c is not None and c._protocol is not None and (c._protocol.is_connected() or not self.conn._closed):
                per[self.keys[t]] += 1
        return sum(per), per

    def dispose(self):
        try:
            for t in self.tasks:
                if t is not None and not t.done():
                    t.cancel()
            for _ in range(10000):
                if not self.loop._ready:
                    break
                self.loop._ready.popleft()._run()
            for t in self.tasks:
                if t is not None and t.done() and not t.cancelled():
                    t.exception()
            for c in self.handed.values():
                c._protocol = None       # silence Connection.__del__
            for t in self.tasks:
                if t is not None and t.done() and not t.cancelled() and t.exception() is None:
                    t.result()._protocol = None
            self.conn._close_immediately()
        finally:
            self.mod.random = self._real_random
            self.mod.monotonic = self._real_monotonic
            asyncio.events._set_running_loop(None)
            asyncio.set_event_loop(None)
            for h in self.loop._scheduled:
                h.cancel()
            self.loop._scheduled.clear()
            self.loop.close()


def run_labels(limit, lph, keys, labels, observe=None, mask=0, ka=15):
    """perform the labels; returns the list of projections (one per label)"""
    p = Pool(limit, lph, keys, mask, ka)
    out = []
    try:
        for lab in labels:
            p.do(lab)
            out.append(p.project())
            if observe is not None:
                observe(p, lab)
        return out
    finally:
        p.dispose()
