"""C07 — session-level scenarios: a real ClientSession on an in-memory connector with a scripted peer.

The clause judged here is "after all requests finish or are cancelled nothing remains counted as in
use" at the level where applications see it (client.py / client_reqrep.py are anchors of C07):
the Connection handed to a ClientResponse must find its way back to the connector whatever the
state of the request-body writer (parked waiting for `100 Continue`, parked in a slow body
producer, already finished, cancelled), for every way the caller ends the exchange.

A scenario = (limit kind, body kind, expect100, peer behaviour, how the caller finishes).  After the
caller is done and the loop has settled (virtual time), the direct oracle requires
  * connector._acquired and every _acquired_per_host set to be empty,
  * a follow-up GET on the same host (limit 1) to obtain a connection and complete.
Nothing here is modelled in Lean: it is direct-oracle evidence only.
"""
import asyncio

from .vloop import run as vrun

BODIES = ["none", "bytes", "big", "gen-parked", "gen-finite"]
PEERS = ["final-at-headers", "final-417-at-headers", "100-then-final", "final-after-body", "final-with-body-at-headers",
         "close-delimited-at-headers", "final-then-close-at-headers"]
ENDINGS = ["release", "read", "close", "ctx", "cancel-request", "drop-peer"]


class PeerTransport(asyncio.Transport):
    """client-side transport whose peer is a little script reacting to the request bytes"""

    def __init__(self, loop, proto, peer, log):
        super().__init__()
        self.loop, self.proto, self.peer, self.log = loop, proto, peer, log
        self.buf = bytearray()
        self.closing = False
        self.headers_done = False
        self.answered = False
        self.is_get = False

    # -- what the client does
    def write(self, data):
        if self.closing:
            return
        self.buf += bytes(data)
        self.loop.call_soon(self._react)

    def writelines(self, ds):
        for d in ds:
            self.write(d)

    def is_closing(self):
        return self.closing

    def close(self):
        if not self.closing:
            self.closing = True
            self.loop.call_soon(self._lost)

    abort = close

    def _lost(self):
        try:
            self.proto.connection_lost(None)
        except Exception:  # noqa
            pass

    def get_extra_info(self, name, default=None):
        return default

    def pause_reading(self):
        pass

    def resume_reading(self):
        pass

    def get_write_buffer_size(self):
        return 0

    def set_write_buffer_limits(self, high=None, low=None):
        pass

    # -- the scripted peer
    def _send(self, data):
        if not self.closing:
            self.proto.data_received(data)

    def _final(self, status, body=b""):
        self.answered = True
        reason = {200: b"OK", 417: b"Expectation Failed"}[status]
        self._send(b"HTTP/1.1 %d %s\r\nContent-Length: %d\r\n\r\n" % (status, reason, len(body)) + body)

    def _peer_close(self):
        if not self.closing:
            self.closing = True
            try:
                self.proto.eof_received()
            except Exception:  # noqa
                pass
            self._lost()

    def _react(self):
        if self.closing:
            return
        if self.answered:
            # the connection is being reused for the follow-up request (leftovers of an abandoned body are ignored)
            i = self.buf.find(b"GET ")
            if i < 0:
                self.buf.clear()
                return
            del self.buf[:i]
            self.answered = False
            self.headers_done = False
        if not self.headers_done:
            i = self.buf.find(b"\r\n\r\n")
            if i < 0:
                return
            self.headers_done = True
            head = bytes(self.buf[:i])
            self.is_get = head.startswith(b"GET")
            self.clen = 0
            self.chunked = b"chunked" in head.lower()
            for line in head.split(b"\r\n"):
                if line.lower().startswith(b"content-length:"):
                    self.clen = int(line.split(b":")[1])
            del self.buf[:i + 4]
            if self.is_get:
                self._final(200, b"ok")
                return
            p = self.peer
            if p == "final-at-headers":
                self._final(200)
            elif p == "final-417-at-headers":
                self._final(417)
            elif p == "final-with-body-at-headers":
                self._final(200, b"0123456789")
            elif p == "close-delimited-at-headers":
                # no Content-Length: the body ends when the peer closes the connection
                self.answered = True
                self._send(b"HTTP/1.1 200 OK\r\n\r\nclose-delimited body")
                self.loop.call_soon(self._peer_close)
            elif p == "final-then-close-at-headers":
                self._final(200, b"bye")
                self.loop.call_soon(self._peer_close)
            elif p == "100-then-final":
                self._send(b"HTTP/1.1 100 Continue\r\n\r\n")
        if self.answered:
            return
        # peers that wait for the whole request body
        done = (self.buf.endswith(b"0\r\n\r\n") if self.chunked else len(self.buf) >= self.clen)
        if done:
            self._final(200, b"done")


def make_connector(limit, lph, log):
    from aiohttp.connector import BaseConnector

    class Connector(BaseConnector):
        def __init__(self, **kw):
            super().__init__(**kw)
            self.transports = []
            self.peer = "final-at-headers"

        async def _create_connection(self, req, traces, timeout):
            proto = self._factory()
            tr = PeerTransport(self._loop, proto, self.peer, log)
            self.transports.append(tr)
            proto.connection_made(tr)
            return proto

    return Connector(limit=limit, limit_per_host=lph)


def run_scenario(sc):
    """sc: dict(limit, lph, body, expect100, peer, ending, settle) -> dict of observations"""
    import aiohttp

    obs = {"steps": []}

    async def main():
        conn = make_connector(sc["limit"], sc["lph"], obs["steps"])
        conn.peer = sc["peer"]
        park = asyncio.Event()

        async def gen_parked():
            yield b"first"
            await park.wait()          # a body producer that is not ready yet
            yield b"never"

        async def gen_finite():
            yield b"ab"
            await asyncio.sleep(0.01)
            yield b"cd"

        body = {"none": None, "bytes": b"x" * 100, "big": b"y" * 200000,
                "gen-parked": gen_parked(), "gen-finite": gen_finite()}[sc["body"]]
        session = aiohttp.ClientSession(connector=conn, timeout=aiohttp.ClientTimeout(total=None))
        try:
            async def exchange():
                resp = await session.post("http://h0/", data=body, expect100=sc["expect100"])
                obs["status"] = resp.status
                end = sc["ending"]
                if end == "release":
                    resp.release()
                elif end == "read":
                    await resp.read()
                elif end == "close":
                    resp.close()
                elif end == "ctx":
                    async with resp:
                        pass
                elif end == "drop-peer":
                    for tr in conn.transports:
                        tr.close()
                    resp.release()
                return resp

            task = asyncio.ensure_future(exchange())
            if sc["ending"] == "cancel-request":
                await asyncio.sleep(0.001)
                task.cancel()
            try:
                resp = await asyncio.wait_for(task, 30)
                obs["first"] = "done"
            except asyncio.CancelledError:
                resp = None
                obs["first"] = "cancelled"
            except asyncio.TimeoutError:
                resp = None
                obs["first"] = "timeout"          # the peer never answers in this combination: not judged
            except aiohttp.ClientError as e:
                resp = None
                obs["first"] = "error:" + type(e).__name__
            await asyncio.sleep(sc.get("settle", 1.0))
            obs["acquired"] = len(conn._acquired)
            obs["per_host"] = sum(len(v) for v in conn._acquired_per_host.values())
            obs["waiters"] = sum(len(v) for v in conn._waiters.values())
            # the follow-up request must get the (only) slot
            try:
                r2 = await asyncio.wait_for(session.get("http://h0/"), 20)
                obs["second"] = "status:%d" % r2.status
                await r2.read()
                r2.release()
            except asyncio.TimeoutError:
                obs["second"] = "timeout"
            except aiohttp.ClientError as e:
                obs["second"] = "error:" + type(e).__name__
            await asyncio.sleep(0.1)
            obs["acquired_end"] = len(conn._acquired)
            del resp
        finally:
            park.set()
            await session.close()
        return obs

    res, excs, quiescent = vrun(main)
    if res is None:
        obs["quiescent"] = True
    obs["loop_exceptions"] = len(excs)
    return obs


def all_scenarios():
    for limit, lph in ((1, 0), (0, 1), (1, 1)):
        for body in BODIES:
            for expect in (False, True):
                if body == "none" and expect:
                    continue
                for peer in PEERS:
                    for ending in ENDINGS:
                        yield {"limit": limit, "lph": lph, "body": body, "expect100": expect, "peer": peer, "ending": ending}


def judge(sc, obs):
    """-> list of (signature-suffix, detail)"""
    out = []
    if obs.get("first") == "timeout":
        return out      # e.g. peer waits for a body the client will not send before 100: nothing finished
    if obs.get("quiescent"):
        out.append(("session/blocked-forever", f"scenario never completes (nothing ready, no timer): {obs}"))
        return out
    left = obs.get("acquired", 0) + obs.get("per_host", 0)
    if left:
        w = "connection-closed-by-peer" if "close" in sc["peer"] else \
            "writer-parked-on-100-continue" if sc["expect100"] and sc["peer"] != "100-then-final" else \
            "writer-pending" if sc["body"] in ("gen-parked", "big", "gen-finite") else "other"
        out.append((f"session/still-counted-after-{sc['ending']}/{w}",
                    f"after the exchange ended ({sc['ending']}) and 1 s settled: _acquired={obs.get('acquired')} "
                    f"per-host={obs.get('per_host')}"))
    if obs.get("second") == "timeout":
        out.append((f"session/next-request-starved-after-{sc['ending']}",
                    f"follow-up GET got no connection in 20 s (limit 1); _acquired={obs.get('acquired')}"))
    elif not str(obs.get("second", "")).startswith("status:200"):
        out.append((f"session/next-request-failed-after-{sc['ending']}", f"follow-up GET: {obs.get('second')}"))
    if obs.get("acquired_end"):
        out.append(("session/still-counted-at-end", f"_acquired={obs.get('acquired_end')} after the follow-up request was released"))
    return out


# =====================================================================================================
# family 2: how the response is consumed.  A connection must go back to the connector as soon as the response
# body has been received completely — whatever the response headers advertise, however the body is framed and
# segmented, and whether or not the caller releases the response object explicitly.

RESP_HEADERS = {
    "plain": b"",
    "advertises-upgrade": b"Connection: Upgrade\r\nUpgrade: h2c\r\n",        # a plain 200, nothing is upgraded
    "upgrade-header-only": b"Upgrade: h2c, websocket\r\n",
    "keep-alive": b"Connection: keep-alive\r\nKeep-Alive: timeout=5\r\n",
    "connection-close": b"Connection: close\r\n",
}
FRAMINGS = ["content-length", "chunked", "empty"]
TIMINGS = ["with-headers", "later", "two-later-segments"]
CONSUMERS = ["stream-to-eof-keep", "iter-chunked-keep", "read-keep", "read-then-release", "ctx-manager", "release-unread",
             "dropped-unread"]


class ConsumePeer(PeerTransport):
    def __init__(self, loop, proto, sc):
        super().__init__(loop, proto, "consume", [])
        self.sc = sc

    def _react(self):
        if self.closing:
            return
        i = self.buf.find(b"\r\n\r\n")
        if i < 0:
            return
        del self.buf[:i + 4]
        sc = self.sc
        body = b"0123456789abcdef" * 4
        if sc["framing"] == "content-length":
            head = b"Content-Length: %d\r\n" % len(body)
            parts = [body[:20], body[20:]]
        elif sc["framing"] == "chunked":
            head = b"Transfer-Encoding: chunked\r\n"
            parts = [b"14\r\n" + body[:20] + b"\r\n", b"%x\r\n" % len(body[20:]) + body[20:] + b"\r\n0\r\n\r\n"]
        else:
            head = b"Content-Length: 0\r\n"
            parts = [b"", b""]
        hdr = b"HTTP/1.1 200 OK\r\n" + RESP_HEADERS[sc["resp_headers"]] + head + b"\r\n"
        if sc["timing"] == "with-headers":
            self._send(hdr + parts[0] + parts[1])
        elif sc["timing"] == "later":
            self._send(hdr)
            self.loop.call_later(0.05, self._send, parts[0] + parts[1])
        else:
            self._send(hdr)
            self.loop.call_later(0.05, self._send, parts[0])
            self.loop.call_later(0.10, self._send, parts[1])


def run_consume(sc):
    import aiohttp
    from aiohttp.connector import BaseConnector
    obs = {}

    async def main():
        class Connector(BaseConnector):
            transports = []

            async def _create_connection(self, req, traces, timeout):
                proto = self._factory()
                tr = ConsumePeer(self._loop, proto, sc)
                self.transports.append(tr)
                proto.connection_made(tr)
                return proto

        conn = Connector(limit=sc["limit"], limit_per_host=sc["lph"])
        conn.transports = []
        session = aiohttp.ClientSession(connector=conn, timeout=aiohttp.ClientTimeout(total=None))
        keep = []
        try:
            async def exchange():
                resp = await session.get("http://h0/")
                keep.append(resp)               # the caller keeps the response object (e.g. results of gather)
                c = sc["consumer"]
                if c == "stream-to-eof-keep":
                    while await resp.content.read(7):
                        pass
                elif c == "iter-chunked-keep":
                    async for _ in resp.content.iter_chunked(5):
                        pass
                elif c == "read-keep":
                    await resp.read()
                elif c == "read-then-release":
                    await resp.read()
                    resp.release()
                elif c == "ctx-manager":
                    async with resp:
                        await resp.read()
                elif c == "release-unread":
                    resp.release()
                elif c == "dropped-unread":
                    # the caller forgets the response: garbage collection must give the connection back
                    import gc, warnings
                    keep.clear()
                    with warnings.catch_warnings():
                        warnings.simplefilter("ignore")
                        del resp
                        gc.collect()
            try:
                await asyncio.wait_for(exchange(), 30)
                obs["first"] = "done"
            except asyncio.TimeoutError:
                obs["first"] = "timeout"
            except aiohttp.ClientError as e:
                obs["first"] = "error:" + type(e).__name__
            await asyncio.sleep(1.0)
            obs["acquired"] = len(conn._acquired)
            obs["per_host"] = sum(len(v) for v in conn._acquired_per_host.values())
            try:
                r2 = await asyncio.wait_for(session.get("http://h0/"), 20)
                obs["second"] = "status:%d" % r2.status
                await r2.read()
                r2.release()
            except asyncio.TimeoutError:
                obs["second"] = "timeout"
            except aiohttp.ClientError as e:
                obs["second"] = "error:" + type(e).__name__
            await asyncio.sleep(0.2)
            obs["acquired_end"] = len(conn._acquired)
        finally:
            await session.close()
        return obs

    res, excs, quiescent = vrun(main)
    if res is None:
        obs["quiescent"] = True
    return obs


def consume_scenarios():
    for limit, lph in ((1, 0), (0, 1)):
        for rh in RESP_HEADERS:
            for fr in FRAMINGS:
                for tm in TIMINGS:
                    if fr == "empty" and tm != "with-headers":
                        continue
                    for co in CONSUMERS:
                        yield {"family": "consume", "limit": limit, "lph": lph, "resp_headers": rh, "framing": fr,
                               "timing": tm, "consumer": co}


def judge_consume(sc, obs):
    out = []
    if obs.get("quiescent"):
        return [("session/blocked-forever", f"scenario never completes: {obs}")]
    if obs.get("first") != "done":
        return [("session/consume/first-request-" + str(obs.get("first")), f"{obs}")]
    tag = f"{sc['consumer']}/{sc['resp_headers']}"
    if obs.get("acquired", 0) + obs.get("per_host", 0):
        out.append((f"session/still-counted-after-body-eof/{tag}",
                    f"body received completely ({sc['framing']}, {sc['timing']}), consumer {sc['consumer']}: "
                    f"_acquired={obs.get('acquired')} per-host={obs.get('per_host')} 1 s later"))
    if obs.get("second") == "timeout":
        out.append((f"session/next-request-starved-after-body-eof/{tag}", "follow-up GET got no connection in 20 s (limit 1)"))
    elif not str(obs.get("second", "")).startswith("status:200"):
        out.append((f"session/next-request-failed-after-body-eof/{tag}", f"follow-up GET: {obs.get('second')}"))
    if obs.get("acquired_end"):
        out.append(("session/still-counted-at-end", f"_acquired={obs.get('acquired_end')} at the end"))
    return out


# =====================================================================================================
# family 3: one endpoint, several spellings.  `limit_per_host` is a limit per endpoint (host, port, is_ssl):
# different spellings of the same endpoint share it, different endpoints do not.

SPELLINGS = {
    # name -> (url, endpoint)
    "plain": ("http://h0/", ("h0", 80, False)),
    "explicit-default-port": ("http://h0:80/", ("h0", 80, False)),
    "upper-case-host": ("http://H0/", ("h0", 80, False)),
    "path-query-fragment": ("http://h0:80/a/b?c=d#e", ("h0", 80, False)),
    "userinfo": ("http://u:p@h0/", ("h0", 80, False)),
    "other-port": ("http://h0:8080/", ("h0", 8080, False)),
    "https": ("https://h0/", ("h0", 443, True)),
    "https-explicit-default-port": ("https://h0:443/", ("h0", 443, True)),
    "https-on-80": ("https://h0:80/", ("h0", 80, True)),
    "other-host": ("http://h1/", ("h1", 80, False)),
}


class HoldPeer(PeerTransport):
    """answers only when told to"""

    def __init__(self, loop, proto):
        super().__init__(loop, proto, "hold", [])

    def _react(self):
        pass

    def answer(self):
        if not self.closing:
            self._send(b"HTTP/1.1 200 OK\r\nContent-Length: 2\r\n\r\nok")


def run_spelling(sc):
    """start one request per spelling at the same time, nobody is answered for a while: how many connections
    does each endpoint get?"""
    import aiohttp
    from aiohttp.connector import BaseConnector
    obs = {}

    async def main():
        class Connector(BaseConnector):
            async def _create_connection(self, req, traces, timeout):
                proto = self._factory()
                tr = HoldPeer(self._loop, proto)
                tr.url = str(req.url)
                tr.endpoint = ((req.url.host or "").lower(), req.url.port, req.url.scheme in ("https", "wss"))
                tr.key = req.connection_key
                self.transports.append(tr)
                proto.connection_made(tr)
                return proto

        conn = Connector(limit=0, limit_per_host=sc["lph"])
        conn.transports = []
        session = aiohttp.ClientSession(connector=conn, timeout=aiohttp.ClientTimeout(total=None))
        try:
            urls = [SPELLINGS[n][0] for n in sc["names"]]
            tasks = [asyncio.ensure_future(session.get(u)) for u in urls]
            await asyncio.sleep(0.5)
            obs["open_by_url"] = sorted(tr.url for tr in conn.transports)
            obs["open_endpoints"] = [list(tr.endpoint) for tr in conn.transports]
            obs["keys"] = {tr.url: repr(tuple(tr.key)) for tr in conn.transports}
            obs["key_list"] = [repr(tuple(tr.key)) for tr in conn.transports]
            for _ in range(len(urls) + 1):
                for tr in list(conn.transports):
                    tr.answer()
                await asyncio.sleep(0.1)
                for t in tasks:
                    if t.done() and not t.cancelled() and t.exception() is None:
                        t.result().release()
                await asyncio.sleep(0.1)
            obs["done"] = sum(t.done() for t in tasks)
            for t in tasks:
                t.cancel()
            await asyncio.sleep(0.1)
            obs["acquired_end"] = len(conn._acquired)
        finally:
            await session.close()
        return obs

    res, excs, quiescent = vrun(main)
    if res is None:
        obs["quiescent"] = True
    return obs


def spelling_scenarios():
    import itertools
    names = list(SPELLINGS)
    for lph in (1, 2):
        for a, b in itertools.combinations(names, 2):
            yield {"family": "spelling", "lph": lph, "names": [a, b] * lph}
        yield {"family": "spelling", "lph": lph, "names": names}


def judge_spelling(sc, obs):
    out = []
    if obs.get("quiescent"):
        return [("session/blocked-forever", f"{obs}")]
    from yarl import URL
    want = {}
    for n in sc["names"]:
        url, ep = SPELLINGS[n]
        want.setdefault(ep, []).append(str(URL(url).with_fragment(None)))
    got = {}
    for e in obs.get("open_endpoints", []):
        got[tuple(e)] = got.get(tuple(e), 0) + 1
    for ep, urls in want.items():
        n = got.get(ep, 0)
        if n > sc["lph"]:
            out.append(("session/limit-per-host-exceeded/same-endpoint-different-spelling",
                        f"{n} simultaneous connections to endpoint {ep} with limit_per_host={sc['lph']} "
                        f"(requests: {[SPELLINGS[x][0] for x in sc['names'] if SPELLINGS[x][1] == ep]})"))
        if n < min(sc["lph"], len(urls)):
            out.append(("session/endpoint-starved/distinct-endpoints-share-a-limit",
                        f"endpoint {ep} got {n} connections although limit_per_host={sc['lph']} and {len(urls)} requests wait "
                        f"(other endpoints were busy)"))
    if obs.get("done") != len(sc["names"]):
        out.append(("session/spelling/requests-not-finished", f"{obs.get('done')} of {len(sc['names'])} requests finished"))
    if obs.get("acquired_end"):
        out.append(("session/still-counted-at-end", f"_acquired={obs.get('acquired_end')} at the end"))
    return out


# =====================================================================================================
# family 4: ClientSession._request paths other than the plain success — redirects, errors raised while the
# connection is held, timeouts, raise_for_status — and several exchanges in a row on one session.  Whatever
# happens to an exchange, its connection must not stay counted, and the session must stay usable.

HOPS = ["ok", "redirect-301", "redirect-301-body-pending", "redirect-307-keep-body", "redirect-loop", "redirect-bad-location", "redirect-other-host",
        "peer-drops-before-response", "peer-drops-mid-headers", "peer-drops-mid-body", "malformed-status-line",
        "never-answers", "stalls-mid-body", "status-500", "bad-content-encoding"]
MODES = ["read", "raise_for_status", "stream-keep", "release"]


class HopPeer(PeerTransport):
    def __init__(self, loop, proto, script):
        super().__init__(loop, proto, "hop", [])
        self.script = script          # shared, mutable: list of behaviours for successive requests

    def _react(self):
        if self.closing:
            return
        i = self.buf.find(b"\r\n\r\n")
        if i < 0:
            return
        head = bytes(self.buf[:i])
        del self.buf[:i + 4]
        if b"Content-Length:" in head:
            n = int(head.split(b"Content-Length:")[1].split(b"\r\n")[0])
            del self.buf[:n]
        path = head.split(b" ")[1]
        beh = "ok" if path.startswith(b"/final") or not self.script else self.script.pop(0)
        ok = b"HTTP/1.1 200 OK\r\nContent-Length: 5\r\n\r\nfinal"
        if beh == "ok":
            self._send(ok)
        elif beh == "redirect-301":
            self._send(b"HTTP/1.1 301 Moved\r\nLocation: /final\r\nContent-Length: 3\r\n\r\nbye")
        elif beh == "redirect-301-body-pending":
            # the body of the redirect response never completes: following the redirect must not wait for it
            self._send(b"HTTP/1.1 301 Moved\r\nLocation: /final\r\nContent-Length: 50\r\n\r\npartial")
        elif beh == "redirect-307-keep-body":
            self._send(b"HTTP/1.1 307 Temporary\r\nLocation: /final\r\nContent-Length: 0\r\n\r\n")
        elif beh == "redirect-loop":
            self.script.insert(0, "redirect-loop")
            self._send(b"HTTP/1.1 302 Found\r\nLocation: /again\r\nContent-Length: 0\r\n\r\n")
        elif beh == "redirect-bad-location":
            self._send(b"HTTP/1.1 302 Found\r\nLocation: http://[::1/x\r\nContent-Length: 0\r\n\r\n")
        elif beh == "redirect-other-host":
            self._send(b"HTTP/1.1 302 Found\r\nLocation: http://h1/final\r\nContent-Length: 4\r\n\r\nbody")
        elif beh == "peer-drops-before-response":
            self._peer_close()
        elif beh == "peer-drops-mid-headers":
            self._send(b"HTTP/1.1 200 OK\r\nContent-Le")
            self.loop.call_soon(self._peer_close)
        elif beh == "peer-drops-mid-body":
            self._send(b"HTTP/1.1 200 OK\r\nContent-Length: 50\r\n\r\npartial")
            self.loop.call_later(0.01, self._peer_close)
        elif beh == "malformed-status-line":
            self._send(b"HTP/1.1 200 OK\r\n\r\n")
        elif beh == "never-answers":
            pass
        elif beh == "stalls-mid-body":
            self._send(b"HTTP/1.1 200 OK\r\nContent-Length: 50\r\n\r\npartial")
        elif beh == "status-500":
            self._send(b"HTTP/1.1 500 Oops\r\nContent-Length: 4\r\n\r\noops")
        elif beh == "bad-content-encoding":
            self._send(b"HTTP/1.1 200 OK\r\nContent-Encoding: gzip\r\nContent-Length: 9\r\n\r\nnot-gzip!")


def run_hops(sc):
    import aiohttp
    from aiohttp.connector import BaseConnector
    obs = {"results": []}

    async def main():
        script = []

        class Connector(BaseConnector):
            async def _create_connection(self, req, traces, timeout):
                proto = self._factory()
                tr = HopPeer(self._loop, proto, script)
                self.transports.append(tr)
                proto.connection_made(tr)
                return proto

        conn = Connector(limit=sc["limit"], limit_per_host=sc["lph"])
        conn.transports = []
        session = aiohttp.ClientSession(connector=conn, timeout=aiohttp.ClientTimeout(total=5, sock_read=2))
        keep = []
        try:
            for beh in sc["hops"]:
                script[:] = [beh]
                try:
                    kw = {"data": b"payload"} if beh == "redirect-307-keep-body" else {}
                    resp = await session.request("POST" if kw else "GET", "http://h0/start", max_redirects=3,
                                                 raise_for_status=(sc["mode"] == "raise_for_status"), **kw)
                    keep.append(resp)
                    if sc["mode"] in ("read", "raise_for_status"):
                        await resp.read()
                    elif sc["mode"] == "stream-keep":
                        while await resp.content.read(3):
                            pass
                    else:
                        resp.release()
                    obs["results"].append("status:%d" % resp.status)
                except (aiohttp.ClientError, asyncio.TimeoutError, ValueError) as e:
                    obs["results"].append("error:" + type(e).__name__)
                await asyncio.sleep(1.0)
                obs.setdefault("acquired_after", []).append(len(conn._acquired) + sum(len(v) for v in conn._acquired_per_host.values()))
            script[:] = []
            try:
                r2 = await asyncio.wait_for(session.get("http://h0/final"), 20)
                obs["second"] = "status:%d" % r2.status
                await r2.read()
            except asyncio.TimeoutError:
                obs["second"] = "timeout"
            except aiohttp.ClientError as e:
                obs["second"] = "error:" + type(e).__name__
            await asyncio.sleep(0.2)
            obs["acquired_end"] = len(conn._acquired)
            obs["open_transports"] = sum(not t.closing for t in conn.transports)
            obs["idle"] = sum(len(v) for v in conn._conns.values())
        finally:
            await session.close()
        obs["open_after_close"] = sum(not t.closing for t in conn.transports)
        return obs

    res, excs, quiescent = vrun(main)
    if res is None:
        obs["quiescent"] = True
    return obs


def hop_scenarios():
    for limit, lph in ((1, 0), (0, 1)):
        for mode in MODES:
            for h in HOPS:
                yield {"family": "hops", "limit": limit, "lph": lph, "mode": mode, "hops": [h]}
            # histories: the same session after an error / a redirect / a timeout
            for a, b in (("peer-drops-mid-body", "redirect-301"), ("redirect-loop", "ok"), ("never-answers", "status-500"),
                         ("redirect-other-host", "peer-drops-before-response"), ("bad-content-encoding", "stalls-mid-body")):
                yield {"family": "hops", "limit": limit, "lph": lph, "mode": mode, "hops": [a, b, a]}


def judge_hops(sc, obs):
    out = []
    if obs.get("quiescent"):
        return [("session/blocked-forever", f"{sc}: never completes: {obs}")]
    # an exchange whose peer behaves must succeed — in particular it must not starve waiting for the slot of its own
    # previous hop
    expect = {"ok": "status:200", "redirect-301": "status:200", "redirect-301-body-pending": "status:200", "redirect-307-keep-body": "status:200",
              "redirect-other-host": "status:200"}
    for h, r in zip(sc["hops"], obs.get("results", [])):
        if h in expect and r != expect[h]:
            out.append((f"session/exchange-failed/{h}", f"exchange {h} ended with {r}, expected {expect[h]} (mode {sc['mode']})"))
            break
    for i, n in enumerate(obs.get("acquired_after", [])):
        if n and sc["mode"] == "stream-keep" and obs["results"][i].startswith("error:"):
            # one root cause, one signature (the follow-on symptoms of the same scenario are not reported separately):
            # an error raised by resp.content.read() does not release / close the response's connection
            return [("session/stream-read-error-keeps-slot",
                     f"resp.content.read() raised {obs['results'][i][6:]} ({sc['hops'][i]}); the caller keeps the response "
                     f"object without release(): its connection stays counted ({n} entries 1 s later), follow-up: {obs.get('second')}")]
        if n:
            out.append((f"session/still-counted-after-exchange/{sc['hops'][i]}/{sc['mode']}",
                        f"1 s after exchange #{i} ({sc['hops'][i]} -> {obs['results'][i]}): {n} entries still counted"))
            break
    if obs.get("second") == "timeout":
        out.append((f"session/next-request-starved-after-exchange/{sc['hops'][-1]}", "follow-up GET got no connection in 20 s"))
    elif not str(obs.get("second", "")).startswith("status:200"):
        out.append((f"session/next-request-failed-after-exchange/{sc['hops'][-1]}", f"follow-up GET: {obs.get('second')}"))
    if obs.get("acquired_end"):
        out.append(("session/still-counted-at-end", f"_acquired={obs.get('acquired_end')} at the end"))
    if obs.get("open_transports", 0) > obs.get("idle", 0):
        out.append((f"session/open-connection-untracked/{sc['hops'][-1]}",
                    f"{obs['open_transports']} transports open, {obs['idle']} idle in the pool, nothing in use"))
    if obs.get("open_after_close"):
        out.append(("session/transport-open-after-session-close", f"{obs['open_after_close']} transports open after session.close()"))
    return out
