class StopCheck(Exception):
    """a check found something decisive (e.g. the code under test hangs on several inputs): stop exploring,
    report what was recorded so far"""
