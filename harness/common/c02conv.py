"""C02 helper — content-coded bodies, Expect: 100-continue answered by a final response, and long
keep-alive conversations (oracle-only scenarios on the real ClientSession <-> AppRunner pipe).

* ``codec``  : chunked bodies carrying Content-Encoding deflate (zlib-wrapped AND bare RFC 1951), gzip, in
               both directions, under segmentations that cut right behind every chunk-size line, at every
               chunk edge, k bytes, single cuts.  Property: the receiver's application sees the original
               bytes whatever the segmentation (same bytes on the wire => same outcome).
* ``expect`` : request with Expect: 100-continue whose route's expect handler answers with a final
               response (403/417, keep-alive) or with 100 Continue; body of known and unknown size;
               followed by another request on the session.  Property: the early response reaches the
               caller, and the next request is answered correctly (a connection on which an announced
               body was never sent must not be reused).
* ``convo``  : >= 40 exchanges on ONE keep-alive connection whose request bodies span segments, use
               expect100, or are streamed with gaps.  Property: every exchange completes with the right
               echo; nothing stalls.
"""
import asyncio, gzip, hashlib, zlib
from . import vloop
from .c02pipe import make_connector

KINDS = ("codec", "expect", "convo", "trunc")


def plain(n, tag=3):
    base = (b"line %d of some rather compressible text, 0\r\n\r\n" % tag) * (n // 40 + 1)
    return base[:n]


def encode(data, coding):
    if coding == "gzip":
        return gzip.compress(data, mtime=0)
    if coding == "zlib":          # Content-Encoding: deflate, RFC 1950 wrapper (what aiohttp's compressor emits)
        return zlib.compress(data)
    if coding == "rawdeflate":    # Content-Encoding: deflate, bare RFC 1951 stream
        c = zlib.compressobj(wbits=-zlib.MAX_WBITS)
        return c.compress(data) + c.flush()
    raise ValueError(coding)


def ce_header(coding, spell=None):
    v = "gzip" if coding == "gzip" else "deflate"
    return v.upper() if spell == "upper" else v.title() if spell == "title" else v


def pieces(data, k):
    if k <= 1:
        return [data]
    step = max(1, -(-len(data) // k))
    return [data[i:i + step] for i in range(0, len(data), step)]


# ------------------------------------------------------------------------------ codec
async def _run_codec(case, obs):
    import aiohttp
    from aiohttp import web
    data = plain(case["n"])
    enc = encode(data, case["coding"])
    parts = pieces(enc, case.get("parts", 1))
    srv, cli = obs.setdefault("srv", {}), obs.setdefault("cli", {})
    down = case["dir"] == "down"

    async def handler(request):
        if down:
            r = web.StreamResponse(headers={"Content-Encoding": ce_header(case["coding"], case.get("spell"))})
            await r.prepare(request)
            for p in parts:
                await r.write(p)
            await r.write_eof()
            return r
        try:
            got = await request.read()
        except BaseException as e:  # noqa
            srv["read_exc"] = type(e).__name__
            raise
        srv["got"] = got
        return web.Response(text=hashlib.sha1(got).hexdigest())

    app = web.Application(client_max_size=1 << 30)
    app.router.add_route("*", "/{tail:.*}", handler)
    runner = web.AppRunner(app)
    await runner.setup()
    seg = case.get("seg") or ["whole"]
    conn = make_connector(runner.server, ["whole"] if down else seg, seg if down else ["whole"])
    try:
        async with aiohttp.ClientSession(connector=conn, timeout=aiohttp.ClientTimeout(total=None)) as s:
            try:
                if down:
                    async with s.get("http://example.test/c") as resp:
                        cli["status"] = resp.status
                        cli["got"] = await resp.read()
                else:
                    async def gen():
                        for p in parts:
                            yield p
                    async with s.post("http://example.test/c", data=gen(),
                                      headers={"Content-Encoding": ce_header(case["coding"], case.get("spell"))}) as resp:
                        cli["status"] = resp.status
                        cli["text"] = await resp.text()
            except BaseException as e:  # noqa
                if isinstance(e, (KeyboardInterrupt, SystemExit)):
                    raise
                cli["exc"] = type(e).__name__
            obs["wires"] = [(bytes(c.log), bytes(t.log)) for c, t in conn.pairs]
            obs["deliveries"] = [(c.deliveries, t.deliveries) for c, t in conn.pairs]
    finally:
        await runner.cleanup()


def oracle_codec(ctx, case, obs):
    V = lambda sig, detail: ctx.violation("C02/" + sig, case, detail)
    data = plain(case["n"])
    cli, srv = obs.get("cli", {}), obs.get("srv", {})
    who = "response" if case["dir"] == "down" else "request"
    got = cli.get("got") if case["dir"] == "down" else srv.get("got")
    ok = got == data and "exc" not in cli and cli.get("status") == 200
    if ok and case["dir"] == "up":
        ok = cli.get("text") == hashlib.sha1(data).hexdigest()
    if not ok:
        V(f"content-coded-body-differs/{who}-{case['coding']}",
          f"{len(data)} bytes sent as Content-Encoding: {ce_header(case['coding'])} ({case['coding']}), chunked in {case.get('parts', 1)} chunk(s), "
          f"segments {case.get('seg')}: receiver got {None if got is None else len(got)} bytes, caller: {cli.get('exc') or cli.get('status')}, "
          f"handler read error: {srv.get('read_exc')}")


# ------------------------------------------------------------------------------ expect
async def _run_expect(case, obs):
    import aiohttp
    from aiohttp import web
    body = plain(case["n"], 5)
    parts = pieces(body, case.get("parts", 2))
    srv, cli = obs.setdefault("srv", {"reqs": []}), obs.setdefault("cli", {})

    async def expect_handler(request):
        mode = case.get("answer", "403")
        if mode == "100":
            await request.writer.write(b"HTTP/1.1 100 Continue\r\n\r\n")
            request.writer.output_size = 0
            return None
        if mode == "raise417":
            raise web.HTTPExpectationFailed(text="no")
        return web.Response(status=int(mode), text="early")

    async def upload(request):
        got = await request.read()
        srv["reqs"].append(("upload", len(got), got == body))
        return web.Response(text="stored")

    async def echo(request):
        got = await request.read()
        srv["reqs"].append(("echo", len(got)))
        return web.Response(body=got)

    app = web.Application()
    if case.get("answer") == "default":
        app.router.add_route("POST", "/up", upload)          # aiohttp's own default expect handler
    else:
        app.router.add_route("POST", "/up", upload, expect_handler=expect_handler)
    app.router.add_route("POST", "/echo", echo)
    runner = web.AppRunner(app)
    await runner.setup()
    conn = make_connector(runner.server, case.get("seg") or ["whole"], case.get("seg2") or ["whole"],
                          limit=1 if case.get("limit1") else 100)
    try:
        async with aiohttp.ClientSession(connector=conn, timeout=aiohttp.ClientTimeout(total=None)) as s:
            src = case.get("source", "agen")
            if src == "agen":
                async def gen():
                    for p in parts:
                        yield p
                data = gen()
            elif src == "bytesio":
                import io
                data = io.BytesIO(body)
            else:
                data = body
            try:
                ekw = {"headers": {"Expect": case["spelling"]}} if case.get("spelling") else {"expect100": True}
                async with s.post("http://example.test/up", data=data, **ekw) as resp:
                    cli["status"] = resp.status
                    cli["text"] = await resp.text()
                    cli["conn_hdr"] = resp.headers.get("Connection")
            except BaseException as e:  # noqa
                if isinstance(e, (KeyboardInterrupt, SystemExit)):
                    raise
                cli["exc"] = type(e).__name__
            for _ in range(case.get("gap", 0)):
                await asyncio.sleep(0)
            cli["release"] = list(conn.release_log)
            n0 = len(conn.pairs)
            try:
                async with s.post("http://example.test/echo", data=b"second request") as r2:
                    cli["second"] = (r2.status, await r2.read())
            except BaseException as e:  # noqa
                if isinstance(e, (KeyboardInterrupt, SystemExit)):
                    raise
                cli["second_exc"] = type(e).__name__
            cli["second_new_conn"] = len(conn.pairs) - n0
            for _ in range(10):
                await asyncio.sleep(0)
            obs["wires"] = [(bytes(c.log), bytes(t.log)) for c, t in conn.pairs]
    finally:
        await runner.cleanup()


def oracle_expect(ctx, case, obs):
    V = lambda sig, detail: ctx.violation("C02/" + sig, case, detail)
    cli, srv = obs.get("cli", {}), obs.get("srv", {})
    mode = case.get("answer", "403")
    tag = f"{case.get('source', 'agen')}-answer-{mode}"
    if mode == "default":
        tag = "default-handler-expect-" + ("canonical" if (case.get("spelling") or "100-continue") == "100-continue" else "other-capitalisation")
    exp = {"100": (200, "stored"), "default": (200, "stored"), "raise417": (417, "no")}.get(mode, (int(mode) if mode.isdigit() else 0, "early"))
    if obs.get("quiescent"):
        V(f"expect100-exchange-stalls/{tag}", f"nothing left to run; caller state {cli}")
        return
    if "exc" in cli or (cli.get("status"), cli.get("text")) != exp:
        V(f"expect100-response-differs/{tag}", f"expected {exp}, caller got {cli.get('exc') or (cli.get('status'), cli.get('text'))}")
        return
    if mode in ("100", "default") and ("upload", case["n"], True) not in srv.get("reqs", []):
        V(f"expect100-body-differs/{tag}", f"handler saw {srv.get('reqs')}")
    if cli.get("second_exc") or cli.get("second") != (200, b"second request"):
        rel = cli.get("release") or []
        V(f"next-request-broken/after-expect100-early-final-response/{case.get('source', 'agen')}" if mode not in ("100", "default")
          else f"next-request-broken/after-expect100-{tag}",
          f"the request announced a body ({case.get('source', 'agen')}, {case['n']} bytes) with Expect: 100-continue, the server answered {exp[0]} without "
          f"100 Continue; connector decisions {rel}; the next request on the session got {cli.get('second_exc') or cli.get('second')} "
          f"(new connection: {cli.get('second_new_conn')}); first connection's client bytes end {obs['wires'][0][0][-30:]!r}")


# ------------------------------------------------------------------------------ convo
async def _run_convo(case, obs):
    import aiohttp
    from aiohttp import web
    srv, cli = obs.setdefault("srv", {"n": 0}), obs.setdefault("cli", {"done": 0, "bad": []})

    async def echo(request):
        got = await request.read()
        srv["n"] += 1
        return web.Response(body=hashlib.sha1(got).hexdigest().encode() + b":" + str(len(got)).encode())

    app = web.Application()
    app.router.add_route("*", "/{tail:.*}", echo)
    runner = web.AppRunner(app)
    await runner.setup()
    conn = make_connector(runner.server, case.get("seg") or ["k", 300], case.get("seg2") or ["whole"], limit=1)
    steps = case["steps"]
    try:
        async with aiohttp.ClientSession(connector=conn, timeout=aiohttp.ClientTimeout(total=None)) as s:
            for i, st in enumerate(steps):
                body = plain(st["n"], i)
                kw = {}
                if st["kind"] == "agen":
                    parts = pieces(body, st.get("parts", 3))

                    async def gen(parts=parts, gap=st.get("gap", 0)):
                        for p in parts:
                            yield p
                            for _ in range(gap):
                                await asyncio.sleep(0)
                    kw["data"] = gen()
                else:
                    kw["data"] = body
                if st.get("expect100"):
                    kw["expect100"] = True
                cli["at"] = i
                async with s.post(f"http://example.test/e{i}", **kw) as resp:
                    txt = await resp.read()
                if resp.status != 200 or txt != hashlib.sha1(body).hexdigest().encode() + b":" + str(len(body)).encode():
                    cli["bad"].append((i, resp.status, txt[:40]))
                cli["done"] = i + 1
            cli["connections"] = len(conn.pairs)
    except BaseException as e:  # noqa
        if isinstance(e, (KeyboardInterrupt, SystemExit)):
            raise
        cli["exc"] = type(e).__name__
        cli["connections"] = len(conn.pairs)
    finally:
        await runner.cleanup()


def oracle_convo(ctx, case, obs):
    V = lambda sig, detail: ctx.violation("C02/" + sig, case, detail)
    cli, srv = obs.get("cli", {}), obs.get("srv", {})
    n = len(case["steps"])
    kinds = sorted({("expect100-" if st.get("expect100") else "") + st["kind"] for st in case["steps"]})
    if obs.get("quiescent") or cli.get("done", 0) < n:
        V("keepalive-conversation-stalls",
          f"exchange {cli.get('at', 0) + 1} of {n} on one keep-alive connection ({'/'.join(kinds)} request bodies, upload segments {case.get('seg')}) "
          f"never completed: {'nothing left to run (both ends wait)' if obs.get('quiescent') else cli.get('exc')}; handler ran {srv.get('n')} times, "
          f"connections used {cli.get('connections')}")
        return
    if cli.get("bad"):
        V("keepalive-conversation-answer-differs", f"{len(cli['bad'])} of {n} exchanges got a wrong answer, first: {cli['bad'][0]}")
    if cli.get("connections") != 1:
        V("keepalive-conversation-reconnects", f"{n} sequential keep-alive exchanges used {cli.get('connections')} connections")


# ------------------------------------------------------------------------------ trunc
async def _trunc_once(case, kill, obs):
    import aiohttp
    from aiohttp import web
    from aiohttp.http import HttpVersion10, HttpVersion11
    body = plain(case["n"], 8)
    parts = pieces(body, case.get("parts", 3))
    down = case["dir"] == "down"
    srv, cli = obs.setdefault("srv", {}), obs.setdefault("cli", {})

    async def handler(request):
        if down:
            r = web.StreamResponse()
            if case["framing"] == "length":
                r.content_length = len(body)
            await r.prepare(request)
            for i, p in enumerate(parts):
                if case.get("raise_after") is not None and i == case["raise_after"]:
                    raise RuntimeError("handler broke mid-stream")
                await r.write(p)
            await r.write_eof()
            return r
        try:
            got = await request.read()
        except BaseException as e:  # noqa
            srv["read_exc"] = type(e).__name__
            raise
        srv["got"] = got
        srv["complete"] = True
        return web.Response(text="stored")

    app = web.Application(client_max_size=1 << 30)
    app.router.add_route("*", "/{tail:.*}", handler)
    runner = web.AppRunner(app)
    await runner.setup()
    seg = case.get("seg") or ["whole"]
    conn = make_connector(runner.server, ["whole"] if down else seg, seg if down else ["whole"],
                          kill_s2c=kill if down else None, kill_c2s=None if down else kill)
    ver = HttpVersion10 if case["framing"] == "eof" else HttpVersion11
    try:
        async with aiohttp.ClientSession(connector=conn, version=ver, timeout=aiohttp.ClientTimeout(total=None)) as s:
            try:
                if down:
                    async with s.get("http://example.test/t") as resp:
                        cli["status"] = resp.status
                        cli["got"] = await resp.read()
                        cli["complete"] = True
                else:
                    async def gen():
                        for p in parts:
                            yield p
                    kw = {"headers": {"Content-Length": str(len(body))}} if case["framing"] == "length" else {}
                    async with s.post("http://example.test/t", data=gen(), **kw) as resp:
                        cli["status"] = resp.status
                        cli["text"] = await resp.text()
                        cli["complete"] = True
            except BaseException as e:  # noqa
                if isinstance(e, (KeyboardInterrupt, SystemExit)):
                    raise
                cli["exc"] = type(e).__name__
            for _ in range(20):
                await asyncio.sleep(0)
            await asyncio.sleep(0.2)
            obs["wires"] = [(bytes(c.log), bytes(t.log)) for c, t in conn.pairs]
    finally:
        await runner.cleanup()


async def _run_trunc(case, obs):
    if case.get("kill_rel") is None:
        await _trunc_once(case, None, obs)
        return
    ref = {}
    await _trunc_once(dict(case, raise_after=None), None, ref)
    wire = ref["wires"][0][1 if case["dir"] == "down" else 0]
    head_end = wire.find(b"\r\n\r\n") + 4
    obs["ref_len"], obs["head_end"], obs["ref_wire"] = len(wire), head_end, wire
    obs["kill"] = max(1, head_end + case["kill_rel"])
    obs["layout"] = wire[head_end:head_end + 12]
    await _trunc_once(case, obs["kill"], obs)


def chunk_position(wire, head_end, pos):
    """where `pos` lies in the chunked body that starts at head_end"""
    if pos < head_end:
        return "in-head"
    i = head_end
    while i < len(wire):
        k = wire.find(b"\r\n", i)
        if k < 0:
            break
        try:
            size = int(wire[i:k], 16)
        except ValueError:
            break
        d0, d1 = k + 2, k + 2 + size
        if pos == i:
            return "at-chunk-boundary"
        if pos < d0:
            return "in-size-line"
        if size == 0:
            return "in-trailer-section" if pos < d1 + 2 else "after-message"
        if pos < d1:
            return "mid-chunk-data" if pos > d0 else "after-size-line"
        if pos < d1 + 2:
            return "in-chunk-crlf"
        i = d1 + 2
    return "after-message"


def oracle_trunc(ctx, case, obs):
    V = lambda sig, detail: ctx.violation("C02/" + sig, case, detail)
    body = plain(case["n"], 8)
    cli, srv = obs.get("cli", {}), obs.get("srv", {})
    down = case["dir"] == "down"
    who = "response" if down else "request"
    fr = case["framing"]
    kill = obs.get("kill")
    truncated = case.get("raise_after") is not None or (kill is not None and kill < obs.get("ref_len", 0))
    got = cli.get("got") if down else srv.get("got")
    complete = cli.get("complete") if down else srv.get("complete")
    if not truncated:
        if not complete or got != body:
            V(f"body-differs/untruncated-{who}-{fr}", f"nothing was cut, receiver got {None if got is None else len(got)} of {len(body)} complete={complete}")
        return
    if fr == "eof":
        # a close-delimited body cannot show its end: the receiver may only ever see a prefix
        if complete and got is not None and not body.startswith(got):
            V(f"body-differs/truncated-{who}-eof", f"receiver got {len(got)} bytes that are not a prefix of the body")
        return
    if complete and got != body:
        if case.get("raise_after") is not None:
            where = "handler-raised-between-writes"
        elif fr == "chunked":

            where = "cut-" + chunk_position(obs["ref_wire"], obs["head_end"], kill)
        else:
            where = "cut-in-body"
        V(f"truncated-body-seen-complete/{who}-{fr}/{where}",
          f"the sender vanished after {kill if kill is not None else 'some writes'} of {obs.get('ref_len', '?')} message bytes ({fr} framing), yet the receiver's "
          f"read completed normally with {None if got is None else len(got)} of {len(body)} body bytes "
          f"(caller: {cli.get('exc') or cli.get('status')})")


# ------------------------------------------------------------------------------ plumbing
def run_case(case):
    obs = {}

    async def main():
        await {"codec": _run_codec, "expect": _run_expect, "convo": _run_convo, "trunc": _run_trunc}[case["kind"]](case, obs)
    from .c02pipe import run_budgeted
    return run_budgeted(main, obs)


def oracle(ctx, case, obs):
    {"codec": oracle_codec, "expect": oracle_expect, "convo": oracle_convo, "trunc": oracle_trunc}[case["kind"]](ctx, case, obs)


def gen_cases(ctx):
    rng = ctx.rng
    out = []
    # --- codec
    for direction in ("down", "up"):
        for coding in ("rawdeflate", "zlib", "gzip"):
            for n, parts in ((300, 1), (5000, 3)):
                segs = [["whole"], ["chunkcuts", "size"], ["chunkcuts", "all"], ["k", 1 if n < 1000 else 7], ["k", 64]]
                for seg in segs:
                    out.append({"kind": "codec", "dir": direction, "coding": coding, "n": n, "parts": parts, "seg": seg})
            for spell in ("upper", "title"):
                out.append({"kind": "codec", "dir": direction, "coding": coding, "n": 300, "parts": 2, "seg": ["chunkcuts", "size"], "spell": spell})
            for _ in range(4 if ctx.quick else 60):
                n = rng.choice([1, 40, 300, 2000, 70000])
                seg = rng.choice([["rand", rng.randrange(1 << 30), rng.choice([8, 64, 700])], ["chunkcuts", rng.choice(["size", "all"])],
                                  ["bodycuts", sorted(rng.sample(range(1, 200), rng.choice([1, 2, 3])))]])
                out.append({"kind": "codec", "dir": direction, "coding": coding, "n": n, "parts": rng.choice([1, 2, 5]), "seg": seg})
    # --- expect100 answered early
    for source in ("agen", "bytes", "bytesio"):
        for answer in ("403", "417", "raise417", "100", "401"):
            for gap in (0, 5):
                for limit1 in (False, True):
                    if ctx.quick and gap == 5 and not limit1:
                        continue
                    out.append({"kind": "expect", "source": source, "answer": answer, "n": rng.choice([10, 3000, 70000]), "parts": rng.choice([1, 2, 4]),
                                "gap": gap, "limit1": limit1, "seg": rng.choice([["whole"], ["k", 100], ["k", 3]]),
                                "seg2": rng.choice([["whole"], ["k", 5]])})
    # --- default expect handler, expectation spelled in any case
    for source in ("agen", "bytes"):
        for spelling in (None, "100-continue", "100-Continue", "100-CONTINUE"):
            out.append({"kind": "expect", "source": source, "answer": "default", "spelling": spelling, "n": rng.choice([10, 3000]),
                        "parts": 2, "gap": 0, "seg": rng.choice([["whole"], ["k", 50]])})
    # --- the sender vanishes in the middle of a message
    for direction in ("down", "up"):
        for framing in ("chunked", "length") + (("eof",) if direction == "down" else ()):
            sizes = [40, 40, 40]
            n = sum(sizes)
            if direction == "down":
                for k in (1, 2):
                    out.append({"kind": "trunc", "dir": "down", "framing": framing, "n": n, "parts": 3, "raise_after": k})
            # chunk frames: "28\r\n" + 40 + "\r\n" = 46 bytes each, then "0\r\n\r\n"
            rels = [-5, 0, 2, 4, 20, 44, 45, 46, 50, 92, 138, 139, 141, 142] if framing == "chunked" else [-5, 0, 1, 60, n - 1]
            if not ctx.quick:
                rels = sorted(set(rels + list(range(0, 144, 3))))
            for rel in rels:
                out.append({"kind": "trunc", "dir": direction, "framing": framing, "n": n, "parts": 3, "kill_rel": rel,
                            "seg": rng.choice([["whole"], ["k", 7], ["k", 46]])})
            out.append({"kind": "trunc", "dir": direction, "framing": framing, "n": n, "parts": 3, "kill_rel": 100000})
    # --- long keep-alive conversations
    def steps(n, mode):
        st = []
        for i in range(n):
            m = mode if mode != "mixed" else rng.choice(["span", "agen", "expect", "agen-expect", "small"])
            if m == "span":
                st.append({"kind": "bytes", "n": rng.choice([1000, 2500])})
            elif m == "agen":
                st.append({"kind": "agen", "n": rng.choice([600, 1500]), "parts": 3, "gap": rng.choice([0, 2])})
            elif m == "expect":
                st.append({"kind": "bytes", "n": 500, "expect100": True})
            elif m == "agen-expect":
                st.append({"kind": "agen", "n": 700, "parts": 2, "expect100": True})
            else:
                st.append({"kind": "bytes", "n": 5})
        return st
    for mode in ("span", "agen", "expect", "agen-expect", "mixed"):
        out.append({"kind": "convo", "steps": steps(45, mode), "seg": ["k", rng.choice([200, 300, 700])]})
    if not ctx.quick:
        for _ in range(12):
            out.append({"kind": "convo", "steps": steps(rng.choice([40, 70, 100]), "mixed"),
                        "seg": rng.choice([["k", 150], ["k", 1000], ["rand", rng.randrange(1 << 30), 300]])})
    return out
