"""C05 — drives the real server protocol (AppRunner(app).server()) over an in-memory transport
that honours pause_reading, on a hand-stepped virtual-time loop, and records
(a) what the real HTTP parser did in each feed_data() call (the model's oracle columns),
(b) the observable projection after every external event (compared with the Lean model),
(c) everything the direct oracle needs (bytes written, close state, tasks, loop exceptions).
"""
import asyncio, heapq, logging, re

from .codec import hx


# ----------------------------------------------------------------------------- loop
UPS = 1024


class Livelock(Exception):
    """callbacks keep rescheduling themselves although virtual time stands still"""


class StepLoop(asyncio.SelectorEventLoop):
    """virtual clock moved only by the harness; `_run_once` never blocks.  The time unit is
    1/1024 s (`UPS` units per second, called "ms" loosely): every clock value and every sum
    aiohttp computes from it (`now + lingering_time`, `now + keepalive_timeout`, ceil()) is then
    exact in binary floating point, so the model's integer arithmetic is the code's arithmetic."""
    EPS = 1e-9

    def __init__(self):
        super().__init__()
        self._ms = 0
        self._vt = 0.0

    def time(self):
        return self._vt

    def run_in_executor(self, executor, func, *args):
        fut = self.create_future()
        try:
            fut.set_result(func(*args))
        except BaseException as e:  # noqa
            fut.set_exception(e)
        return fut

    def _drop_cancelled(self):
        while self._scheduled and self._scheduled[0]._cancelled:
            h = heapq.heappop(self._scheduled)
            h._scheduled = False

    def has_work(self):
        self._drop_cancelled()
        return bool(self._ready) or bool(self._scheduled and self._scheduled[0]._when <= self._vt)

    def next_timer(self):
        self._drop_cancelled()
        return self._scheduled[0]._when if self._scheduled else None

    def iterate(self):
        """one _run_once: everything ready now (and timers already due)"""
        if self.has_work():
            super()._run_once()

    def settle(self, limit=20000):
        n = 0
        while self.has_work():
            super()._run_once()
            n += 1
            if n > limit:
                raise Livelock("loop does not settle")
        return n

    def jump_ms(self, ms):
        """let time pass up to the next timer (at most `ms`) and make the due timers *ready without running them* —
        the first half of one `_run_once`; whatever the harness does next happens in the same loop iteration as
        those timer callbacks, ahead of them (the model's `fire` label)"""
        if any(not h._cancelled for h in self._ready):
            return
        target = self._ms + ms
        w = self.next_timer()
        if w is not None and int(round(w * UPS)) <= target:
            if w > self._vt:
                self._vt = w
            self._ms = max(self._ms, int(round(w * UPS)))
            end = self._vt + self._clock_resolution
            while self._scheduled and self._scheduled[0]._when < end:
                h = heapq.heappop(self._scheduled)
                h._scheduled = False
                if not h._cancelled:
                    self._ready.append(h)
        else:
            self._ms = target
            self._vt = max(self._vt, target / float(UPS))

    def advance_ms(self, ms):
        """let virtual time pass; fire timers in order, settling after each"""
        target = self._ms + ms
        self.settle()
        while True:
            w = self.next_timer()
            if w is None or int(round(w * UPS)) > target:
                break
            if w > self._vt:
                self._vt = w
            self._ms = max(self._ms, int(round(w * UPS)))
            self.settle()
        self._ms = target
        self._vt = max(self._vt, target / float(UPS))
        self.settle()


# ----------------------------------------------------------------------------- transport
class MemTransport(asyncio.Transport):
    def __init__(self, loop, proto, can_pause=True):
        super().__init__()
        self.loop, self.proto = loop, proto
        self.can_pause = can_pause   # False: a transport without flow control (pause_reading raises)
        self.out = bytearray()
        self.closing = False      # close()/abort() called by the server
        self.lost = False         # connection_lost delivered
        self.paused = False
        self.pause_calls = 0
        self.resume_calls = 0
        self.writes_after_close = 0

    def write(self, data):
        if self.closing or self.lost:
            self.writes_after_close += 1
            return
        self.out += bytes(data)

    def writelines(self, l):
        for d in l:
            self.write(d)

    def is_closing(self):
        return self.closing or self.lost

    def close(self):
        if not self.closing and not self.lost:
            self.closing = True
            self.loop.call_soon(self._lost, None)

    def abort(self):
        self.close()

    def _lost(self, exc):
        if not self.lost:
            self.lost = True
            self.proto.connection_lost(exc)

    def pause_reading(self):
        self.pause_calls += 1
        if not self.can_pause:
            raise NotImplementedError
        self.paused = True

    def resume_reading(self):
        self.resume_calls += 1
        if not self.can_pause:
            raise NotImplementedError
        self.paused = False

    def is_reading(self):
        return not self.paused and not self.is_closing()

    def get_extra_info(self, name, default=None):
        return default

    def get_write_buffer_size(self):
        return 0

    def get_write_buffer_limits(self):
        return (0, 65536)

    def set_write_buffer_limits(self, high=None, low=None):
        pass

    def can_write_eof(self):
        return False


# ----------------------------------------------------------------------------- parser recorder
class _Rec:
    """global sink for the recording StreamReader subclass"""
    cur = None


def _patch_streams():
    import aiohttp.http_parser as hp
    from aiohttp.streams import StreamReader
    if getattr(hp.StreamReader, "_c05_rec", False):
        return

    class RecStream(StreamReader):
        _c05_rec = True

        def feed_data(self, data):
            if _Rec.cur is not None and data:
                _Rec.cur.append(("D", self, len(data)))
            return super().feed_data(data)

        def feed_eof(self):
            if _Rec.cur is not None:
                _Rec.cur.append(("F", self, 0))
            return super().feed_eof()

        def set_exception(self, exc, *a, **kw):
            if _Rec.cur is not None:
                _Rec.cur.append(("X", self, 0))
            return super().set_exception(exc, *a, **kw)

    hp.StreamReader = RecStream


def _msg_tok(msg, payload, stream_evs):
    """attributes of one parsed request the server layer looks at (driver format)"""
    from aiohttp.streams import EMPTY_PAYLOAD
    has = payload is not EMPTY_PAYLOAD
    exp = msg.headers.get("Expect", "")
    expect = 0 if not exp else (1 if exp.lower() == "100-continue" else 2)
    if expect == 2:
        try:
            exp.encode("utf-8")
        except UnicodeEncodeError:
            expect = 3
    v11 = tuple(msg.version) == (1, 1)
    vge11 = tuple(msg.version) >= (1, 1)
    nostream = msg.method in ("HEAD", "CONNECT")
    d = sum(1 for k, s, n in stream_evs if s is payload and k == "D")
    f = any(k == "F" for k, s, n in stream_evs if s is payload)
    x = any(k == "X" for k, s, n in stream_evs if s is payload)
    b = lambda v: "1" if v else "0"
    try:   # what BaseRequest.__init__ evaluates on the (lazily validated) URL
        u = msg.url
        if u.absolute:
            u.host, u.scheme, u.relative()
        badurl = False
    except ValueError:
        badurl = True
    return ("m" + b(has) + b(msg.should_close) + b(v11) + b(vge11) + b(nostream) + str(expect) + b(f) + b(x) + b(badurl)
            + "." + str(d))


class Sim:
    """one connection on one fresh server"""

    def __init__(self, cfg, handlers):
        """cfg: dict(keepalive_ms, linger_ms, hcancel). handlers: list of handler programs."""
        import aiohttp
        from aiohttp import web
        _patch_streams()
        logging.disable(logging.CRITICAL)
        self.cfg = cfg
        self.programs = list(handlers)
        self.loop = StepLoop()
        asyncio.set_event_loop(self.loop)
        self.loop_excs = []
        self.loop.set_exception_handler(lambda l, c: self.loop_excs.append(c))
        self.escaped = []         # exceptions leaving data_received / connection_lost
        self.invocations = 0
        self.handler_log = []     # (seq, path) in invocation order
        self.calls = []           # parser oracle columns, one per feed_data call
        self.payload_owner = {}   # id(stream) -> message index (append order in _messages)
        self.n_msgs = 0
        self.upgrade_with_body = False   # an Upgrade request that carries a body was parsed
        self.n_err_entries = 0    # _ErrInfo entries the protocol queued (parser raised HttpProcessingError)
        self.kinds = []           # per message index: normal / head / connect
        self.inflight_log = []
        self.max_q = 0
        self.delivered = 0
        web_ = web

        async def handler(request):
            return await self._handle(request)
        scripted = handler

        @web.middleware
        async def every_request(request, handler):
            return await _every(request, handler)

        async def _every(request, inner):
            # every parsed request reaches the scripted handler, whatever the router thinks of its target;
            # pre-handler (parser) errors keep aiohttp's own path (MatchInfoError → HTTPBadRequest)
            if request._pre_handler_error is not None:
                return await inner(request)
            return await scripted(request)

        app = web.Application(middlewares=[every_request])
        app.router.add_route("*", "/{tail:.*}", handler)
        self.runner = web.AppRunner(app, access_log=None, handler_cancellation=bool(cfg.get("hcancel")),
                                    keepalive_timeout=cfg.get("keepalive_ms", 75000) / float(UPS),
                                    lingering_time=cfg.get("linger_ms", 10000) / float(UPS),
                                    shutdown_timeout=cfg.get("shutdown_ms", 61440) / float(UPS),
                                    **({"read_bufsize": int(cfg["read_bufsize"])} if cfg.get("read_bufsize") else {}))
        self.loop.run_until_complete(self.runner.setup())
        asyncio.events._set_running_loop(self.loop)
        import threading
        self.loop._thread_id = threading.get_ident()   # loop.is_running() → eager task start, as under a real transport
        self.proto = self.runner.server()
        self.tr = MemTransport(self.loop, self.proto, can_pause=not cfg.get("no_pause"))
        self.proto.connection_made(self.tr)
        self.start_task = self.proto._task_handler
        self.cleanup_task = None
        self._wrap_parser()
        self._web = web_

    # -- the handler: the n-th invocation runs the n-th program
    async def _handle(self, request):
        from aiohttp import web
        n = self.invocations
        self.invocations += 1
        prog = self.programs[n] if n < len(self.programs) else "ok"
        self.handler_log.append((n, request.raw_path if hasattr(request, "raw_path") else "?"))
        hdrs = {"X-Seq": str(n), "X-Path": request.raw_path.encode("utf-8", "surrogateescape").hex() or "-"}
        stream = None
        for op in prog.split("."):
            if op[0] == "S":
                await asyncio.sleep(int(op[1:]) / float(UPS))
            elif op == "R":
                await request.read()
            elif op in ("P", "W") and request.method in ("HEAD", "CONNECT"):
                pass
            elif op in ("P", "Q") and request.method in ("HEAD", "CONNECT"):
                pass
            elif op in ("P", "Q"):
                stream = web.StreamResponse(headers=hdrs)
                await stream.prepare(request)
                if op == "P":
                    await stream.write(b"x" * 5)
            elif op == "W":
                await stream.write(b"y" * 3)
            elif op == "ok":
                if stream is not None:
                    await stream.write_eof()
                    return stream
                return web.Response(text="ok", headers=hdrs)
            elif op == "fc":
                r = web.Response(text="ok", headers=hdrs)
                r.force_close()
                return r
            elif op == "E403":
                raise web.HTTPForbidden(headers=hdrs)
            elif op == "Ex":
                raise RuntimeError("boom")
            elif op == "Et":
                raise asyncio.TimeoutError()
            elif op == "Ec":
                raise asyncio.CancelledError()
            elif op == "none":
                return None
            else:
                raise AssertionError("bad handler op " + op)
        return web.Response(text="ok", headers=hdrs)

    # -- recording wrapper around the real parser
    def _wrap_parser(self):
        parser = self.proto._parser
        real = parser.feed_data
        from aiohttp.http_exceptions import HttpProcessingError
        from aiohttp.streams import EMPTY_PAYLOAD
        sim = self
        self._keep = []

        def feed_data(data, *a, **kw):
            _Rec.cur = evs = []
            before = parser._msg_in_flight
            raised = None
            try:
                msgs, upgraded, tail = real(data, *a, **kw)
            except BaseException as e:  # noqa
                raised = e
            _Rec.cur = None
            toks = []
            olds = {}
            for k, s, n in evs:
                i = sim.payload_owner.get(id(s))
                if i is not None:
                    o = olds.setdefault(i, [0, False, False])
                    if k == "D":
                        o[0] += 1
                    elif k == "F":
                        o[1] = True
                    else:
                        o[2] = True
            for i in sorted(olds):
                c, f, x = olds[i]
                toks.append(f"p{i}.{c}.{'1' if f else '0'}{'1' if x else '0'}")
            if raised is None:
                for m, p in msgs:
                    toks.append(_msg_tok(m, p, evs))
                    sim.kinds.append("head" if m.method == "HEAD" else "connect" if m.method == "CONNECT" else "normal")
                    if m.upgrade and p is not EMPTY_PAYLOAD:
                        sim.upgrade_with_body = True
                    if p is not EMPTY_PAYLOAD:
                        sim.payload_owner[id(p)] = sim.n_msgs
                        sim._keep.append(p)
                    sim.n_msgs += 1
                toks.append(f"u{'1' if upgraded else '0'}")
                toks.append(f"t{len(tail)}")
            elif isinstance(raised, HttpProcessingError):
                toks.append(f"!{parser._msg_in_flight - before}")
                sim.kinds.append("normal")
                sim.n_msgs += 1   # the _ErrInfo entry
                sim.n_err_entries += 1
            else:
                toks.append("!!" + type(raised).__name__)
            sim.calls.append(",".join(toks))
            sim.inflight_log.append(parser._msg_in_flight)
            if raised is not None:
                raise raised
            return msgs, upgraded, tail

        parser.feed_data = feed_data

    # -- external events
    def data(self, b):
        """returns False when the transport is paused/closed (the segment stays with the peer)"""
        if self.tr.paused or self.tr.closing or self.tr.lost:
            return False
        try:
            self.proto.data_received(b)
        except BaseException as e:  # noqa
            self.escaped.append(type(e).__name__)
        self.delivered += len(b)
        return True

    def peer_close(self):
        if self.tr.lost:
            return
        try:
            self.tr._lost(None)
        except BaseException as e:  # noqa
            self.escaped.append(type(e).__name__)

    def write_pause(self, on):
        """the transport's write buffer crossed its high / low water mark"""
        try:
            if on and not self.proto._paused:
                self.proto.pause_writing()
            elif not on and self.proto._paused:
                self.proto.resume_writing()
        except BaseException as e:  # noqa
            self.escaped.append(type(e).__name__)

    def app_shutdown(self):
        """the application shuts down (`runner.cleanup()`: pre_shutdown, Server.shutdown(shutdown_timeout)) while this
        connection exists; the coroutine runs on the stepped loop like everything else"""
        if self.cleanup_task is None:
            self.cleanup_task = self.loop.create_task(self.runner.cleanup())

    def tick(self):
        self.loop.iterate()

    def settle(self):
        self.loop.settle()

    def advance(self, ms):
        self.loop.advance_ms(ms)

    def jump(self, ms):
        self.loop.jump_ms(ms)

    # -- observation
    def now_ms(self):
        return self.loop._ms

    def live_tasks(self):
        return [t for t in asyncio.all_tasks(self.loop) if not t.done()]

    def obs(self):
        p = self.proto
        rs, partial = frame_responses(bytes(self.tr.out), self.kinds)
        codes = ".".join(str(r["status"]) for r in rs) or "-"
        w = p._waiter is not None and not p._waiter.done()
        return (f"r={codes} part={partial} cl={'1' if self.tr.closing or self.tr.lost else '0'} "
                f"lost={'1' if self.tr.lost else '0'} q={len(p._messages)} pa={'1' if self.tr.paused else '0'} "
                f"w={'1' if w else '0'} c={len(self.calls)} f={p._parser._msg_in_flight if p._parser is not None else '-'} "
                f"x={len(self.loop_excs) + len(self.escaped) + (1 if self.task_exc() is not None else 0)}")

    def task_exc(self):
        """the exception that ended the connection task start(), if any (reading it also keeps asyncio from
        reporting it later as 'Task exception was never retrieved' — it is counted here instead)"""
        t = self.start_task
        if t is None or not t.done() or t.cancelled():
            return None
        return t.exception()

    def close(self):
        try:
            for t in self.live_tasks():
                t.cancel()
            self.loop.settle()
        except BaseException:
            pass
        self.loop._thread_id = None
        asyncio.events._set_running_loop(None)
        try:
            if self.cleanup_task is None or not self.cleanup_task.done() or self.cleanup_task.cancelled():
                self.loop.run_until_complete(self.runner.cleanup())
        except BaseException:
            pass
        asyncio.set_event_loop(None)
        self.loop.close()
        logging.disable(logging.NOTSET)


# ----------------------------------------------------------------------------- response framer
_STATUS = re.compile(rb"HTTP/\d\.\d (\d{3}) [^\r\n]*\Z")
_FIELD = re.compile(rb"([!#$%&'*+\-.^_`|~0-9A-Za-z]+):[ \t]*([^\r\n\x00]*?)[ \t]*\Z")


def frame_responses(out, kinds=()):
    """independent reader of the server's byte stream (RFC 9112 response framing).
    → (list of complete responses, partial) where partial is
    '0' (nothing left), 'h' (incomplete header block), 'b<status>' (header block complete, body incomplete),
    'bad' (bytes that are not a well-formed response)."""
    rs, i, idx = [], 0, 0
    n = len(out)
    while i < n:
        j = out.find(b"\r\n\r\n", i)
        if j < 0:
            rest = out[i:]
            # must still look like the beginning of a response
            first = rest.split(b"\r\n")[0]
            if len(first) >= 5 and not first.startswith(b"HTTP/"):
                return rs, "bad"
            return rs, "h"
        lines = out[i:j].split(b"\r\n")
        m = _STATUS.match(lines[0])
        if not m:
            return rs, "bad"
        status = int(m.group(1))
        hs = []
        for l in lines[1:]:
            fm = _FIELD.match(l)
            if not fm:
                return rs, "bad"
            hs.append((fm.group(1).lower(), fm.group(2)))
        body_start = j + 4
        d = {}
        for k, v in hs:
            d.setdefault(k, []).append(v)
        if 100 <= status < 200:
            rs_entry = {"status": status, "headers": d, "body": b"", "interim": True}
            rs.append(rs_entry)
            i = body_start
            continue
        kind = kinds[idx] if idx < len(kinds) else "normal"
        if kind == "head" or status in (204, 304) or (kind == "connect" and 200 <= status < 300):
            body, end = b"", body_start
        elif b"transfer-encoding" in d:
            if d[b"transfer-encoding"][-1].lower() != b"chunked" or b"content-length" in d:
                return rs, "bad"
            body, end = bytearray(), None
            k = body_start
            while True:
                e = out.find(b"\r\n", k)
                if e < 0:
                    return rs, f"b{status}"
                if not re.fullmatch(rb"[0-9a-fA-F]+", out[k:e]):
                    return rs, "bad"
                size = int(out[k:e], 16)
                k = e + 2
                if size == 0:
                    if out[k:k + 2] == b"\r\n":
                        end = k + 2
                        break
                    if len(out) < k + 2:
                        return rs, f"b{status}"
                    return rs, "bad"
                if len(out) < k + size + 2:
                    return rs, f"b{status}"
                if out[k + size:k + size + 2] != b"\r\n":
                    return rs, "bad"
                body += out[k:k + size]
                k += size + 2
            body = bytes(body)
        elif b"content-length" in d:
            cl = d[b"content-length"]
            if len(set(cl)) != 1 or not cl[0].isdigit():
                return rs, "bad"
            ln = int(cl[0])
            if n < body_start + ln:
                return rs, f"b{status}"
            body, end = out[body_start:body_start + ln], body_start + ln
        else:
            # close-delimited: everything up to the end of the stream belongs to this response
            rs.append({"status": status, "headers": d, "body": out[body_start:], "interim": False, "until_close": True,
                       "http10": lines[0].startswith(b"HTTP/1.0 ")})
            return rs, "0"
        rs.append({"status": status, "headers": d, "body": body, "interim": False})
        idx += 1
        i = end
    return rs, "0"
