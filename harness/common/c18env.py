"""C18 environment: deterministic virtual-time loop, in-memory transport, scripted resolver and
connect stubs, and `run_scenario` which drives the REAL ClientSession / TCPConnector /
ResponseHandler through one scripted exchange and reports canonical observables.

Scenario (JSON-serialisable dict, every time in absolute virtual milliseconds, -1 = never):
  t0          start of the request under test R
  total/connect/sock_connect/sock_read   ClientTimeout fields in ms or None
  holder      None | ms | -1   another request (host h.test) holds the only pool slot (limit=1)
                               until its response arrives at `holder`
  co          None | "pool" | "dnsfirst" | "dnswait"  co-request C on the same host as R:
              pool: queued behind R for the slot; dnsfirst: C started 1 ms before R and owns the
              shared lookup; dnswait: C started 1 ms after R and waits on R's lookup
  dns         None (literal IP cached beforehand: no lookup) | ms | -1   answer time of the lookup
              dnsafter: C starts at `c_at` (>= t0), in the same callback AFTER a cancel scheduled for that
              instant and `c_late` loop iterations later (0..3) — a request that joins the lookup of R
              after R was cancelled / timed out
  dns_unwind  ms the scripted resolver needs to unwind when ITS task is cancelled (never happens on
              the unchanged tree: the shared lookup is shielded)
  tls         None (plain http) | list of ms|-1: https request; completion time of the TLS handshake
              of each successive connect attempt (after its TCP connect completed)
  naddr       number of addresses the resolver returns (1 or 2)
  conn        list of ms|-1: completion time of each successive connect attempt
  body        0 | n   request body size;   wresume  None | ms | -1: the transport pauses writing at
              the first write and resumes at `wresume`
  resp        list of [ms, hex]: response bytes delivered to R's connection (dropped when there
              is no open connection of R at that instant)
  peof        None | ms          the peer closes the connection (EOF) at that instant — end of a
                                 close-delimited response body
  cancel      None | ms          Task.cancel() of R at that instant; events listed at the same
                                 instant are performed BEFORE the cancel in the same callback
  expect100   1: the request is sent with `Expect: 100-continue` (body only after a 1xx arrived); with `wresume` the
              transport then pauses at the body write instead of the head write
  ceil_thr    None | ms: ClientTimeout.ceil_threshold (default 5000)
  per_request 1: the timeouts are passed with the request (`timeout=`); the session default carries other, much
              shorter connect/sock_connect/sock_read bounds that must not apply
  c0          0|1|2: Task.cancelling() of the calling task when it starts the request (pre-cancelled and caught)
  think       ms the consumer sleeps after the headers before reading the body
  consume     None: `await resp.read()` | "stream": `while await resp.content.readany()` inside `async with` |
              "early": leaves the `async with` block after the first chunk (the rest of the body is not read)
  redirect    1: the first response in `resp` (up to its eof piece) is a 302 to another host; the request goes on
              there on a new connection (`conn[1]`), the remaining `resp` entries belong to that second hop
  slow        1: the consumer streams instead: readany(), sleep `think`, readany(), ... until EOF
  bufsize     read_bufsize of the session (pause threshold = 2*bufsize)
"""
import asyncio, heapq, itertools, socket
from . import vloop

T_OBS = 400_000      # ms: observation instant (beyond every timeout and scripted event)
T_END = 900_000


class DLoop(vloop.VLoop):
    """VLoop whose timers with equal deadlines fire in creation order (deterministic)."""

    def __init__(self):
        super().__init__()
        self._seq = itertools.count()
        self._seqmap = {}

    def call_at(self, when, callback, *args, context=None):
        when = round(when * 1000) / 1000.0     # virtual time is integer milliseconds (no float noise in ties)
        h = super().call_at(when, callback, *args, context=context)
        self._seqmap[id(h)] = next(self._seq)
        return h

    def _run_once(self):
        while self._scheduled and self._scheduled[0]._cancelled:
            h = heapq.heappop(self._scheduled)
            h._scheduled = False
            self._seqmap.pop(id(h), None)
        if not self._ready and self._scheduled:
            when = self._scheduled[0]._when
            if when > self._vt:
                self._vt = when
        end = self._vt + self._clock_resolution
        due = []
        while self._scheduled and self._scheduled[0]._when < end:
            h = heapq.heappop(self._scheduled)
            h._scheduled = False
            if not h._cancelled:
                due.append((h._when, self._seqmap.pop(id(h), 0), h))
            else:
                self._seqmap.pop(id(h), None)
        due.sort(key=lambda e: e[:2])
        due = [e[2] for e in due]
        self._ready.extend(due)
        super()._run_once()


class MemTransport(asyncio.Transport):
    def __init__(self, loop, proto, owner):
        super().__init__()
        self.loop, self.proto, self.owner = loop, proto, owner
        self.out = bytearray()
        self.closing = False
        self.closed = False
        self.rpaused = False
        self.auto = owner != "R"      # auto-respond to complete request heads
        self.hold = False             # holder: respond only when released
        self.pause_on_write = False
        self.pause_from_write = 1   # pause at this (1-based) write call: 2 = let the request head through
        self.nwrites = 0
        self.wpaused = False
        self.answered = 0
        self.rqueue = []
        self.lost_pending = False
        self.marks = None     # env trace list for pause/resume of reading
        self.delivered = None # env trace list of instants at which bytes reached the protocol

    # -- transport API
    def write(self, data):
        if self.closing:
            return
        self.out += bytes(data)
        self.nwrites += 1
        if self.pause_on_write and not self.wpaused and self.nwrites >= self.pause_from_write:
            self.pause_on_write = False
            self.wpaused = True
            self.proto.pause_writing()
        if self.auto and not self.hold:
            self.loop.call_soon(self.autorespond)

    def writelines(self, l):
        for d in l:
            self.write(d)

    def autorespond(self):
        n = bytes(self.out).count(b"\r\n\r\n")
        while self.answered < n and not self.closing:
            self.answered += 1
            self.feed(b"HTTP/1.1 200 OK\r\nContent-Length: 2\r\n\r\nok")

    def resume_writing_now(self):
        if self.wpaused and not self.closed:
            self.wpaused = False
            if self.lost_pending:
                self.lost_pending = False
                self.loop.call_soon(self._lost, None)
            elif not self.closing:
                self.proto.resume_writing()

    def feed(self, data):
        if self.closed or self.closing:
            return False
        if self.rpaused:
            self.rqueue.append(data)      # a paused transport delivers nothing
            return "queued"
        self.proto.data_received(data)
        return True

    def _flush(self):
        while self.rqueue and not self.rpaused and not self.closing:
            if self.delivered is not None:
                self.delivered.append(int(round(self.loop.time() * 1000)))
            self.proto.data_received(self.rqueue.pop(0))

    def is_closing(self):
        return self.closing

    def close(self):
        # like _SelectorSocketTransport.close(): with unsent data in the write buffer (the peer
        # does not read: we are above the high-water mark) connection_lost() is delivered only
        # once the buffer has been flushed — for a peer that never reads: never.
        if not self.closing:
            self.closing = True
            if self.wpaused:
                self.lost_pending = True
            else:
                self.loop.call_soon(self._lost, None)

    def abort(self):
        if not self.closed:
            self.closing = True
            self.lost_pending = False
            self.loop.call_soon(self._lost, None)

    def peer_eof(self):
        """the peer closed its side: asyncio delivers eof_received() (None → close) and connection_lost(None)"""
        if self.closed or self.closing:
            return False
        self.closing = True
        self.proto.eof_received()
        self.loop.call_soon(self._lost, None)
        return True

    def _lost(self, exc):
        if not self.closed:
            self.closed = True
            self.proto.connection_lost(exc)

    def pause_reading(self):
        self.rpaused = True
        if self.marks is not None:
            self.marks.append([int(round(self.loop.time() * 1000)), "p"])

    def resume_reading(self):
        if self.rpaused and self.marks is not None:
            self.marks.append([int(round(self.loop.time() * 1000)), "r"])
        self.rpaused = False
        if self.rqueue:
            self.loop.call_soon(self._flush)

    def get_extra_info(self, name, default=None):
        return default

    def get_write_buffer_size(self):
        return 0

    def set_write_buffer_limits(self, high=None, low=None):
        pass


class FakeSock:
    def __init__(self):
        self.closed = False

    def close(self):
        self.closed = True


class Env:
    """scripted peer: resolver, connect stubs, transports"""

    def __init__(self, loop, sc):
        self.loop, self.sc = loop, sc
        self.dns_pending = []      # futures of stalled lookups
        self.dns_calls = 0
        self.conn_futs = []        # R's connect attempts (futures)
        self.tls_futs = []         # R's TLS handshakes (futures)
        self.transports = []
        self.socks = []
        self.unstalled = False
        self.trace = {"attempts": [], "established": [], "delivered": [], "eof_at": None, "abandoned": [], "pauses": [], "tls_started": [], "lookup_cancelled": None}

    def now(self):
        return int(round(self.loop.time() * 1000))

    def owner(self):
        t = asyncio.current_task()
        return t.get_name() if t is not None else "?"

    # resolver (AbstractResolver duck type)
    async def resolve(self, host, port=0, family=socket.AF_INET):
        if host == "r.test":
            self.dns_calls += 1
        n = self.sc.get("naddr", 1) if host == "r.test" else 1
        res = [{"hostname": host, "host": f"10.0.0.{i + 1}", "port": port, "family": socket.AF_INET,
                "proto": 0, "flags": socket.AI_NUMERICHOST} for i in range(n)]
        if host == "r.test" and self.sc.get("dns") is not None and not self.unstalled:
            fut = self.loop.create_future()
            self.dns_pending.append(fut)
            try:
                await fut
            except asyncio.CancelledError:
                self.trace["lookup_cancelled"] = self.now()
                if self.sc.get("dns_unwind"):
                    try:
                        await asyncio.sleep(self.sc["dns_unwind"] / 1000.0)
                    except asyncio.CancelledError:
                        pass
                raise
        return res

    async def close(self):
        pass

    def dns_answer(self):
        for f in self.dns_pending:
            if not f.done():
                f.set_result(None)
        self.dns_pending.clear()

    async def start_connection(self, addr_infos, **kw):
        sock = FakeSock()
        self.socks.append(sock)
        if self.owner() == "R" and not self.unstalled:
            if self.sc.get("redirect") and self.conn_futs and "hop2_start" not in self.trace:
                # second hop: its own exchange trace (the first hop's is kept under hop1_*)
                self.trace["hop1_eof_at"] = self.trace["eof_at"]
                self.trace["hop2_start"] = self.now()
                self.trace["eof_at"] = None
                self.trace["delivered"] = []
                self.trace["established"] = []
                self.trace["attempts"] = []
                self.trace["abandoned"] = []
            fut = self.loop.create_future()
            self.conn_futs.append(fut)
            self.trace["attempts"].append(self.now())
            try:
                await fut
            except BaseException:
                self.trace["abandoned"].append(self.now())
                sock.close()
                raise
        return sock

    def tls_complete(self, i):
        if i < len(self.tls_futs) and not self.tls_futs[i].done():
            self.tls_futs[i].set_result(None)

    def conn_complete(self, i):
        if i < len(self.conn_futs) and not self.conn_futs[i].done():
            self.conn_futs[i].set_result(None)

    async def create_connection(self, loop, protocol_factory, *, ssl=None, sock=None, server_hostname=None,
                                ssl_shutdown_timeout=None):
        if self.owner() == "R" and self.sc.get("tls") is not None and not self.unstalled:
            # TCP is up; the TLS handshake happens here and the scripted peer may stall it
            fut = self.loop.create_future()
            self.tls_futs.append(fut)
            self.trace["tls_started"].append(self.now())
            try:
                await fut
            except BaseException:
                self.trace["abandoned"].append(self.now())
                if sock is not None:
                    sock.close()
                raise
        proto = protocol_factory()
        tr = MemTransport(self.loop, proto, self.owner())
        tr.sock = sock
        if tr.owner == "H":
            tr.hold = True
        if tr.owner == "R" and self.sc.get("wresume") is not None and not self.unstalled:
            tr.pause_on_write = True
            if self.sc.get("expect100"):
                tr.pause_from_write = 2      # the head goes out, the body (after 100 Continue) hits the full buffer
        self.transports.append(tr)
        if tr.owner == "R":
            self.trace["established"].append(self.now())
            tr.marks = self.trace["pauses"]
            tr.delivered = self.trace["delivered"]
        proto.connection_made(tr)
        return tr, proto

    def r_transport(self):
        for tr in reversed(self.transports):
            if tr.owner == "R":
                return tr
        return None


def _classify(e):
    import aiohttp
    if isinstance(e, asyncio.CancelledError):
        return "E_CANCELLED"
    if isinstance(e, aiohttp.ConnectionTimeoutError):
        return "E_CONN_TIMEOUT"
    if isinstance(e, aiohttp.SocketTimeoutError):
        return "E_SOCK_TIMEOUT"
    if type(e) is TimeoutError:
        return "E_TIMEOUT"
    return f"E_OTHER({type(e).__name__})"


def ms(loop):
    return int(round(loop.time() * 1000))


def run_scenario(sc):
    """returns dict of canonical observables (see keys below)"""
    import aiohttp
    import aiohttp.connector as cmod

    loop = DLoop()
    asyncio.set_event_loop(loop)
    excs = []
    loop.set_exception_handler(lambda l, c: excs.append(c))
    env = Env(loop, sc)
    saved = (cmod.aiohappyeyeballs.start_connection, cmod.create_connection)
    out = {}

    def sec(v):
        return None if v is None else v / 1000.0

    async def main():
        limit = 1 if (sc.get("holder") is not None or sc.get("co") == "pool") and sc.get("limit", 1) else 0
        if sc.get("limit") is not None:
            limit = sc["limit"]
        conn = aiohttp.TCPConnector(limit=limit, resolver=env, use_dns_cache=True, ttl_dns_cache=None)
        conn._resolver_owner = False
        tkw = {} if sc.get("ceil_thr") is None else {"ceil_threshold": sc["ceil_thr"] / 1000.0}
        tmo = aiohttp.ClientTimeout(total=sec(sc.get("total")), connect=sec(sc.get("connect")),
                                    sock_connect=sec(sc.get("sock_connect")), sock_read=sec(sc.get("sock_read")), **tkw)
        res = {"R": None, "C": None, "H": None, "F": None, "G": None}
        at = {}
        # per_request: R's timeouts are given with the request (`timeout=`); the session default is a different object
        # with bounds that must NOT apply (short connect/sock_read that would fire first, no total)
        sess_tmo = tmo if not sc.get("per_request") else aiohttp.ClientTimeout(total=None, connect=0.05, sock_connect=0.05,
                                                                               sock_read=0.05)
        session = aiohttp.ClientSession(connector=conn, timeout=sess_tmo, read_bufsize=sc.get("bufsize", 65536))
        rhost = "r.test" if sc.get("dns") is not None else "10.0.0.1"

        async def job(name, url, data=None, think=0, timeout=None):
            if name == "R":
                # a calling task that already carries handled cancellation requests (cancelling() = c0):
                # cancelled and caught earlier, never uncancel()ed — e.g. a request made from a shutdown handler
                me = asyncio.current_task()
                for _ in range(sc.get("c0", 0)):
                    me.cancel()
                    try:
                        await asyncio.sleep(0)
                    except asyncio.CancelledError:
                        pass
                at["c_before"] = me.cancelling()
            try:
                kw = {} if timeout is None else {"timeout": timeout}
                if name == "R" and sc.get("expect100"):
                    kw["expect100"] = True
                async with session.request("POST" if data else "GET", url, data=data, **kw) as r:
                    if name == "R":
                        at["headers"] = ms(loop)
                    if name == "R" and sc.get("slow"):
                        # slow streaming consumer: one readany(), then busy elsewhere for `think` ms
                        while True:
                            chunk = await r.content.readany()
                            if not chunk:
                                break
                            await asyncio.sleep(think / 1000.0)
                        body = b""
                    elif name == "R" and sc.get("consume") in ("stream", "early"):
                        # the caller consumes resp.content itself inside `async with`: an exception (timeout,
                        # cancellation) or an early exit leaves through __aexit__ → release() / wait_for_close(),
                        # not through ClientResponse.read()'s own `except: self.close()`
                        if think:
                            await asyncio.sleep(think / 1000.0)
                        while True:
                            chunk = await r.content.readany()
                            if not chunk or sc["consume"] == "early":
                                break
                        body = b""
                    else:
                        if think:
                            await asyncio.sleep(think / 1000.0)
                        body = await r.read()
                res[name] = "ok" if (name == "R" or body == b"ok") else "E_OTHER(body)"
            except BaseException as e:  # noqa
                res[name] = _classify(e)
            at[name] = ms(loop)
            if name == "R":
                at["c_after"] = asyncio.current_task().cancelling()

        tasks = {}

        def spawn(name, url, **kw):
            t = loop.create_task(job(name, url, **kw), name=name)
            tasks[name] = t

        # ---------------------------------------------------------------- timeline
        events = []   # (ms, order, fn)
        t0 = sc["t0"]
        long = aiohttp.ClientTimeout(total=None)
        if sc.get("holder") is not None:
            events.append((0, 0, lambda: spawn("H", "http://h.test/", timeout=long)))
            if sc["holder"] >= 0:
                def rel():
                    for tr in env.transports:
                        if tr.owner == "H":
                            tr.hold = False
                            tr.autorespond()
                events.append((sc["holder"], 1, rel))
        body = (b"x" * sc["body"]) if sc.get("body") else None
        scheme = "https" if sc.get("tls") is not None else "http"
        start_r = lambda: spawn("R", f"{scheme}://{rhost}/", data=body, think=sc.get("think", 0),
                                timeout=(tmo if sc.get("per_request") else None))
        start_c = lambda: spawn("C", f"http://{rhost}/", timeout=long)
        co = sc.get("co")
        if co == "dnsfirst":
            events.append((t0 - 1, 2, start_c))
        events.append((t0, 3, start_r))
        if co in ("pool", "dnswait"):
            events.append((t0 + 1, 2, start_c))
        if co == "dnsafter":
            def start_c_late(k=sc.get("c_late", 0)):
                if k <= 0:
                    start_c()
                else:
                    loop.call_soon(start_c_late, k - 1)
            events.append((sc["c_at"], 1001, start_c_late))
        for i, t in enumerate(sc.get("tls") or []):
            if t >= 0:
                events.append((t, 5, lambda i=i: env.tls_complete(i)))
        if sc.get("dns") is not None and sc["dns"] >= 0:
            events.append((sc["dns"], 4, env.dns_answer))
        for i, t in enumerate(sc.get("conn", [])):
            if t >= 0:
                events.append((t, 5, lambda i=i: env.conn_complete(i)))
        if sc.get("wresume") is not None and sc["wresume"] >= 0:
            def wres():
                tr = env.r_transport()
                if tr is not None:
                    tr.resume_writing_now()
            events.append((sc["wresume"], 6, wres))
        for j, q in enumerate(sc.get("resp", [])):
            t, hx, last = q[0], q[1], (q[2] if len(q) > 2 else 0)

            hop2 = bool(sc.get("redirect")) and any((len(x) > 2 and x[2]) for x in sc.get("resp", [])[:j])

            def deliver(hx=hx, last=last, hop2=hop2):
                tr = env.r_transport()
                if hop2 and sum(1 for x in env.transports if x.owner == "R") < 2:
                    return        # bytes of the second hop's peer: there is no second connection (yet)
                if tr is not None:
                    if last and not tr.closing:
                        # the scripted exchange is over: whoever reuses this connection gets answers
                        tr.answered = bytes(tr.out).count(b"\r\n\r\n")
                        tr.auto = True
                    fed = tr.feed(bytes.fromhex(hx))
                    if fed:
                        if fed is True:
                            env.trace["delivered"].append(ms(loop))
                        if last:
                            env.trace["eof_at"] = ms(loop)
            events.append((t, 7 + j, deliver))
        if sc.get("peof") is not None:
            def peof():
                tr = env.r_transport()
                if tr is not None and tr.peer_eof():
                    env.trace["eof_at"] = ms(loop)
            events.append((sc["peof"], 900, peof))
        if sc.get("cancel") is not None:
            def cancel_now():
                if "R" in tasks:
                    tasks["R"].cancel()

            def cancel():
                if sc.get("cancel_late"):
                    loop.call_soon(cancel_now)     # one iteration later: after the holder's task ran
                else:
                    cancel_now()
            events.append((sc["cancel"], 1000, cancel))
        events.sort(key=lambda e: (e[0], e[1]))
        by_time = {}
        for t, _, fn in events:
            by_time.setdefault(t, []).append(fn)

        def fire(fns):
            for fn in fns:
                fn()
        for t in sorted(by_time):
            loop.call_at(t / 1000.0, fire, by_time[t])

        # ---------------------------------------------------------------- observe
        await asyncio.sleep(T_OBS / 1000.0 - loop.time())
        cur = asyncio.current_task()
        lookup_tasks = set(conn._resolve_host_tasks)
        live = []
        for t in asyncio.all_tasks(loop):
            if t is cur or t.done():
                continue
            nm = t.get_name()
            if nm in ("H", "C") and res[nm] is None:
                continue          # environment actors that are legitimately still waiting
            if t in lookup_tasks:
                continue          # the connector's shared lookup (reported separately)
            live.append(nm if nm in ("R", "H", "C") else "task")
        h_holding = 1 if (sc.get("holder") is not None and res["H"] is None) else 0
        if co in ("dnsfirst", "dnswait", "dnsafter") and res["C"] is None and "C" in tasks:
            h_holding += 1        # the co-request's own placeholder while it waits for the lookup
        out.update(
            r=res["R"] or "pending", r_at=at.get("R", -1), hdr_at=at.get("headers", -1),
            c=res["C"] or ("pending" if co else "none"),
            acquired=len(conn._acquired) - h_holding,
            waiters=sum(len(v) for v in conn._waiters.values()),
            pooled_r=sum(1 for k, v in conn._conns.items() for p, _ in v
                         if p.transport is not None and getattr(p.transport, "owner", "") == "R"),
            open_r=sum(1 for tr in env.transports if tr.owner == "R" and not tr.closing),
            open_socks=sum(1 for s, in [(s,) for s in env.socks] if not s.closed and not any(getattr(tr, "sock", None) is s for tr in env.transports)),
            live=sorted(live),
            dns_waiters=sum(len(v) for v in conn._throttle_dns_futures.values()),
            lookups=len(lookup_tasks),
            dns_calls=env.dns_calls,
            trace=env.trace, c_before=at.get("c_before", -1), c_after=at.get("c_after", -1),
            eff_total=None if tmo.total is None else int(round(tmo.total * 1000)),
            c_waits_dns=1 if (co in ("dnsfirst", "dnswait", "dnsafter") and res["C"] is None and "C" in tasks
                              and conn._throttle_dns_futures) else 0,
        )
        # ---------------------------------------------------------------- follow-up: peer un-stalls
        env.unstalled = True
        env.dns_answer()
        for i in range(len(env.conn_futs)):
            env.conn_complete(i)
        for i in range(len(env.tls_futs)):
            env.tls_complete(i)
        for tr in env.transports:
            tr.resume_writing_now()
            if tr.owner == "H":
                tr.hold = False
                tr.autorespond()
            tr.auto = True
        await asyncio.sleep(1)
        ft = aiohttp.ClientTimeout(total=50)
        spawn("F", f"http://{rhost}/", timeout=ft)
        spawn("G", "http://g.test/", timeout=ft)
        await asyncio.sleep(100)
        out["follow"] = (res["F"] or "pending") if out["r"] != "pending" else "n/a"
        out["follow_other"] = res["G"] or "pending"
        out["c_final"] = res["C"] or ("pending" if co else "none")
        for t in tasks.values():
            if not t.done():
                t.cancel()
        await asyncio.sleep(0)
        await session.close()
        return out

    cmod.aiohappyeyeballs.start_connection = env.start_connection
    cmod.create_connection = env.create_connection
    try:
        task = loop.create_task(main(), name="main")
        task.add_done_callback(lambda t: loop.stop())
        loop.run_forever()
        if not task.done():
            out["harness"] = "quiescent"
        elif task.exception() is not None:
            out["harness"] = "E_OTHER(" + type(task.exception()).__name__ + ")"
            out["harness_detail"] = repr(task.exception())
        out["loop_excs"] = len([c for c in excs if "Unclosed" not in str(c.get("message", ""))])
        out["unclosed"] = len([c for c in excs if "Unclosed" in str(c.get("message", ""))])
        return out
    finally:
        cmod.aiohappyeyeballs.start_connection, cmod.create_connection = saved
        loop.stop_on_quiescence = False
        try:
            pending = [t for t in asyncio.all_tasks(loop) if not t.done()]
            for t in pending:
                t.cancel()
            if pending:
                loop.run_until_complete(asyncio.gather(*pending, return_exceptions=True))
        except BaseException:
            pass
        asyncio.set_event_loop(None)
        loop.close()


# ---------------------------------------------------------------------------------------------
# WebSocket close under a stalled peer (C18: "… or during a WebSocket close")

def run_ws_scenario(sc):
    """sc: arg = ["default"] | ["obj", ws_receive|None, ws_close|None] | ["float", ws_close]   (ms)
           recv = None | ms           deprecated receive_timeout= argument
           close_at = ms              the caller calls ws.close() (handshake is answered at once)
           peer = -1 | ms             the peer answers the CLOSE frame at that instant (-1: stays silent)
           cancel = None | ms         Task.cancel() of the caller
    returns canonical observables"""
    import base64, hashlib, warnings
    import aiohttp
    import aiohttp.connector as cmod

    loop = DLoop()
    asyncio.set_event_loop(loop)
    excs = []
    loop.set_exception_handler(lambda l, c: excs.append(c))
    env = Env(loop, {"dns": None})
    saved = (cmod.aiohappyeyeballs.start_connection, cmod.create_connection)
    out = {}

    def sec(v):
        return None if v is None else v / 1000.0

    async def main():
        conn = aiohttp.TCPConnector(limit=1, resolver=env)
        conn._resolver_owner = False
        session = aiohttp.ClientSession(connector=conn, timeout=aiohttp.ClientTimeout(total=None))
        res, at, eff = {}, {}, {}

        def handshake():
            tr = env.r_transport()
            if tr is None:
                return
            head = bytes(tr.out)
            if b"\r\n\r\n" not in head or tr.answered:
                loop.call_soon(handshake) if not tr.closing and not tr.answered and len(head) == 0 else None
                return
            tr.answered = 1
            key = [l.split(b":", 1)[1].strip() for l in head.split(b"\r\n") if l.lower().startswith(b"sec-websocket-key")][0]
            acc = base64.b64encode(hashlib.sha1(key + b"258EAFA5-E914-47DA-95CA-C5AB0DC85B11").digest())
            tr.feed(b"HTTP/1.1 101 Switching Protocols\r\nUpgrade: websocket\r\nConnection: upgrade\r\n"
                    b"Sec-WebSocket-Accept: " + acc + b"\r\n\r\n")

        async def job():
            kw = {}
            a = sc["arg"]
            if a[0] == "obj":
                kw["timeout"] = aiohttp.ClientWSTimeout(ws_receive=sec(a[1]), ws_close=sec(a[2]))
            elif a[0] == "float":
                kw["timeout"] = sec(a[1])
            if sc.get("recv") is not None:
                kw["receive_timeout"] = sec(sc["recv"])
            try:
                with warnings.catch_warnings():
                    warnings.simplefilter("ignore")
                    cm = session.ws_connect("http://10.0.0.1/ws", **kw)
                    t = asyncio.ensure_future(cm.__aenter__())
                    t.set_name("R")
                    for _ in range(6):
                        await asyncio.sleep(0)
                        handshake()
                    ws = await t
                t = ws._timeout
                eff["recv"] = None if t.ws_receive is None else int(round(t.ws_receive * 1000))
                eff["close"] = None if t.ws_close is None else int(round(t.ws_close * 1000))
                await asyncio.sleep(sc["close_at"] / 1000.0 - loop.time())
                at["close_called"] = ms(loop)
                r = await ws.close()
                res["R"] = "closed" if r else "already"
                eff["code"] = ws.close_code
            except BaseException as e:  # noqa
                res["R"] = _classify(e)
            at["R"] = ms(loop)

        task = loop.create_task(job(), name="R")

        def peer_close():
            tr = env.r_transport()
            if tr is not None:
                tr.feed(b"\x88\x02\x03\xe8")
        if sc.get("peer", -1) >= 0:
            loop.call_at(sc["peer"] / 1000.0, peer_close)
        if sc.get("cancel") is not None:
            loop.call_at(sc["cancel"] / 1000.0, task.cancel)
        await asyncio.sleep(T_OBS / 1000.0 - loop.time())
        cur = asyncio.current_task()
        live = sorted(t.get_name() if t.get_name() == "R" else "task" for t in asyncio.all_tasks(loop)
                      if t is not cur and not t.done())
        out.update(r=res.get("R", "pending"), r_at=at.get("R", -1), close_called=at.get("close_called", -1),
                   eff_recv=eff.get("recv", "?"), eff_close=eff.get("close", "?"), code=eff.get("code"),
                   acquired=len(conn._acquired), open_r=sum(1 for tr in env.transports if tr.owner == "R" and not tr.closing),
                   live=live)
        # follow-up on the same session
        for tr in env.transports:
            tr.auto = False
        env.unstalled = True
        if not task.done():
            task.cancel()
            await asyncio.sleep(0.01)
        f = {}

        async def follow():
            try:
                async with session.get("http://10.0.0.2/", timeout=aiohttp.ClientTimeout(total=50)) as r:
                    f["r"] = "ok" if await r.read() == b"ok" else "E_OTHER(body)"
            except BaseException as e:  # noqa
                f["r"] = _classify(e)
        ft = loop.create_task(follow(), name="F")
        await asyncio.sleep(100)
        out["follow"] = f.get("r", "pending")
        if not ft.done():
            ft.cancel()
        await asyncio.sleep(0)
        await session.close()
        return out

    cmod.aiohappyeyeballs.start_connection = env.start_connection
    cmod.create_connection = env.create_connection
    try:
        env.unstalled = False
        # R's connect completes at once in WS scenarios
        orig_start = env.start_connection

        async def start_now(addr_infos, **kw):
            sock = FakeSock()
            env.socks.append(sock)
            return sock
        cmod.aiohappyeyeballs.start_connection = start_now
        task = loop.create_task(main(), name="main")
        task.add_done_callback(lambda t: loop.stop())
        loop.run_forever()
        if not task.done():
            out["harness"] = "quiescent"
        elif task.exception() is not None:
            out["harness"] = "E_OTHER(" + type(task.exception()).__name__ + ")"
            out["harness_detail"] = repr(task.exception())
        return out
    finally:
        cmod.aiohappyeyeballs.start_connection, cmod.create_connection = saved
        loop.stop_on_quiescence = False
        try:
            pending = [t for t in asyncio.all_tasks(loop) if not t.done()]
            for t in pending:
                t.cancel()
            if pending:
                loop.run_until_complete(asyncio.gather(*pending, return_exceptions=True))
        except BaseException:
            pass
        asyncio.set_event_loop(None)
        loop.close()
