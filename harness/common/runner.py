"""Generic flow of one check run (see DESIGN.md §6)."""
import argparse, hashlib, importlib, json, os, random, re, sys, time, traceback
from collections import Counter
from .guard import guard, MachineryError, VERIF, REPO
from . import lean

TRUSTED_BASE_COMMON = [
    "Lean 4.33.0 kernel; axioms allowed in property theorems: propext, Classical.choice, Quot.sound (audited by #print axioms on every run); "
    "in the thorough tier the compiled proof modules are re-checked by leanchecker (independent replay of the .olean files through the kernel)",
    "Lean compiler/runtime for the native model driver (correspondence only, not proofs)",
    "the correspondence harness (generators, canonicalisation) and the table extractor writing lean/AioModel/Generated/*.lean",
]


def _stable(obj):
    return json.dumps(obj, sort_keys=True, default=repr)


class Ctx:
    def __init__(self, prop, tier, seed, driver):
        self.prop, self.tier, self.seed = prop, tier, seed
        self.quick = tier == "quick"
        self.rng = random.Random(seed)
        self._driver = driver
        self.evaluations = 0
        self.compared = 0
        self._distinct = set()
        self.samples = []
        self.hits = Counter()
        self.mismatches = []      # correspondence disagreements
        self.violations = {}      # signature -> {case, detail}
        self.notes = []
        self.extra = {}
        self.exhaustive = False
        self.deadline = None

    # -- model ---------------------------------------------------------------------
    @property
    def model_available(self):
        return self._driver is not None and self._driver.available

    def model(self, lines):
        """Run driver lines (without the leading property id). None if the model does not build."""
        if not self.model_available:
            return None
        return self._driver.run([self.prop + " " + l for l in lines])

    # -- bookkeeping ---------------------------------------------------------------
    def case(self, key, nontrivial=True, sample=None):
        """count one explored case; `key` identifies it for distinctness"""
        self.evaluations += 1
        if nontrivial:
            h = hashlib.blake2b(_stable(key).encode(), digest_size=8).digest()
            self._distinct.add(h)
        if sample is not None and len(self.samples) < 12:
            self.samples.append(sample)

    def hit(self, *names):
        for n in names:
            self.hits[n] += 1

    def mismatch(self, case, impl, model, where="correspondence"):
        self.mismatches.append({"where": where, "case": case, "impl": impl, "model": model})

    def violation(self, signature, case, detail):
        if signature not in self.violations:
            self.violations[signature] = {"case": case, "detail": detail}

    def compare(self, case, impl, model, where="correspondence"):
        self.compared += 1
        if impl != model:
            self.mismatch(case, impl, model, where)
            return False
        return True

    def time_left(self):
        return None if self.deadline is None else self.deadline - time.time()


def load_findings(prop):
    p = os.path.join(VERIF, "known_findings.json")
    if not os.path.exists(p):
        return []
    with open(p) as f:
        data = json.load(f)
    return [e for e in data.get("findings", []) if e.get("property") == prop]


def write_replay(prop, name, payload):
    d = os.path.join(VERIF, "replays")
    os.makedirs(d, exist_ok=True)
    safe = re.sub(r"[^A-Za-z0-9_.-]+", "_", name)[:80]
    path = os.path.join(d, f"{prop}-{safe}.json")
    with open(path, "w") as f:
        json.dump(payload, f, indent=1, default=repr)
    return os.path.relpath(path, VERIF)


from .stop import StopCheck

class _Runaway(MachineryError):
    pass


def _guard_on(tier):
    import resource, signal
    cap = int(os.environ.get("VERIF_MEM_GB", "12" if tier == "quick" else "24")) << 30
    try:
        soft, hard = resource.getrlimit(resource.RLIMIT_AS)
        resource.setrlimit(resource.RLIMIT_AS, (cap if hard == resource.RLIM_INFINITY else min(cap, hard), hard))
    except (ValueError, OSError):
        pass
    limit = int(os.environ.get("VERIF_WALL_S", "1500" if tier == "quick" else "10800"))

    fired = []

    def _alarm(signum, frame):
        if fired:
            # the first alarm's exception was swallowed (or the loop never returns to Python code that lets it
            # propagate): leave at once, as a machinery error, rather than hang for ever
            print(f"MACHINERY-ERROR: the check ran longer than {limit} s (wall clock) and did not stop when asked to", flush=True)
            os._exit(2)
        fired.append(1)
        signal.alarm(120)
        raise _Runaway(f"the check ran longer than {limit} s (wall clock) — hang or runaway loop under the harness")
    try:
        signal.signal(signal.SIGALRM, _alarm)
        signal.alarm(limit)
    except (ValueError, OSError):
        pass


def _guard_off():
    import resource, signal
    try:
        signal.alarm(0)
        soft, hard = resource.getrlimit(resource.RLIMIT_AS)
        resource.setrlimit(resource.RLIMIT_AS, (hard, hard))
    except (ValueError, OSError):
        pass


def main(argv):
    ap = argparse.ArgumentParser()
    ap.add_argument("prop")
    ap.add_argument("--tier", default=os.environ.get("VERIF_TIER", "quick"), choices=["quick", "thorough"])
    ap.add_argument("--replay")
    ap.add_argument("--no-build", action="store_true", help="skip lake build/audit (debugging only)")
    a = ap.parse_args(argv)
    prop = a.prop.upper()
    seed = int(os.environ.get("VERIF_SEED", "0") or 0)
    t0 = time.time()
    try:
        return _run(prop, a.tier, seed, a.replay, a.no_build, t0)
    except MachineryError as e:
        print(f"MACHINERY-ERROR property={prop}: {e}")
        return 2
    except MemoryError:
        print(f"MACHINERY-ERROR property={prop}: memory cap reached while running the check (unbounded growth under the harness)")
        return 2
    except Exception:
        traceback.print_exc()
        print(f"MACHINERY-ERROR property={prop}: unexpected exception in the harness")
        return 2


def _run(prop, tier, seed, replay, no_build, t0):
    import logging
    logging.disable(logging.CRITICAL)   # aiohttp logs every rejected request; the verdict is ours
    guard()
    mod = importlib.import_module(f"harness.{prop.lower()}")
    findings = load_findings(prop)

    if replay:
        with open(replay if os.path.isabs(replay) else os.path.join(VERIF, replay)) as f:
            payload = json.load(f)
        ctx = Ctx(prop, tier, seed, lean.Driver())
        if "case" not in payload:
            print(json.dumps(payload, indent=1))
            print("replay file names a broken proof obligation / correspondence; no input to replay")
            return 1
        mod.replay(ctx, payload["case"])
        for sig, v in ctx.violations.items():
            print(f"REPLAY property={prop} signature={sig} detail={v['detail']}")
        print("replay: violation reproduced" if ctx.violations else "replay: no violation on this tree")
        return 1 if ctx.violations else 0

    # 1. tables regenerated from the source
    proofs_ok, proof_notes, build_log = True, [], ""
    gen_changed = []
    gen_error = None
    try:
        files = mod.generate(REPO) if hasattr(mod, "generate") else {}
    except Exception as e:  # the extractor could not read the table any more
        files, gen_error = {}, f"extractor failed: {e!r}"
    if files:
        gen_changed = lean.write_generated(files)

    # 2. build proofs and driver
    theorems = list(getattr(mod, "THEOREMS", []))
    modules = list(getattr(mod, "LEAN_MODULES", []))
    audit_res = {}
    leancheck_note = None
    driver_ok = True
    build_s = 0.0
    if not no_build:
        ok_d, log_d, s1 = lean.lake_build(["aiodriver"])
        driver_ok = ok_d
        ok_p, log_p, s2 = lean.lake_build(modules) if modules else (True, "", 0)
        build_s = s1 + s2
        build_log = (log_d if not ok_d else "") + (log_p if not ok_p else "")
        if not ok_p:
            proofs_ok = False
            errs = [l for l in log_p.splitlines() if "error" in l][:8]
            proof_notes.append("lake build failed: " + " | ".join(errs))
        # 3. audit
        if ok_p and theorems:
            audit_res, _ = lean.audit(modules, theorems)
            for t, (ok, detail) in audit_res.items():
                if not ok:
                    proofs_ok = False
                    proof_notes.append(f"{t}: {detail}")
        if ok_p and modules and tier == "thorough":
            ok_c, det_c = lean.leanchecker(modules)
            leancheck_note = det_c
            if not ok_c:
                proofs_ok = False
                proof_notes.append("leanchecker rejected the compiled modules: " + det_c)
        gate = lean.grep_gate(lean.lean_sources_of(modules))
        if gate:
            proofs_ok = False
            proof_notes.append("forbidden tokens: " + "; ".join(gate[:6]))
    if gen_error:
        proofs_ok = False
        proof_notes.append(gen_error)

    driver = lean.Driver() if driver_ok else None
    ctx = Ctx(prop, tier, seed, driver)
    ctx.deadline = t0 + (75 if tier == "quick" else 840)

    # 4. corpus + generated cases: correspondence and direct oracle
    # Guard rails for a tree on which the implementation (or the harness driving it) runs away: an address-space cap
    # and a wall-clock alarm turn unbounded growth / a hang into exit 2 instead of taking the machine down.
    _guard_on(tier)
    try:
        mod.check(ctx)
    except StopCheck as e:
        ctx.notes.append(f"exploration stopped early: {e}")
    finally:
        _guard_off()

    if os.environ.get("VERIF_DEBUG"):
        for mm in ctx.mismatches[: int(os.environ["VERIF_DEBUG"])]:
            print("MISMATCH", json.dumps(mm["case"])[:400])
            print("   impl :", str(mm["impl"])[:700])
            print("   model:", str(mm["model"])[:700])

    # 5. known / fixed findings are replayed on the implementation
    known_lines, fixed_regressed = [], []
    known_sigs = {}
    for e in findings:
        known_sigs[e["signature"]] = e
    for e in findings:
        if "case" not in e:
            continue
        sub = Ctx(prop, tier, seed, driver)
        try:
            mod.replay(sub, e["case"])
        except MachineryError:
            raise
        still = e["signature"] in sub.violations or (sub.violations and e.get("match_any"))
        if e.get("status") == "known" and still:
            known_lines.append(f"KNOWN-FINDING: property={prop} {e['id']} {e['what']}")
        if e.get("status") == "fixed" and still:
            fixed_regressed.append(e)
        for sig, v in sub.violations.items():
            if sig != e["signature"]:
                ctx.violation(sig, v["case"], v["detail"])

    new = {}
    for sig, v in ctx.violations.items():
        e = known_sigs.get(sig)
        if e is not None and e.get("status") == "known":
            line = f"KNOWN-FINDING: property={prop} {e['id']} {e['what']}"
            if line not in known_lines:
                known_lines.append(line)
        else:
            new[sig] = v
    for e in fixed_regressed:
        new.setdefault(e["signature"], {"case": e["case"], "detail": "regression of fixed finding " + e["id"]})

    # 6. verdict
    out_lines, rc = [], 0
    for l in known_lines:
        out_lines.append(l)
    if new:
        rc = 1
        for sig, v in new.items():
            path = write_replay(prop, sig, {"property": prop, "signature": sig, "case": v["case"],
                                            "detail": v["detail"], "seed": seed, "tier": tier})
            out_lines.append(f"VIOLATION property={prop} replay={path}")
    elif not proofs_ok or ctx.mismatches:
        rc = 1
        payload = {"property": prop, "seed": seed, "tier": tier,
                   "broken_proof_obligations": proof_notes,
                   "generated_tables_changed": gen_changed,
                   "correspondence_mismatches": ctx.mismatches[:5],
                   "n_mismatches": len(ctx.mismatches),
                   "note": "the property is no longer shown to hold; the failing-input search on the implementation found no violating input",
                   "build_log_tail": build_log[-3000:]}
        path = write_replay(prop, "unproved", payload)
        out_lines.append(f"VIOLATION property={prop} replay={path} no-failing-input-found")

    # 7. evidence
    discharged = sum(1 for t in theorems if audit_res.get(t, (False,))[0]) if not no_build else 0
    cov = {
        "obligations": max(len(theorems), 1),
        "discharged": discharged,
        "checker_cmd": f"cd lean && lake build {' '.join(modules)} && lake env lean <#print axioms of each theorem>",
        "trusted_base": TRUSTED_BASE_COMMON + list(getattr(mod, "TRUSTED_BASE", [])),
        "theorems": {t: audit_res.get(t, (False, "not audited"))[1] for t in theorems},
        "evaluations": ctx.evaluations,
        "distinct_nontrivial": len(ctx._distinct),
        "rule": getattr(mod, "RULE", ""),
        "samples": ctx.samples or [{"note": "no generated cases"}],
        "traces_validated_against_impl": ctx.compared,
        "correspondence_mismatches": len(ctx.mismatches),
        "model_driver_available": ctx.model_available,
        "generated_tables_changed_this_run": gen_changed,
        "distribution": dict(ctx.hits),
        "exhaustive": bool(ctx.exhaustive),
        "known_findings_reported": known_lines,
        "proof_notes": proof_notes,
        "lake_build_s": round(build_s, 2),
    }
    if leancheck_note is not None:
        cov["leanchecker"] = leancheck_note
    cov.update(ctx.extra)
    ev = {
        "property_id": prop, "tier": tier, "seed": seed, "level": "proof",
        "coverage": cov,
        "assumptions": list(getattr(mod, "ASSUMPTIONS", [])) + ctx.notes,
        "wall_s": round(time.time() - t0, 2),
        "violations": len(new) + (1 if rc == 1 and not new else 0),
    }
    if not no_build:   # a debugging run without proofs must not overwrite the evidence
        os.makedirs(os.path.join(VERIF, "evidence"), exist_ok=True)
        tmp = os.path.join(VERIF, "evidence", f".{prop}.json.tmp")
        with open(tmp, "w") as f:
            json.dump(ev, f, indent=1, default=repr)
        os.replace(tmp, os.path.join(VERIF, "evidence", f"{prop}.json"))

    for l in out_lines:
        print(l)
    print(f"{prop} tier={tier} seed={seed}: theorems {discharged}/{len(theorems)} ok, "
          f"{ctx.evaluations} cases ({len(ctx._distinct)} distinct), {ctx.compared} compared with the model, "
          f"{len(ctx.mismatches)} mismatches, {len(new)} new violations, {len(known_lines)} known findings, "
          f"{time.time() - t0:.1f}s")
    return rc
