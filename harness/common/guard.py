"""Refuse to run against anything but the repository under verification."""
import os, sys

REPO = os.environ.get("VERIF_REPO", "/repo")
VERIF = os.path.dirname(os.path.dirname(os.path.dirname(os.path.abspath(__file__))))


class MachineryError(Exception):
    """the check itself is broken (exit 2) — never a verdict about the property"""


def guard():
    try:
        import aiohttp
        import aiohttp.http_parser as hp
        import aiohttp.http_writer as hw
        from aiohttp._websocket import reader as wsr, reader_py
    except Exception as e:  # a repo that no longer imports cannot be checked
        raise MachineryError(f"cannot import aiohttp from {REPO}: {e!r}")
    f = os.path.realpath(aiohttp.__file__)
    if not f.startswith(os.path.realpath(REPO) + os.sep):
        raise MachineryError(f"aiohttp imported from {f}, expected under {REPO}")
    if hp.HttpRequestParser is not hp.HttpRequestParserPy:
        raise MachineryError("C http parser in use; expected the pure-Python parser")
    if hw._serialize_headers is not hw._py_serialize_headers:
        raise MachineryError("C header serializer in use")
    if wsr.WebSocketReader is not reader_py.WebSocketReader:
        raise MachineryError("C websocket reader in use")
    return aiohttp
