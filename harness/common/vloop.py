"""Virtual-time event loop (DESIGN §4.3): timers fire by jumping the clock when nothing is
ready; executors run inline; quiescence (nothing ready, no timer) is reported instead of
blocking in select()."""
import asyncio, heapq


class Quiescent(Exception):
    pass


class VLoop(asyncio.SelectorEventLoop):
    def __init__(self):
        super().__init__()
        self._vt = 0.0
        self.quiescent = False
        self.stop_on_quiescence = True

    def time(self):
        return self._vt

    def run_in_executor(self, executor, func, *args):
        fut = self.create_future()
        try:
            fut.set_result(func(*args))
        except BaseException as e:  # noqa
            fut.set_exception(e)
        return fut

    def _run_once(self):
        while self._scheduled and self._scheduled[0]._cancelled:
            h = heapq.heappop(self._scheduled)
            h._scheduled = False
        if not self._ready:
            if self._scheduled:
                when = self._scheduled[0]._when
                if when > self._vt:
                    self._vt = when
            elif self.stop_on_quiescence:
                # nothing can ever happen again: report instead of blocking forever
                self.quiescent = True
                self.stop()
                self._ready.append(asyncio.Handle(lambda: None, (), self))
        super()._run_once()


def run(main_factory, *, excs=None):
    """Run `await main_factory()` on a fresh VLoop.
    Returns (result, loop_exception_contexts, quiescent); `quiescent` = the main task could
    never finish (nothing ready, no timer armed) — the observable form of "blocks forever"."""
    loop = VLoop()
    asyncio.set_event_loop(loop)
    excs = [] if excs is None else excs
    loop.set_exception_handler(lambda l, c: excs.append(c))
    task = loop.create_task(main_factory())
    task.add_done_callback(lambda t: loop.stop())
    try:
        loop.run_forever()
        if task.done():
            return task.result(), excs, False
        return None, excs, True
    finally:
        loop.stop_on_quiescence = False
        try:
            pending = [t for t in asyncio.all_tasks(loop) if not t.done()]
            for t in pending:
                t.cancel()
            if pending:
                loop.run_until_complete(asyncio.gather(*pending, return_exceptions=True))
        except BaseException:
            pass
        asyncio.set_event_loop(None)
        loop.close()
