"""C06 helpers: in-memory transport, scripted-peer connector and the op runner that drives
the real ClientSession / BaseConnector / ResponseHandler on the virtual-time loop.

Op language (same tokens the Lean driver parses, see lean/Driver/C06.lean):
  ("Q", keyspec, skip, early)   start request j = number of requests so far (GET, or HEAD when skip)
  ("R", c, data)                peer bytes arrive on connection c
  ("X", c, os)                  peer closes (os=False) / resets (os=True) connection c
  ("D", j) read body   ("L", j) resp.release()   ("C", j) resp.close()   ("K", j) cancel the pending task
  ("A", d)              d/8 virtual seconds pass
After every op the loop is run until nothing is ready, then the observable state is rendered
exactly as `Aio.Driver.C06.showWorld` renders the model's.
"""
import asyncio, re
from . import vloop
from .codec import hx

TICK = 0.125  # seconds per model time unit (exactly representable)
_runs = 0


class MemTransport(asyncio.Transport):
    def __init__(self, loop, proto, idx, log, log_short=None):
        super().__init__()
        self.loop, self.proto, self.idx, self.log = loop, proto, idx, log
        self.log_short = log_short
        self.body_expected = 0      # Content-Length announced by the request head written last
        self.body_seen = 0          # body bytes written since that head
        self.body_tail = b""        # last bytes written (a chunked body is complete when they are 0 CRLF CRLF)
        self.hold = False
        self.out = bytearray()
        self.closing = False
        self.closed = False
        self.reqs = []          # request numbers written on this transport

    def write(self, data):
        if self.closing:
            return
        data = bytes(data)
        self.out += data
        pos = 0
        for m in re.finditer(rb"(?:GET|HEAD|POST) (?:(?:https?|wss?)://[^/ ]+)?/(\d+) HTTP/1\.1\r\n", data):
            j = int(m.group(1))
            self.body_seen += m.start() - pos
            if self.body_expected == -1:      # chunked request body: complete iff the last-chunk was written
                short = not (self.body_tail + data[pos:m.start()]).endswith(b"0\r\n\r\n")
            else:
                short = self.body_seen < self.body_expected
            if self.reqs and short and self.log_short is not None:
                # a new request head follows a request whose announced body was not (fully) written
                self.log_short(self.idx, self.reqs[-1], self.body_seen, self.body_expected, j)
            end = data.find(b"\r\n\r\n", m.start())
            head = data[m.start():end + 4] if end >= 0 else data[m.start():]
            cl = re.search(rb"\r\nContent-Length: (\d+)\r\n", head)
            self.body_expected = int(cl.group(1)) if cl else (-1 if re.search(rb"\r\nTransfer-Encoding: chunked\r\n", head) else 0)
            self.body_seen = 0
            self.body_tail = b""
            pos = m.start() + len(head)
            self.reqs.append(j)
            self.log(self.idx, j)
        self.body_seen += len(data) - pos
        self.body_tail = (self.body_tail + data[pos:])[-8:]

    def writelines(self, l):
        for d in l:
            self.write(d)

    def is_closing(self):
        return self.closing

    def close(self):
        if not self.closing:
            self.closing = True
            if not self.hold:
                self.loop.call_soon(self._lost, None)
            # else: connection_lost is delivered by the harness later (op X): the window in which the
            # transport is closing but the protocol still has it (TLS shutdown, write buffer draining)

    def begin_close(self):
        """the peer's FIN is read: eof_received() returns a false value, the transport closes itself;
        connection_lost follows later (op X)"""
        if self.closing or self.closed:
            return
        self.closing = True
        self.proto.eof_received()

    def abort(self):
        self.close()

    def _lost(self, exc):
        if not self.closed:
            self.closed = True
            self.proto.connection_lost(exc)

    def peer_lost(self, exc):
        if self.closed:
            return
        self.closing = True
        self.closed = True
        if exc is None:
            self.proto.eof_received()
        self.proto.connection_lost(exc)

    def pause_reading(self): pass
    def resume_reading(self): pass
    def get_extra_info(self, name, default=None): return default
    def get_write_buffer_size(self): return 0
    def set_write_buffer_limits(self, high=None, low=None): pass
    def can_write_eof(self): return False


ERR = {"ClientResponseError": "http", "ServerDisconnectedError": "disconnected", "ClientOSError": "os",
       "ClientPayloadError": "payload", "ClientConnectionResetError": "reset", "ClientConnectionError": "connclosed",
       "TimeoutError": "timeout", "CancelledError": "cancelled", "RuntimeError": "runtime",
       "SocketTimeoutError": "socktimeout"}


def err_name(e):
    n = type(e).__name__
    return ERR.get(n, f"E_OTHER({n})")


class Run:
    """state of one scenario on the real implementation"""

    def __init__(self, cfg, keyspecs=None):
        self.cfg = cfg              # dict forceClose, keepalive, total (units), fix ignored here
        self.tasks = []             # request tasks
        self.meta = []              # per request: dict(keyspec, skip)
        self.resps = []             # response or None
        self.rtasks = []            # read task or None
        self.used = []              # per request: transports written
        self.states = []            # rendered state after each op
        self.events = []            # for the oracle: (kind, …) in order
        self.session = None
        self.conn = None
        self.loop = None
        self.early = None
        self.ops = []
        self.real_keys = {}         # request number -> real ConnectionKey

    # ---- called by transports
    def _log_write(self, c, j):
        if j < len(self.used):
            self.used[j].append(c)
        self.events.append(("write", c, j, len(self.ops) - 1))

    def _log_short(self, c, prev_j, seen, expected, j):
        self.events.append(("shortbody", c, prev_j, seen, expected, j, len(self.ops) - 1))

    def holder(self, c):
        """the exchange the harness considers to hold connection c right now (None = nobody):
        the protocol is acquired in the connector and a request has been written on it"""
        tr = self.conn.transports[c]
        if tr.proto in self.conn._acquired and tr.reqs:
            return tr.reqs[-1]
        return None

    async def settle(self):
        n = 0
        while self.loop._ready and n < 2000:
            await asyncio.sleep(0)
            n += 1
        if n >= 2000:
            raise RuntimeError("loop does not settle")

    def conn_of(self, j):
        t = self.tasks[j]
        if self.resps[j] is not None:
            cn = self.resps[j]._connection
            if cn is None or cn._protocol is None:
                return None
            proto = cn._protocol
        else:
            if t.done():
                return None
            # still inside connect/start: the connection the request was last written on, if still acquired
            if not self.used[j]:
                return None
            tr = self.conn.transports[self.used[j][-1]]
            if tr.proto in self.conn._acquired and tr.reqs and tr.reqs[-1] == j:
                return tr.idx
            return None
        for tr in self.conn.transports:
            if tr.proto is proto:
                return tr.idx
        return None

    def render_exch(self, j):
        t, r, rt = self.tasks[j], self.resps[j], self.rtasks[j]
        used = ".".join(map(str, self.used[j])) if self.used[j] else "-"
        head = "-"
        res = "-"
        if r is None:
            if not t.done():
                phase = "wait"
            else:
                phase = "failed"
                res = "err:" + ("cancelled" if t.cancelled() else err_name(t.exception()))
        else:
            head = f"{r.status}:{hx(r.headers.get('X-U', '').encode('latin-1'))}"
            if rt is None:
                phase = "head"
            elif not rt.done():
                phase = "reading"
            elif rt.cancelled():
                phase, res, head = "failed", "err:cancelled", "-"
            elif rt.exception() is not None:
                phase, res, head = "failed", "err:" + err_name(rt.exception()), "-"
            else:
                phase, res = "done", "ok:" + hx(rt.result())
        c = self.conn_of(j)
        return f"{phase},{'-' if c is None else c},{used},{head},{res}", c

    def render(self):
        import aiohttp.connector as ac
        ex, owners = [], {}
        for j in range(len(self.tasks)):
            s, c = self.render_exch(j)
            ex.append(s)
            if c is not None:
                owners[c] = j
        now = ac.monotonic()
        pooled = {}
        for key, dq in self.conn._conns.items():
            for proto, t0 in dq:
                pooled[id(proto)] = t0
        cs = []
        for tr in self.conn.transports:
            connected = tr.proto.is_connected()
            t0 = pooled.get(id(tr.proto))
            reusable = connected and t0 is not None and now - t0 <= self.conn._keepalive_timeout
            if t0 is not None and not reusable:
                connected = False   # an expired pooled connection is as good as closed (the cleanup timer closes it at some point)
            o = owners.get(tr.idx)
            cs.append(f"{'1' if connected else '0'}{'1' if reusable else '0'}{'-' if o is None else o}")
        return "E[" + ";".join(ex) + "] C[" + ";".join(cs) + "]"


def op_token(op):
    k = op[0]
    if k == "Q":
        return f"Q|{op[1]}|{'1' if op[2] else '0'}|{hx(op[3])}"
    if k == "R":
        return f"R|{op[1]}|{hx(op[2])}"
    if k == "X":
        return f"X|{op[1]}|{'1' if op[2] else '0'}"
    return f"{k}|{op[1]}"


def cfg_token(cfg, fix=False):
    return f"{'1' if cfg['forceClose'] else '0'},{cfg['keepalive']},{cfg['total']},{'1' if fix else '0'}"


def run_scenario(cfg, next_op, keyparams):
    """Drive the real client.  `next_op(run)` returns the next op (it may look at the real
    state: adaptive generation) or None to stop.  `keyparams(keyspec)` -> kwargs + url parts.
    Returns the Run (ops in run.ops, states in run.states)."""
    import aiohttp
    import aiohttp.connector as ac
    from aiohttp.connector import BaseConnector

    R = Run(cfg)
    R.ops = []

    class MemConnector(BaseConnector):
        def __init__(self, **kw):
            super().__init__(**kw)
            self.transports = []

        async def connect(self, req, traces, timeout):
            # what the REAL ClientRequest.connection_key says for request j (compared pairwise by the oracle)
            j = -1
            try:
                j = int(req.url.path.rsplit("/", 1)[-1])
                R.real_keys[j] = req.connection_key
            except ValueError:
                pass
            conn = await super().connect(req, traces, timeout)
            for tr in self.transports:
                if tr.proto is conn.protocol:
                    # the connector handed connection tr.idx to request j; was its transport already closing?
                    R.events.append(("acquire", tr.idx, j, len(R.ops) - 1, tr.closing or tr.closed))
            return conn

        async def _create_connection(self, req, traces, timeout):
            proto = self._factory()
            tr = MemTransport(self._loop, proto, len(self.transports), R._log_write, R._log_short)
            tr.key = req.connection_key
            proto.connection_made(tr)
            self.transports.append(tr)
            early, R.early = R.early, None
            if early:
                R.events.append(("recv", tr.idx, early, None, len(R.ops) - 1))
                proto.data_received(early)
            return proto

    async def main():
        loop = asyncio.get_running_loop()
        R.loop = loop
        old_mono = ac.monotonic
        ac.monotonic = loop.time
        try:
            kw = {}
            if cfg["forceClose"]:
                kw["force_close"] = True
            else:
                kw["keepalive_timeout"] = cfg["keepalive"] * TICK
            R.conn = MemConnector(**kw)
            tmo = aiohttp.ClientTimeout(total=(cfg["total"] * TICK) if cfg["total"] else None,
                                        sock_read=(cfg["sockRead"] * TICK) if cfg.get("sockRead") else None)
            R.session = aiohttp.ClientSession(connector=R.conn, timeout=tmo)
            try:
                while True:
                    op = next_op(R)
                    if op is None:
                        break
                    R.ops.append(op)
                    await do_op(R, op, keyparams)
                    await R.settle()
                    R.early = None
                    R.states.append(R.render())
            finally:
                for t in R.tasks + [t for t in R.rtasks if t is not None]:
                    if not t.done():
                        t.cancel()
                await R.settle()
                for tr in R.conn.transports:      # deliver every connection_lost still held back
                    tr.hold = False
                    if tr.closing and not tr.closed:
                        tr._lost(None)
                for r in R.resps:
                    if r is not None:
                        r.close()
                await R.settle()
                await R.session.close()
                await R.settle()
        finally:
            ac.monotonic = old_mono

    # objects of earlier scenarios must not be finalised in the middle of this one
    # (ClientResponse/Connection.__del__ release connections): collect now, not during the run
    import gc
    global _runs
    _runs += 1
    if _runs % 40 == 1:
        gc.collect()
    gc.disable()
    try:
        res, excs, quiescent = vloop.run(main)
    finally:
        gc.enable()
        # aiohttp raises one module-level exception instance for every read of a released response;
        # its __traceback__ chain keeps the frames (and thereby all objects) of every scenario alive
        import aiohttp.client_reqrep as _cr
        exc = getattr(_cr, "_CONNECTION_CLOSED_EXCEPTION", None)
        if exc is not None:
            exc.__traceback__ = None
    R.loop_excs = [str(c.get("message")) for c in excs]
    R.quiescent = quiescent
    return R


async def do_op(R, op, keyparams):
    loop = R.loop
    k = op[0]
    if k == "Q":
        j = len(R.tasks)
        url, kw = keyparams(op[1], j)
        R.early = op[3] or None
        ws = kw.pop("_ws", False)       # ws_connect instead of get
        post = kw.pop("_post", 0)       # POST with a body of that many bytes and Expect: 100-continue
        body_kind = kw.pop("_body", "bytes")
        R.meta.append({"key": op[1], "skip": op[2], "ws": ws, "post": post})
        R.used.append([])
        R.resps.append(None)
        R.rtasks.append(None)
        R.events.append(("request", j, op[1]))

        async def go():
            if ws:
                w = await R.session.ws_connect(url, **kw)
                R.resps[j] = w._response
                return w
            if post:
                if body_kind == "agen":          # async generator: Payload.size is None, sent chunked
                    async def gen():
                        yield b"B" * post
                    data = gen()
                elif body_kind == "stream":      # unseekable stream: size unknown as well
                    import io

                    class Unseekable(io.RawIOBase):
                        def __init__(self, b): self._b = io.BytesIO(b)
                        def readable(self): return True
                        def seekable(self): return False
                        def readinto(self, buf):
                            d = self._b.read(len(buf)); buf[:len(d)] = d; return len(d)
                    data = io.BufferedReader(Unseekable(b"B" * post))
                else:
                    data = b"B" * post
                r = await R.session.post(url, data=data, expect100=True, allow_redirects=False, **kw)
            else:
                meth = R.session.head if op[2] else R.session.get
                r = await meth(url, allow_redirects=False, **kw)
            R.resps[j] = r
            return r
        R.tasks.append(loop.create_task(go()))
    elif k == "R":
        if op[1] >= len(R.conn.transports):
            return      # a stored history may name a connection this tree never opened (the model ignores it too)
        tr = R.conn.transports[op[1]]
        if not tr.closing and not tr.closed:
            R.events.append(("recv", op[1], op[2], R.holder(op[1]), len(R.ops) - 1))
            tr.proto.data_received(op[2])
    elif k == "X":
        if op[1] >= len(R.conn.transports):
            return
        tr = R.conn.transports[op[1]]
        if not tr.closing and not tr.closed:
            R.events.append(("peerclose", op[1]))
        tr.peer_lost(OSError(104, "reset") if op[2] else None)
    elif k == "F":
        if op[1] < len(R.conn.transports):
            tr = R.conn.transports[op[1]]
            if not tr.closing and not tr.closed:
                R.events.append(("peerclose", op[1]))
                tr.begin_close()
    elif k == "H":
        if op[1] < len(R.conn.transports):
            R.conn.transports[op[1]].hold = True
    elif k == "D":
        j = op[1]
        if R.resps[j] is not None and R.rtasks[j] is None:
            R.rtasks[j] = loop.create_task(R.resps[j].read())
    elif k == "L":
        j = op[1]
        if R.resps[j] is not None and R.rtasks[j] is None:
            R.events.append(("release", j, R.conn_of(j), len(R.ops) - 1))
            R.resps[j].release()
    elif k == "C":
        j = op[1]
        if R.resps[j] is not None and (R.rtasks[j] is None or not R.rtasks[j].done()):
            R.events.append(("close", j, R.conn_of(j), len(R.ops) - 1))
            R.resps[j].close()
    elif k == "K":
        j = op[1]
        if R.resps[j] is None:
            if not R.tasks[j].done():
                R.events.append(("cancel", j, R.conn_of(j), len(R.ops) - 1))
                R.tasks[j].cancel()
        elif R.rtasks[j] is not None and not R.rtasks[j].done():
            R.events.append(("cancel", j, R.conn_of(j), len(R.ops) - 1))
            R.rtasks[j].cancel()
    elif k == "A":
        await asyncio.sleep(op[1] * TICK)
    else:
        raise ValueError(op)
