"""An independent *strict* reader of an HTTP/1.1 request byte stream, written from the ABNF of
RFC 9112 / RFC 9110 (Python twin of lean/AioProps/HttpSpec.lean).  Used only by direct
oracles; it shares no code with aiohttp or with the Lean model of aiohttp.

read_requests(data) -> (messages, status) where status is
   "ok"          the whole stream is a concatenation of complete requests
   "incomplete"  a proper prefix of a possibly valid request remains
   "bad"         the remainder cannot be the start of a valid request
Each message: dict(method, target, version=(maj,min), fields=[(name,value)], body=bytes, framing)
"""
import re

TCHAR = rb"!#$%&'*+\-.^_`|~0-9A-Za-z"
TOKEN = re.compile(rb"[" + TCHAR + rb"]+\Z")
REQLINE = re.compile(rb"([" + TCHAR + rb"]+) ([\x21-\x7e\x80-\xff]+) HTTP/([0-9])\.([0-9])\Z")
FIELD = re.compile(rb"([" + TCHAR + rb"]+):[ \t]*((?:[\x21-\x7e\x80-\xff](?:[ \t\x21-\x7e\x80-\xff]*[\x21-\x7e\x80-\xff])?)?)[ \t]*\Z")
CHUNKSIZE = re.compile(rb"([0-9A-Fa-f]+)((?:;[^\r\n]*)?)\Z")
SINGLETON = {b"content-length", b"content-location", b"content-range", b"content-type", b"etag", b"host",
             b"max-forwards", b"server", b"transfer-encoding", b"user-agent"}


class Bad(Exception):
    head = None   # the parsed head when only the body framing is bad


class Incomplete(Exception):
    pass


def _line(data, pos):
    i = data.find(b"\r\n", pos)
    if i < 0:
        rest = data[pos:]
        if b"\n" in rest:
            raise Bad("bare LF")
        raise Incomplete()
    line = data[pos:i]
    if b"\n" in line or b"\r" in line:
        raise Bad("bare CR/LF in line")
    return line, i + 2


def _fields(data, pos):
    fields = []
    while True:
        line, pos = _line(data, pos)
        if line == b"":
            return fields, pos
        m = FIELD.match(line)
        if not m:
            raise Bad("field line")
        fields.append((m.group(1), m.group(2)))


def read_one(data, pos):
    # leading empty lines before a request-line are tolerated (RFC 9112 §2.2)
    while data[pos:pos + 2] == b"\r\n":
        pos += 2
    if pos >= len(data):
        return None, pos
    line, pos = _line(data, pos)
    m = REQLINE.match(line)
    if not m:
        raise Bad("request line")
    method, target = m.group(1), m.group(2)
    version = (int(m.group(3)), int(m.group(4)))
    fields, pos = _fields(data, pos)
    names = [k.lower() for k, _ in fields]
    for n in SINGLETON:
        if names.count(n) > 1:
            raise Bad("duplicate " + n.decode())
    if version == (1, 1) and b"host" not in names:
        raise Bad("missing Host")
    te = [v for k, v in fields if k.lower() == b"transfer-encoding"]
    cl = [v for k, v in fields if k.lower() == b"content-length"]
    framing, body = "none", b""
    head = dict(method=method, target=target, version=version, fields=fields, body=b"", framing="?")
    try:
        return _body(data, pos, head, te, cl)
    except Bad as e:
        e.head = head
        raise


def _body(data, pos, head, te, cl):
    method, target, version, fields = head["method"], head["target"], head["version"], head["fields"]
    framing, body = "none", b""
    if te:
        if cl:
            raise Bad("CL with TE")
        codings = [c.strip(b" \t") for c in b", ".join(te).split(b",")]
        if [c.lower() for c in codings].count(b"chunked") != 1 or codings[-1].lower() != b"chunked":
            raise Bad("TE not single final chunked")
        framing = "chunked"
        out = bytearray()
        while True:
            l, pos = _line(data, pos)
            mm = CHUNKSIZE.match(l)
            if not mm:
                raise Bad("chunk size")
            n = int(mm.group(1), 16)
            if n == 0:
                break
            if len(data) < pos + n + 2:
                if len(data) >= pos + n and data[pos + n:pos + n + 2] not in (b"", b"\r"):
                    raise Bad("chunk data not followed by CRLF")
                raise Incomplete()
            if data[pos + n:pos + n + 2] != b"\r\n":
                raise Bad("chunk data not followed by CRLF")
            out += data[pos:pos + n]; pos += n + 2
        _, pos = _fields(data, pos)   # trailer section
        body = bytes(out)
    elif cl:
        if not re.fullmatch(rb"[0-9]+", cl[0]):
            raise Bad("Content-Length")
        if len(cl[0].lstrip(b"0")) > 18:
            raise Incomplete()   # a body of that size cannot be present in any generated stream
        n = int(cl[0].lstrip(b"0") or b"0")
        framing = "length"
        if len(data) < pos + n:
            raise Incomplete()
        body = data[pos:pos + n]; pos += n
    return dict(method=method, target=target, version=version, fields=fields, body=body, framing=framing), pos


def read_requests(data, through_upgrade=False):
    """through_upgrade: an Upgrade request the server declines does not end the HTTP/1 stream (CONNECT still does)"""
    msgs, pos = [], 0
    while True:
        try:
            m, npos = read_one(data, pos)
        except Bad as e:
            if e.head is not None:
                msgs.append(dict(e.head, bad_body=True))
            return msgs, "bad:" + str(e), pos
        except Incomplete:
            return msgs, "incomplete", pos
        if m is None:
            return msgs, "ok", npos
        m["span"] = (pos, npos)
        msgs.append(m); pos = npos
        # a request that asks to close, or switches protocols, ends the HTTP/1 stream
        conn = b",".join(v for k, v in m["fields"] if k.lower() == b"connection").lower()
        toks = {t.strip(b" \t") for t in conn.split(b",")}
        is_upg = b"upgrade" in toks and any(k.lower() == b"upgrade" for k, _ in m["fields"])
        if m["method"].upper() == b"CONNECT" or (is_upg and not through_upgrade):
            return msgs, "switch", pos
        if b"close" in toks or (m["version"] <= (1, 0) and b"keep-alive" not in toks):
            return msgs, "close", pos
