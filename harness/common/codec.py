"""Encoding of Python values for the driver's line protocol (see lean/AioModel/Wire.lean)."""


def hx(b):
    b = bytes(b)
    return b.hex() if b else "-"


def unhx(s):
    return b"" if s == "-" else bytes.fromhex(s)


def st(s):
    """Python str -> '.'-separated decimal code points ('-' if empty)"""
    return ".".join(str(ord(c)) for c in s) if s else "-"


def b01(x):
    return "1" if x else "0"
