"""C20 part 2 (stub)"""
THEOREMS_DRAIN = []
RULE_DRAIN = ""
def generate_constants(repo): return {}
def check_drain(ctx): pass
def replay_drain(ctx, case): pass
