"""Shared WebSocket helpers of the C11 / C12 harnesses: frame builder, fake transport, real
reader factory with a recording inflater, canonicalisation, and the Python twin of the Lean
reference decoder `Aio.C12.Spec.decode` (lean/AioModel/C12Spec.lean)."""
import asyncio, struct, zlib
from .codec import hx

TRAIL = b"\x00\x00\xff\xff"
_LOOP = None


def loop():
    global _LOOP
    if _LOOP is None or _LOOP.is_closed():
        _LOOP = asyncio.new_event_loop()
    return _LOOP


class FakeTransport:
    def __init__(self):
        self.out = bytearray(); self.writes = []; self.closing = False
        self.pause_calls = 0; self.resume_calls = 0
    def write(self, d):
        d = bytes(d); self.out += d; self.writes.append(d)
    def is_closing(self): return self.closing
    def pause_reading(self): self.pause_calls += 1
    def resume_reading(self): self.resume_calls += 1
    def get_write_buffer_size(self): return 0


def mask_bytes(key, data):
    return bytes(b ^ key[i % 4] for i, b in enumerate(data))


def mkframe(fin, op, payload, rsv=0, mask=None, lenform=None, declared=None):
    """one RFC 6455 frame. rsv: 3-bit value (4 = RSV1). lenform: None (minimal) | 126 | 127.
    declared: lie about the payload length (for truncated / oversize headers)."""
    b0 = (0x80 if fin else 0) | ((rsv & 7) << 4) | (op & 15)
    n = len(payload) if declared is None else declared
    mb = 0x80 if mask is not None else 0
    if lenform is None:
        lenform = 0 if n < 126 else 126 if n < 65536 else 127
    if lenform == 0:
        h = bytes([b0, n | mb])
    elif lenform == 126:
        h = bytes([b0, 126 | mb]) + struct.pack("!H", n)
    else:
        h = bytes([b0, 127 | mb]) + struct.pack("!Q", n)
    if mask is not None:
        return h + mask + mask_bytes(mask, payload)
    return h + payload


class RecInflater:
    """wraps the real ZLibDecompressor the reader creates; records every call (oracle columns)"""
    log = None  # set per run

    def __init__(self, *a, **kw):
        from aiohttp.compression_utils import ZLibDecompressor
        self._inner = ZLibDecompressor(*a, **kw)

    def decompress_sync(self, data, max_length=0):
        from aiohttp.compression_utils import TooManyMembersError
        data = bytes(data)
        try:
            out = self._inner.decompress_sync(data, max_length)
        except TooManyMembersError:
            RecInflater.log.append((data, max_length, "many")); raise
        except zlib.error:
            RecInflater.log.append((data, max_length, "err")); raise
        RecInflater.log.append((data, max_length, bytes(out)))
        return out


class RealReader:
    """the real WebSocketReader + WebSocketDataQueue on a BaseProtocol with a fake transport"""

    def __init__(self, max_msg_size, compress, decode_text, limit):
        from aiohttp._websocket import reader_py
        from aiohttp.base_protocol import BaseProtocol
        lp = loop()
        self.proto = BaseProtocol(lp)
        self.proto._upgraded = True
        self.tr = FakeTransport()
        self.proto.transport = self.tr
        self.q = reader_py.WebSocketDataQueue(self.proto, limit, loop=lp)
        self.r = reader_py.WebSocketReader(self.q, max_msg_size, compress, decode_text)
        self.zlog = []
        self.nread = 0
        self.delivered = []   # canonical messages in delivery order (queue + consumed)
        self._seen = 0
        self.max_retained = 0
        self.consumed = []        # canonical messages obtained through queue.read()
        self.read_raised = None
        self.dropped_by_read = 0

    def _sync(self):
        # messages newly put on the queue
        buf = list(self.q._buffer)
        total = self.nread + len(buf)
        new = total - len(self.delivered)
        if new > 0:
            for m in buf[len(buf) - new:]:
                self.delivered.append(canon_msg(m))

    def feed(self, data):
        from aiohttp._websocket import reader_py
        old = reader_py.ZLibDecompressor
        reader_py.ZLibDecompressor = RecInflater
        RecInflater.log = self.zlog
        try:
            ret = self.r.feed_data(data)
        finally:
            reader_py.ZLibDecompressor = old
        self._sync()
        self.max_retained = max(self.max_retained, self.retained())
        return ret

    def exc_code(self):
        return canon_exc(self.q._exception if self.r._exc is not None or self.q._exception is not None else None)

    def retained(self):
        r = self.r
        return len(r._tail) + sum(len(f) for f in r._payload_fragments) + len(r._partial)

    def state(self):
        r = self.r
        ph = {1: "H", 2: "L", 3: "K", 4: "P"}.get(r._state, "?")
        return (f"f:{ph},{len(r._tail)},{sum(len(f) for f in r._payload_fragments)},{len(r._payload_fragments)},"
                f"{r._payload_bytes_to_read},{len(r._partial)},{len(self.delivered)},{self.q._size},"
                f"{1 if self.proto._reading_paused else 0},{self.exc_code()}")

    def read(self):
        """one `await queue.read()` through the PUBLIC coroutine (driven by hand: it does not suspend when a
        message is buffered or the queue is at eof/has an exception; otherwise it would wait -> "r:empty").
        Records what the consumer actually obtained in self.consumed / self.read_raised."""
        q = self.q
        if not q._buffer and not q._eof:
            return "r:empty"          # read() would park on its waiter
        nbuf = len(q._buffer)
        coro = q.read()
        try:
            coro.send(None)
        except StopIteration as st:
            m = st.value
            self.nread += 1
            cm = canon_msg(m)
            self.consumed.append(cm)
            return f"r:{cm},{q._size},{1 if self.proto._reading_paused else 0}"
        except BaseException as e:  # noqa
            self.read_raised = canon_exc(e)
            if nbuf:
                self.dropped_by_read = nbuf   # an error was raised ahead of messages still buffered
            return "r:raise:" + canon_exc(e)
        coro.close()
        q._waiter = None
        return "r:blocked"

    def drain(self, ops, toks, limit=100000):
        """the consumer reads until the queue raises / is empty"""
        for _ in range(limit):
            t = self.read()
            ops.append("R"); toks.append(t)
            if not t.startswith("r:") or t.startswith("r:raise") or t in ("r:empty", "r:blocked"):
                return


def canon_exc(e):
    from aiohttp._websocket.models import WebSocketError
    if e is None:
        return "none"
    if isinstance(e, WebSocketError):
        return f"ws{int(e.code)}"
    if isinstance(e, zlib.error):
        return "zlib"
    if type(e).__name__ == "EofStream":
        return "eof"
    return f"E_OTHER({type(e).__name__})"


def canon_msg(m):
    from aiohttp._websocket.models import WSMsgType
    t = m.type
    if t == WSMsgType.TEXT:
        d = m.data
        if isinstance(d, str):
            d = d.encode("utf-8", "surrogatepass")
        return f"T:{hx(d)}/{m.size}"
    if t == WSMsgType.BINARY:
        return f"B:{hx(m.data)}/{m.size}"
    if t == WSMsgType.PING:
        return f"P:{hx(m.data)}/{m.size}"
    if t == WSMsgType.PONG:
        return f"O:{hx(m.data)}/{m.size}"
    if t == WSMsgType.CLOSE:
        return f"C:{int(m.data)}:{hx((m.extra or '').encode('utf-8', 'surrogatepass'))}/{m.size}"
    return f"?{t!r}"


def zcolumn(zlog):
    if not zlog:
        return "-"
    return ";".join(r if isinstance(r, str) else "ok:" + hx(r) for _, _, r in zlog)


def zcalls(zlog):
    if not zlog:
        return "-"
    return ";".join(f"{hx(d)}@{m}" for d, m, _ in zlog)


# ------------------------------------------------------------------ reference decoder (python twin of Spec.decode)
def utf8_ok(b):
    try:
        bytes(b).decode("utf-8")
        return True
    except UnicodeDecodeError:
        return False


class TooManyMembers(Exception):
    pass


class RefInflater:
    """independent use of zlib: raw deflate, one context for the whole connection; a BFINAL
    block ends a stream and the next bytes start a new one"""

    def __init__(self):
        self.d = zlib.decompressobj(wbits=-15)
        try:
            from aiohttp.compression_utils import MAX_DECOMPRESS_MEMBERS as cap_members
        except Exception:
            cap_members = 1024
        self.cap_members = cap_members

    def inflate(self, data, cap):
        out = bytearray()
        data = bytes(data)
        members = 1
        while True:
            out += self.d.decompress(data, max(cap + 1 - len(out), 1) if cap else 0)
            if cap and len(out) > cap:
                return bytes(out)       # already too big; the caller rejects
            if self.d.eof and self.d.unused_data:
                data = self.d.unused_data
                self.d = zlib.decompressobj(wbits=-15)
                members += 1
                if members > self.cap_members:
                    raise TooManyMembers()     # the documented cap on concatenated deflate members per message
                continue
            return bytes(out)


CLOSE_OK = {1000, 1001, 1002, 1003, 1006, 1007, 1008, 1009, 1010, 1011, 1012, 1013, 1014}
# NB: the property text speaks of RFC 6455 §7.4; 1006 is "reserved, MUST NOT be sent" there but is in
# aiohttp's WSCloseCode and 1004/1005/1015 are not — the table is regenerated from the source
# for the model; the oracle uses the enum too (the property anchors models.py).


def py_spec(max_msg, compress, decode_text, data, allowed=None):
    """-> (msgs, err, kind, at_limit); err in {None, 'ws1002', 'ws1007', 'ws1009', 'zlib'};
    at_limit: None, or the number of messages delivered before the first data frame that brought a
    message to exactly max_msg_size wire bytes"""
    allowed = CLOSE_OK if allowed is None else allowed
    msgs = []; i = 0; n_all = len(data); openm = None; z = RefInflater(); lim = None

    def finish(op, cz, payload):
        if cz:
            try:
                payload = z.inflate(payload + TRAIL, max_msg)
            except TooManyMembers:
                return "ws1009", "too-big"
            except zlib.error:
                return "zlib", "inflate"
            if max_msg and len(payload) > max_msg:
                return "ws1009", "too-big"
        if op == 1:
            if decode_text and not utf8_ok(payload):
                return "ws1007", "utf8-text"
            msgs.append(f"T:{hx(payload)}/{len(payload)}")
        else:
            msgs.append(f"B:{hx(payload)}/{len(payload)}")
        return None, None

    while True:
        if n_all - i < 2:
            return msgs, None, None, lim
        b0, b1 = data[i], data[i + 1]; i += 2
        fin = b0 >> 7; rsv1 = (b0 >> 6) & 1; rsv2 = (b0 >> 5) & 1; rsv3 = (b0 >> 4) & 1; op = b0 & 15
        masked = b1 >> 7; len7 = b1 & 127
        if rsv2 or rsv3 or (rsv1 and not compress):
            return msgs, "ws1002", "rsv", lim
        if op not in (0, 1, 2, 8, 9, 10):
            return msgs, "ws1002", "opcode", lim
        if op >= 8 and not fin:
            return msgs, "ws1002", "ctl-fragmented", lim
        if op >= 8 and len7 > 125:
            return msgs, "ws1002", "ctl-too-long", lim
        if rsv1 and (op >= 8 or openm is not None):
            return msgs, "ws1002", "rsv", lim
        if len7 == 126:
            if n_all - i < 2: return msgs, None, None, lim
            n = struct.unpack_from("!H", data, i)[0]; i += 2
        elif len7 == 127:
            if n_all - i < 8: return msgs, None, None, lim
            n = struct.unpack_from("!Q", data, i)[0]; i += 8
        else:
            n = len7
        cur = len(openm[2]) if openm is not None else 0
        if n >= 2 ** 63:
            return msgs, "ws1009", "too-big", lim
        if op < 8 and max_msg and cur + n > max_msg:
            return msgs, "ws1009", "too-big", lim
        if op < 8 and max_msg and cur + n == max_msg and lim is None:
            lim = len(msgs)
        key = None
        if masked:
            if n_all - i < 4: return msgs, None, None, lim
            key = data[i:i + 4]; i += 4
        if n_all - i < n:
            return msgs, None, None, lim
        payload = data[i:i + n]; i += n
        if key is not None:
            payload = mask_bytes(key, payload)
        if op >= 8:
            if op == 8:
                if len(payload) == 0:
                    msgs.append("C:0:-/0")
                elif len(payload) == 1:
                    return msgs, "ws1002", "close-payload", lim
                else:
                    code = payload[0] * 256 + payload[1]
                    if code > 4999 or (code < 3000 and code not in allowed):
                        return msgs, "ws1002", "close-code", lim
                    if not utf8_ok(payload[2:]):
                        return msgs, "ws1007", "utf8-close", lim
                    msgs.append(f"C:{code}:{hx(payload[2:])}/{len(payload)}")
            elif op == 9:
                msgs.append(f"P:{hx(payload)}/{len(payload)}")
            else:
                msgs.append(f"O:{hx(payload)}/{len(payload)}")
        elif op == 0:
            if openm is None:
                return msgs, "ws1002", "cont-no-start", lim
            if fin:
                e, k = finish(openm[0], openm[1], openm[2] + payload); openm = None
                if e: return msgs, e, k, lim
            else:
                openm = (openm[0], openm[1], openm[2] + payload)
        else:
            if openm is not None:
                return msgs, "ws1002", "data-in-message", lim
            if fin:
                e, k = finish(op, bool(rsv1), payload)
                if e: return msgs, e, k, lim
            else:
                openm = (op, bool(rsv1), payload)
