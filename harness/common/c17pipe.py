"""C17 helper: in-memory origin servers for a real ClientSession.

`PipeConnector` resolves *every* (scheme, host, port) to an in-memory pipe whose other end
is a real `aiohttp.web.Server` protocol (low-level server, no router).  Nothing touches a
socket, DNS or TLS: the connector records which origin each connection was opened for, and
the handler records every request exactly as the server protocol parsed it (method, raw
target, ordered raw header list, body), tagged with that origin.
"""
import asyncio

from aiohttp import web
from aiohttp.connector import BaseConnector


class PipeT(asyncio.Transport):
    """one direction-pair endpoint; bytes written here are delivered to the peer's protocol"""

    def __init__(self, loop, extra=None):
        super().__init__()
        self.loop = loop
        self.peer = None
        self.proto = None
        self.closing = False
        self.closed = False
        self.paused = False
        self.buf = bytearray()
        self.extra = extra or {}

    def write(self, data):
        if self.closing or self.peer is None:
            return
        self.peer.buf += bytes(data)
        self.loop.call_soon(self.peer._pump)

    def writelines(self, l):
        for d in l:
            self.write(d)

    def _pump(self):
        if self.closed or self.paused or not self.buf:
            return
        d = bytes(self.buf)
        del self.buf[:]
        self.proto.data_received(d)

    def is_closing(self):
        return self.closing

    def close(self):
        if self.closing:
            return
        self.closing = True
        self.loop.call_soon(self._lost)
        if self.peer is not None:
            self.loop.call_soon(self.peer._peer_closed)

    abort = close

    def _peer_closed(self):
        if self.buf and not self.paused and not self.closed:
            self.loop.call_soon(self._peer_closed)
            return
        if not self.closing:
            self.closing = True
            self.loop.call_soon(self._lost)

    def _lost(self):
        if not self.closed:
            self.closed = True
            self.proto.connection_lost(None)

    def pause_reading(self):
        self.paused = True

    def resume_reading(self):
        self.paused = False
        self.loop.call_soon(self._pump)

    def get_extra_info(self, name, default=None):
        return self.extra.get(name, default)

    def get_write_buffer_size(self):
        return 0

    def set_write_buffer_limits(self, high=None, low=None):
        pass

    def can_write_eof(self):
        return False


class PipeConnector(BaseConnector):
    """every connection request is served by `server_factory()`; the origin asked for is
    attached to the server-side transport (extra info 'c17_origin')"""

    def __init__(self, server_factory, **kw):
        super().__init__(**kw)
        self.server_factory = server_factory
        self.pairs = []          # (origin, client transport, server transport)

    async def _create_connection(self, req, traces, timeout):
        key = req.connection_key
        origin = ("https" if key.is_ssl else "http", key.host, key.port)
        cp = self._factory()
        sp = self.server_factory()
        ct = PipeT(self._loop)
        st = PipeT(self._loop, {"c17_origin": origin})
        ct.peer, st.peer = st, ct
        ct.proto, st.proto = cp, sp
        sp.connection_made(st)
        cp.connection_made(ct)
        self.pairs.append((origin, ct, st))
        return cp


def make_server(handler):
    """low-level aiohttp server; `handler(request) -> web.Response`"""
    return web.Server(handler)


def make_proxy_connector(server_factory, **kw):
    """A real TCPConnector (all of aiohttp's proxy logic runs: proxy request construction, Proxy-Authorization placement,
    CONNECT for https targets) whose only replaced parts are name resolution, the socket and the TLS upgrade: every
    connection - to an origin or to a proxy - is an in-memory pipe to `server_factory()`; the endpoint it was opened
    for is attached to the server-side transport (extra info 'c17_endpoint' = (host, port))."""
    import socket
    from aiohttp.connector import TCPConnector

    class ProxyPipeConnector(TCPConnector):
        def __init__(self, **kw2):
            super().__init__(**kw2)
            self.pairs = []

        async def _resolve_host(self, host, port, traces=None):
            return [{"hostname": host, "host": "192.0.2.1", "port": port, "family": socket.AF_INET, "proto": 0, "flags": 0}]

        async def _wrap_create_connection(self, *args, addr_infos, req, timeout, client_error=None, **kwargs):
            endpoint = (req.url.raw_host, req.url.port)
            cp = args[0]()
            sp = server_factory()
            ct = PipeT(self._loop)
            st = PipeT(self._loop, {"c17_endpoint": endpoint})
            ct.peer, st.peer = st, ct
            ct.proto, st.proto = cp, sp
            sp.connection_made(st)
            cp.connection_made(ct)
            self.pairs.append((endpoint, ct, st))
            return ct, cp

        async def _start_tls_connection(self, underlying_transport, req, timeout, client_error=None):
            # after a successful CONNECT the tunnel is used in clear text (no TLS inside the harness)
            proto = self._factory()
            underlying_transport.proto = proto
            proto.connection_made(underlying_transport)
            return underlying_transport, proto

        def _warn_about_tls_in_tls(self, transport, req):
            pass

    return ProxyPipeConnector(**kw)
