"""C17 helper: in-memory origin servers for a real ClientSession.

`PipeConnector` resolves *every* (scheme, host, port) to an in-memory pipe whose other end
is a real `aiohttp.web.Server` protocol (low-level server, no router).  Nothing touches a
socket, DNS or TLS: the connector records which origin each connection was opened for, and
the handler records every request exactly as the server protocol parsed it (method, raw
target, ordered raw header list, body), tagged with that origin.
"""
import asyncio

from aiohttp import web
from aiohttp.connector import BaseConnector


class PipeT(asyncio.Transport):
    """one direction-pair endpoint; bytes written here are delivered to the peer's protocol"""

    def __init__(self, loop, extra=None):
        super().__init__()
        self.loop = loop
        self.peer = None
        self.proto = None
        self.closing = False
        self.closed = False
        self.paused = False
        self.buf = bytearray()
        self.extra = extra or {}

    def write(self, data):
        if self.closing or self.peer is None:
            return
        self.peer.buf += bytes(data)
        self.loop.call_soon(self.peer._pump)

    def writelines(self, l):
        for d in l:
            self.write(d)

    def _pump(self):
        if self.closed or self.paused or not self.buf:
            return
        d = bytes(self.buf)
        del self.buf[:]
        self.proto.data_received(d)

    def is_closing(self):
        return self.closing

    def close(self):
        if self.closing:
            return
        self.closing = True
        self.loop.call_soon(self._lost)
        if self.peer is not None:
            self.loop.call_soon(self.peer._peer_closed)

    abort = close

    def _peer_closed(self):
        if self.buf and not self.paused and not self.closed:
            self.loop.call_soon(self._peer_closed)
            return
        if not self.closing:
            self.closing = True
            self.loop.call_soon(self._lost)

    def _lost(self):
        if not self.closed:
            self.closed = True
            self.proto.connection_lost(None)

    def pause_reading(self):
        self.paused = True

    def resume_reading(self):
        self.paused = False
        self.loop.call_soon(self._pump)

    def get_extra_info(self, name, default=None):
        return self.extra.get(name, default)

    def get_write_buffer_size(self):
        return 0

    def set_write_buffer_limits(self, high=None, low=None):
        pass

    def can_write_eof(self):
        return False


class PipeConnector(BaseConnector):
    """every connection request is served by `server_factory()`; the origin asked for is
    attached to the server-side transport (extra info 'c17_origin')"""

    def __init__(self, server_factory, **kw):
        super().__init__(**kw)
        self.server_factory = server_factory
        self.pairs = []          # (origin, client transport, server transport)

    async def _create_connection(self, req, traces, timeout):
        key = req.connection_key
        origin = ("https" if key.is_ssl else "http", key.host, key.port)
        cp = self._factory()
        sp = self.server_factory()
        ct = PipeT(self._loop)
        st = PipeT(self._loop, {"c17_origin": origin})
        ct.peer, st.peer = st, ct
        ct.proto, st.proto = cp, sp
        sp.connection_made(st)
        cp.connection_made(ct)
        self.pairs.append((origin, ct, st))
        return cp


def make_server(handler):
    """low-level aiohttp server; `handler(request) -> web.Response`"""
    return web.Server(handler)
