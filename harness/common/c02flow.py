"""C02 helper — exchanges that reach aiohttp's own flow control, the sock_read timer and the
end-of-upload decision (oracle-only scenarios; see TRUSTED_BASE of harness/c02.py).

Three families, all through the real ClientSession <-> AppRunner pipe of c02pipe.py:

* ``flow``   : small ``read_bufsize`` on the receiving side (ClientSession(read_bufsize=) for
               downloads, AppRunner(app, read_bufsize=) for uploads), bodies several times the
               high-water mark (2 x read_bufsize), chunked or Content-Length framing, segmentations
               that cut HTTP chunks mid-data, and a consumer that reads incrementally with sleeps
               so that the StreamReader pauses and resumes the transport while a chunk is in
               flight.  Property: the body delivered is the body sent and the read completes.
* ``timer``  : the same with ``ClientTimeout(sock_read=T)`` and a consumer that stays away longer
               than T while *aiohttp itself* paused the transport.  Property: a healthy exchange
               (every byte already written by the server, nothing stalled on the wire) delivers
               the whole body without a timeout error.
* ``upfail`` : uploads whose body source fails part-way (async generator raising after k of n
               chunks, file-like whose read() raises), chunked and Content-Length framed.
               Property: the handler observes a *complete* body only if it is everything the
               application supplied; a failed upload must look incomplete to the server.
"""
import asyncio, hashlib, io, os
from . import vloop
from .c02pipe import make_connector


from . import c02conv

KINDS = ("flow", "timer", "upfail", "early", "crlfcut") + c02conv.KINDS


def blob(n, tag):
    base = (b"%d\r\n0\r\n\r\nHTTP/1.1 200 OK\r\n7\r\n" % tag) * (n // 20 + 1)
    return base[:n]


def split_sizes(n, sizes):
    out, i = [], 0
    for s in sizes:
        if i >= n:
            break
        out.append((i, min(n, i + s))); i += s
    if i < n:
        out.append((i, n))
    return out


class FailingBytesIO(io.BytesIO):
    """a file-like upload source whose read() fails after `ok_reads` successful reads"""

    def __init__(self, data, ok_reads, exc):
        super().__init__(data)
        self._ok, self._exc = ok_reads, exc

    def read(self, *a):
        if self._ok <= 0:
            raise self._exc
        self._ok -= 1
        return super().read(*a)


def make_exc(name):
    if name == "OSError":
        return OSError(5, "Input/output error")
    if name == "TimeoutError":
        return asyncio.TimeoutError()
    if name == "RuntimeError":
        return RuntimeError("upload source broke")
    if name == "ValueError":
        return ValueError("upload source broke")
    raise ValueError(name)


async def consume(stream, rd, got):
    """incremental consumer: `rd` = {mode, size, first_sleep, every, sleep}"""
    mode, size = rd.get("mode", "readany"), rd.get("size", 100)
    if rd.get("first_sleep"):
        await asyncio.sleep(rd["first_sleep"])
    i = 0

    async def nap():
        nonlocal i
        i += 1
        if rd.get("every") and i % rd["every"] == 0:
            await asyncio.sleep(rd.get("sleep", 0.01))
    if mode == "iter_chunked":
        async for b in stream.iter_chunked(size):
            got += b
            await nap()
    elif mode == "read_n":
        while True:
            b = await stream.read(size)
            if not b:
                break
            got += b
            await nap()
    elif mode == "iter_any":
        async for b in stream.iter_any():
            got += b
            await nap()
    else:
        while True:
            b = await stream.readany()
            if not b:
                break
            got += b
            await nap()


async def _run(case, obs):
    import aiohttp
    from aiohttp import web
    kind, direction = case["kind"], case.get("dir", "down")
    n = case["n"]
    body = blob(n, 7)
    parts = [body[a:b] for a, b in split_sizes(n, case.get("writes") or [n])]
    loop = asyncio.get_running_loop()
    srv = obs["srv"] = {}
    cli = obs["cli"] = {}

    async def handler(request):
        if direction == "down":
            await request.read()
            r = web.StreamResponse()
            if case.get("framing") == "length":
                r.content_length = n
            await r.prepare(request)
            for p in parts:
                await r.write(p)
                if case.get("server_yield"):
                    await asyncio.sleep(0)
            await r.write_eof()
            srv["wrote_all"] = True
            return r
        if request.path == "/after":
            data2 = await request.read()          # the follow-up request of the upfail scenarios
            return web.Response(text=f"{len(data2)}:{hashlib.sha1(data2).hexdigest()}")
        got = bytearray()
        srv["got"] = got
        try:
            await consume(request.content, case.get("reader", {}), got)
        except BaseException as e:  # noqa
            srv["read_exc"] = type(e).__name__
            raise
        srv["complete"] = True
        return web.Response(text=f"{len(got)}:{hashlib.sha1(bytes(got)).hexdigest()}")

    app = web.Application(client_max_size=1 << 30)
    app.router.add_route("*", "/{tail:.*}", handler)
    kw = {}
    if direction == "up" and case.get("bufsize"):
        kw["read_bufsize"] = case["bufsize"]
    runner = web.AppRunner(app, **kw)
    await runner.setup()
    seg = case.get("seg") or ["whole"]
    conn = make_connector(runner.server, seg if direction == "up" else ["whole"], seg if direction == "down" else ["whole"])
    skw = {}
    if direction == "down" and case.get("bufsize"):
        skw["read_bufsize"] = case["bufsize"]
    timeout = aiohttp.ClientTimeout(total=None, sock_read=case.get("sock_read"))
    t0 = loop.time()
    try:
        async with aiohttp.ClientSession(connector=conn, timeout=timeout, **skw) as s:
            try:
                if direction == "down":
                    async with s.get("http://example.test/d") as resp:
                        cli["status"] = resp.status
                        got = bytearray(); cli["got"] = got
                        await consume(resp.content, case.get("reader", {}), got)
                        cli["complete"] = True
                else:
                    src = case.get("source", "agen")
                    hdrs = {}
                    rkw = {}
                    if src == "agen":
                        fail = case.get("fail_after")

                        async def gen():
                            for i, p in enumerate(parts):
                                if fail is not None and i == fail:
                                    raise make_exc(case.get("exc", "OSError"))
                                yield p
                                if case.get("client_yield"):
                                    await asyncio.sleep(0)
                        data = gen()
                        if case.get("framing") == "length":
                            hdrs["Content-Length"] = str(n)
                    elif src == "filelike":
                        data = FailingBytesIO(body, case.get("fail_after", 1), make_exc(case.get("exc", "OSError"))) \
                            if case.get("fail_after") is not None else io.BytesIO(body)
                        if case.get("framing") == "chunked":
                            rkw["chunked"] = True
                    else:
                        data = body
                        if case.get("framing") == "chunked":
                            rkw["chunked"] = True
                    async with s.post("http://example.test/u", data=data, headers=hdrs or None, **rkw) as resp:
                        cli["status"] = resp.status
                        cli["text"] = await resp.text()
                        cli["complete"] = True
            except BaseException as e:  # noqa
                if isinstance(e, (KeyboardInterrupt, SystemExit)):
                    raise
                cli["exc"] = type(e).__name__
            cli["vt"] = loop.time() - t0
            if kind == "upfail":
                # history: the session (and its connector) must be usable after a failed upload
                try:
                    async with s.post("http://example.test/after", data=b"after") as r2:
                        cli["second"] = (r2.status, await r2.text())
                except BaseException as e:  # noqa
                    if isinstance(e, (KeyboardInterrupt, SystemExit)):
                        raise
                    cli["second_exc"] = type(e).__name__
            for _ in range(20):
                await asyncio.sleep(0)
            # give a handler that is still waiting for body bytes the chance to see the connection end
            await asyncio.sleep(0.5)
            obs["wires"] = [(bytes(c.log), bytes(t.log)) for c, t in conn.pairs]
            obs["pauses"] = [(getattr(c, "pauses", 0), getattr(t, "pauses", 0)) for c, t in conn.pairs]
            obs["pause_at"] = [(list(getattr(c, "pause_at", [])), list(getattr(t, "pause_at", []))) for c, t in conn.pairs]
            obs["undelivered"] = [(len(c.buf), len(t.buf)) for c, t in conn.pairs]
    finally:
        await runner.cleanup()


async def _run_early(case, obs):
    """the handler answers WITHOUT reading the (whole) request body while the upload is still in flight; then a
    second, non-idempotent request goes out on the same session"""
    import aiohttp
    from aiohttp import web
    n = case["n"]
    body = blob(n, 9)
    parts = [body[a:b] for a, b in split_sizes(n, case.get("writes") or [n])]
    srv = obs["srv"] = {"reqs": []}
    cli = obs["cli"] = {}

    async def handler(request):
        if request.path == "/echo":
            data = await request.read()
            srv["reqs"].append(("echo", len(data)))
            return web.Response(body=data)
        k = case.get("read", 0)
        got = b""
        if k:
            got = await request.content.read(k)
        srv["reqs"].append(("early", len(got)))
        r = web.Response(status=case.get("status", 403), text="denied")
        srv["resp"] = r
        return r

    app = web.Application(client_max_size=1 << 30)
    app.router.add_route("*", "/{tail:.*}", handler)
    kw = {}
    if case.get("bufsize"):
        kw["read_bufsize"] = case["bufsize"]
    if case.get("lingering") is not None:
        kw["lingering_time"] = case["lingering"]
    runner = web.AppRunner(app, **kw)
    await runner.setup()
    conn = make_connector(runner.server, case.get("seg") or ["whole"], ["whole"])
    loop = asyncio.get_running_loop()
    try:
        async with aiohttp.ClientSession(connector=conn, timeout=aiohttp.ClientTimeout(total=None)) as s:
            rkw = {}
            if case.get("source") == "agen":
                async def gen():
                    for p in parts:
                        yield p
                        if case.get("client_yield"):
                            await asyncio.sleep(0)
                data = gen()
                if case.get("framing") == "length":
                    rkw["headers"] = {"Content-Length": str(n)}
            else:
                data = body
                if case.get("framing") == "chunked":
                    rkw["chunked"] = True
            try:
                async with s.post("http://example.test/early", data=data, **rkw) as resp:
                    cli["status"] = resp.status
                    cli["version"] = list(resp.version)
                    cli["conn_hdr"] = resp.headers.get("Connection")
                    cli["text"] = await resp.text()
            except BaseException as e:  # noqa
                if isinstance(e, (KeyboardInterrupt, SystemExit)):
                    raise
                cli["exc"] = type(e).__name__
            for _ in range(case.get("gap", 0)):
                await asyncio.sleep(0)
            cli["release"] = list(conn.release_log)
            n0 = len(conn.pairs)
            try:
                async with s.post("http://example.test/echo", data=b"second") as r2:
                    cli["second"] = (r2.status, await r2.read())
            except BaseException as e:  # noqa
                if isinstance(e, (KeyboardInterrupt, SystemExit)):
                    raise
                cli["second_exc"] = type(e).__name__
            cli["second_new_conn"] = len(conn.pairs) - n0
            for _ in range(30):
                await asyncio.sleep(0)
            ct, st = conn.pairs[0]
            obs["first_conn"] = {"server_closed_it": st.closed_by == "self", "client_closed_it": ct.closed_by == "self",
                                 "undelivered_to_server": len(st.buf)}
            obs["wires"] = [(bytes(c.log), bytes(t.log)) for c, t in conn.pairs]
            r = srv.get("resp")
            obs["srv_keep_alive"] = None if r is None else bool(r.keep_alive)
    finally:
        await runner.cleanup()


def oracle_early(ctx, case, obs):
    V = lambda sig, detail: ctx.violation("C02/" + sig, case, detail)
    cli, srv = obs.get("cli", {}), obs.get("srv", {})
    fr = case.get("framing", "length")
    tag = f"{fr}" + ("-lingering0" if case.get("lingering") == 0 else "")
    if "exc" in cli:
        V(f"response-lost/early-response-{tag}", f"handler answered {case.get('status', 403)} without reading the body; caller got {cli['exc']}")
        return
    if cli.get("status") != case.get("status", 403) or cli.get("text") != "denied":
        V(f"response-differs/early-response-{tag}", f"caller saw {cli.get('status')} {cli.get('text')!r}")
        return
    rel = cli.get("release") or []
    client_keeps = bool(rel) and not (rel[0]["force"] or rel[0]["arg"] or rel[0]["proto"])
    announced_keep = cli.get("version") == [1, 1] and (cli.get("conn_hdr") or "").lower() != "close"
    fc = obs.get("first_conn", {})
    if announced_keep and client_keeps:
        # the response said keep-alive and the client took it at its word: the server must keep the connection usable
        broken = cli.get("second_exc") or cli.get("second") != (200, b"second")
        if fc.get("server_closed_it") or broken or cli.get("second_new_conn"):
            V(f"keepalive-not-honoured/early-response-{tag}",
              f"handler answered without reading the {case['n']}-byte {fr} body (upload in {case.get('seg')}); the response announced keep-alive "
              f"(resp.keep_alive={obs.get('srv_keep_alive')}, no Connection: close) and the client pooled the connection, but the server "
              f"closed it={fc.get('server_closed_it')}; next request: {cli.get('second_exc') or cli.get('second')} "
              f"(new connection: {cli.get('second_new_conn')}); requests seen by handlers: {srv.get('reqs')}")
            return
    if cli.get("second_exc") or cli.get("second") != (200, b"second"):
        V(f"next-request-broken/early-response-{tag}",
          f"announced keep-alive={announced_keep}, client kept={client_keeps}; next request: {cli.get('second_exc') or cli.get('second')}")


MARK = "ZQZ"


async def _run_crlfcut(case, obs):
    """a start line / header line of exactly (or one below) the configured limit, with one cut exactly between
    its CR and LF (or unsegmented, as control): the exchange must succeed exactly as unsegmented"""
    import aiohttp
    from aiohttp import web
    L, where, direction = case["limit"], case["where"], case["dir"]
    size = L - case.get("below", 0)
    srv, cli = obs.setdefault("srv", {}), obs.setdefault("cli", {})
    val = "v" * (size - len("X-Long: ") - len(MARK)) + MARK
    path = "/" + "p" * (size - len("GET / HTTP/1.1") - len(MARK)) + MARK
    reason = "R" * (size - len("HTTP/1.1 200 ") - len(MARK)) + MARK

    async def handler(request):
        srv["path"] = request.path
        srv["hdr"] = request.headers.get("X-Long")
        kw = {}
        if direction == "down":
            if where == "field":
                kw["headers"] = {"X-Long": val}
            else:
                kw["reason"] = reason
        return web.Response(text="ok", **kw)

    app = web.Application()
    app.router.add_route("*", "/{tail:.*}", handler)
    skw, ckw = {}, {}
    if L != 8190:
        skw = {"max_line_size": L, "max_field_size": L}
        ckw = {"max_line_size": L, "max_field_size": L}
    runner = web.AppRunner(app, **skw)
    await runner.setup()
    if direction == "up":
        marker = (MARK + "\r") if where == "field" else (MARK + " HTTP/1.1\r")
    else:
        marker = MARK + "\r"
    seg = ["cutafter", marker.encode().hex()] if case.get("cut") else ["whole"]
    conn = make_connector(runner.server, seg if direction == "up" else ["whole"], seg if direction == "down" else ["whole"])
    try:
        async with aiohttp.ClientSession(connector=conn, timeout=aiohttp.ClientTimeout(total=None), **ckw) as s:
            try:
                url = "http://example.test" + (path if (direction == "up" and where == "line") else "/x")
                hdrs = {"X-Long": val} if (direction == "up" and where == "field") else None
                async with s.get(url, headers=hdrs) as resp:
                    cli["status"] = resp.status
                    cli["reason"] = resp.reason
                    cli["hdr"] = resp.headers.get("X-Long")
                    cli["text"] = await resp.text()
            except BaseException as e:  # noqa
                if isinstance(e, (KeyboardInterrupt, SystemExit)):
                    raise
                cli["exc"] = type(e).__name__
            obs["deliveries"] = [(c.deliveries, t.deliveries) for c, t in conn.pairs]
    finally:
        await runner.cleanup()
    obs["expect"] = {"val": val, "path": path, "reason": reason}


def oracle_crlfcut(ctx, case, obs):
    V = lambda sig, detail: ctx.violation("C02/" + sig, case, detail)
    cli, srv, ex = obs.get("cli", {}), obs.get("srv", {}), obs.get("expect", {})
    where, direction = case["where"], case["dir"]
    ok = cli.get("status") == 200 and cli.get("text") == "ok" and "exc" not in cli
    if ok and direction == "up":
        ok = (srv.get("hdr") == ex["val"]) if where == "field" else (srv.get("path") == ex["path"])
    if ok and direction == "down":
        ok = (cli.get("hdr") == ex["val"]) if where == "field" else (cli.get("reason") == ex["reason"])
    if not ok:
        what = "cut-between-cr-and-lf" if case.get("cut") else "unsegmented"
        V(f"line-at-size-limit-rejected/{what}/{'request' if direction == 'up' else 'response'}-{where}",
          f"{where} line of {case['limit'] - case.get('below', 0)} bytes (limit {case['limit']}), {what}: caller got "
          f"{cli.get('exc') or cli.get('status')} {cli.get('text')!r}; handler saw path/header of length "
          f"{len(srv.get('path') or '')}/{len(srv.get('hdr') or '')}")


def run_case(case):
    if case["kind"] in c02conv.KINDS:
        return c02conv.run_case(case)
    obs = {}

    async def main():
        if case["kind"] == "early":
            await _run_early(case, obs)
        elif case["kind"] == "crlfcut":
            await _run_crlfcut(case, obs)
        else:
            await _run(case, obs)
    from .c02pipe import run_budgeted
    return run_budgeted(main, obs)


def pause_position(case, obs):
    """where, relative to the HTTP chunks on the wire, the stream stood when the reader last asked for a
    pause: 'pause-mid-chunk' (a chunk's data partly delivered) or 'pause-at-chunk-boundary'"""
    down = case.get("dir", "down") == "down"
    try:
        wire = obs["wires"][0][1 if down else 0]
        at = obs["pause_at"][0][0 if down else 1]
    except (KeyError, IndexError):
        return "no-pause"
    if not at:
        return "no-pause"
    pos = at[-1]
    j = wire.find(b"\r\n\r\n")
    if j < 0:
        return "pause-in-head"
    i = j + 4
    if pos <= i:
        return "pause-in-head"
    while i < len(wire):
        k = wire.find(b"\r\n", i)
        if k < 0:
            break
        try:
            size = int(wire[i:k], 16)
        except ValueError:
            break
        d0, d1 = k + 2, k + 2 + size          # data occupies [d0, d1)
        if size and d0 < pos < d1:
            return "pause-mid-chunk"
        if pos <= d1 + 2:
            return "pause-at-chunk-boundary"
        if size == 0:
            break
        i = d1 + 2
    return "pause-at-chunk-boundary"


def oracle(ctx, case, obs):
    if case["kind"] in c02conv.KINDS:
        return c02conv.oracle(ctx, case, obs)
    if case["kind"] == "early":
        return oracle_early(ctx, case, obs)
    if case["kind"] == "crlfcut":
        return oracle_crlfcut(ctx, case, obs)
    V = lambda sig, detail: ctx.violation("C02/" + sig, case, detail)
    kind, direction = case["kind"], case.get("dir", "down")
    n = case["n"]
    body = blob(n, 7)
    cli, srv = obs.get("cli", {}), obs.get("srv", {})
    fr = case.get("framing", "chunked")
    if kind in ("flow", "timer"):
        if direction == "down":
            got = bytes(cli.get("got", b""))
            healthy = srv.get("wrote_all")
            if cli.get("exc") in ("SocketTimeoutError", "TimeoutError", "ServerTimeoutError") and healthy:
                V(f"read-timeout-while-client-paused-reading/{fr}",
                  f"sock_read={case.get('sock_read')}: the server had written all {n} bytes, the client (read_bufsize="
                  f"{case.get('bufsize')}) paused the transport itself and the slow consumer got {cli['exc']} after {len(got)} bytes")
                return
            if obs.get("quiescent") or not cli.get("complete"):
                if healthy or obs.get("quiescent"):
                    V(f"body-never-completes/response-{fr}" + ("/" + pause_position(case, obs) if fr == "chunked" else ""),
                      f"caller received {len(got)} of {n} bytes (read_bufsize={case.get('bufsize')}, segments {case.get('seg')}), then "
                      f"{'the read hung (nothing left to run)' if obs.get('quiescent') else 'got ' + str(cli.get('exc'))}; "
                      f"undelivered on the wire: {obs.get('undelivered')}")
                return
            if got != body:
                V(f"response-body-differs/flow-{fr}", f"sent {n} bytes, caller read {len(got)}")
        else:
            got = bytes(srv.get("got", b""))
            if obs.get("quiescent") or not srv.get("complete"):
                V(f"body-never-completes/request-{fr}" + ("/" + pause_position(case, obs) if fr == "chunked" else ""),
                  f"handler received {len(got)} of {n} bytes (read_bufsize={case.get('bufsize')}, segments {case.get('seg')}), then "
                  f"{'the read hung' if obs.get('quiescent') else 'raised ' + str(srv.get('read_exc'))}; client: {cli.get('exc') or cli.get('status')}")
                return
            if got != body:
                V(f"request-body-differs/flow-{fr}", f"sent {n} bytes, handler read {len(got)}")
            exp = f"{n}:{hashlib.sha1(body).hexdigest()}"
            if cli.get("text") != exp:
                V("response-body-differs/flow-upload-ack", f"handler answered {exp!r}, caller saw {cli.get('text')!r} / {cli.get('exc')}")
    elif kind == "upfail":
        got = bytes(srv.get("got", b""))
        failed = case.get("fail_after") is not None
        if srv.get("complete") and got != body:
            V(f"truncated-upload-seen-complete/{fr}",
              f"the body source ({case.get('source')}) failed with {case.get('exc')} after {len(got)} of {n} bytes (client call: {cli.get('exc') or cli.get('status')}), yet the handler's read "
              f"completed normally with a {len(got)}-byte body; last client bytes on the wire: {obs['wires'][0][0][-12:]!r}")
            return
        if failed and cli.get("complete"):
            V(f"failed-upload-reported-success/{fr}-{case.get('source')}",
              f"the body source raised {case.get('exc')} but the client call returned status {cli.get('status')}")
        exp2 = (200, f"5:{hashlib.sha1(b'after').hexdigest()}")
        if cli.get("second_exc") or cli.get("second") != exp2:
            V(f"next-request-broken/after-{'failed' if failed else 'complete'}-upload-{fr}",
              f"the request after the upload got {cli.get('second_exc') or cli.get('second')} (first call: {cli.get('exc') or cli.get('status')})")
        if not failed and (not srv.get("complete") or got != body):
            V(f"request-body-differs/upload-{fr}-{case.get('source')}", f"sent {n}, handler read {len(got)} complete={srv.get('complete')}")


# ------------------------------------------------------------------------------ generators
BUFS = [256, 1024, 4096]
READERS = [
    {"mode": "readany", "first_sleep": 1.0},
    {"mode": "readany", "first_sleep": 1.0, "every": 1, "sleep": 0.01},
    {"mode": "iter_chunked", "size": 100, "first_sleep": 0.5, "every": 3, "sleep": 0.01},
    {"mode": "iter_chunked", "size": 1000, "every": 1, "sleep": 0.01},
    {"mode": "read_n", "size": 300, "first_sleep": 1.0, "every": 2, "sleep": 0.02},
    {"mode": "iter_any", "first_sleep": 0.2, "every": 1, "sleep": 0.01},
    {"mode": "readany"},
]


def targeted_flow(direction, buf, framing, tail, reader):
    """one write = one HTTP chunk of H + H/2 + tail bytes; segment 1 stays below the high-water mark
    H = 2*read_bufsize, segment 2 crosses it in the middle of the chunk (the reader pauses the
    transport), the consumer then drains, segment 3 brings the rest of the message in one read"""
    H = 2 * buf
    n = H + H // 2 + tail
    return {"kind": "flow", "dir": direction, "bufsize": buf, "framing": framing, "n": n, "writes": [n],
            "seg": ["bodycuts", [H - 40, H + H // 2]], "reader": reader}


def boundary_flow(direction, buf, where):
    """two writes = two HTTP chunks; the first read ends exactly at the end of the first chunk
    (`where` = 'data' after its data, 'crlf' after its CRLF, 'size' inside the next size line) having pushed
    the reader above the high-water mark H; the consumer then drains; the rest comes in one read"""
    H = 2 * buf
    a = H + 10
    frame = len("%x" % a) + 2 + a
    cut = {"data": frame, "crlf": frame + 2, "size": frame + 3}[where]
    return {"kind": "flow", "dir": direction, "bufsize": buf, "framing": "chunked", "n": a + 300, "writes": [a, 300],
            "seg": ["bodycuts", [cut]], "reader": {"mode": "readany", "first_sleep": 1.0}}


def gen_early(ctx):
    rng = ctx.rng
    out = []
    for framing in ("length", "chunked"):
        for source in ("bytes", "agen"):
            for n, seg in ((4000, ["k", 500]), (70000, ["k", 1024]), (300000, ["k", 20000]), (3000, ["k", 1]) if not ctx.quick else (3000, ["k", 7])):
                for read in (0, 100):
                    for lingering in (None, 0):
                        if lingering == 0 and (read or source == "agen"):
                            continue
                        c = {"kind": "early", "framing": framing, "source": source, "n": n, "seg": seg, "read": read,
                             "status": rng.choice([401, 403, 413]), "gap": rng.choice([0, 0, 3, 50])}
                        if source == "agen":
                            c["writes"] = [max(1, n // 5)] * 5
                            c["client_yield"] = rng.random() < 0.5
                        if lingering is not None:
                            c["lingering"] = lingering
                        if n > 60000 and rng.random() < 0.5:
                            c["bufsize"] = rng.choice([1024, 4096])
                        out.append(c)
    for _ in range(20 if ctx.quick else 400):
        n = rng.choice([2000, 9000, 66000, 200000])
        r = rng.random()
        seg = ["k", rng.choice([64, 300, 1500, 9000])] if r < 0.6 else ["rand", rng.randrange(1 << 30), rng.choice([64, 700, 5000])]
        c = {"kind": "early", "framing": rng.choice(["length", "chunked"]), "source": rng.choice(["bytes", "agen"]), "n": n,
             "seg": seg, "read": rng.choice([0, 0, 1, 500]), "status": 403, "gap": rng.choice([0, 1, 10])}
        if c["source"] == "agen":
            k = rng.choice([2, 5, 9]); c["writes"] = [max(1, n // k)] * k; c["client_yield"] = rng.random() < 0.5
        if rng.random() < 0.3:
            c["bufsize"] = rng.choice([256, 1024, 4096])
        out.append(c)
    return out


def gen_crlfcut(ctx):
    out = []
    for L in (8190, 200):
        for direction in ("up", "down"):
            for where in ("field", "line"):
                for below in (0, 1):
                    for cut in (True, False):
                        out.append({"kind": "crlfcut", "limit": L, "dir": direction, "where": where, "below": below, "cut": cut})
    return out


def gen_cases(ctx):
    rng = ctx.rng
    out = c02conv.gen_cases(ctx) + gen_early(ctx) + gen_crlfcut(ctx)
    for direction in ("down", "up"):
        for buf in (BUFS if not ctx.quick else BUFS[:2]):
            for where in ("data", "crlf", "size"):
                out.append(boundary_flow(direction, buf, where))
    # --- flow control, targeted (pause in the middle of a chunk, remainder in one read)
    for direction in ("down", "up"):
        for buf in BUFS:
            for framing in ("chunked", "length"):
                for tail in ((1, 1000) if ctx.quick else (1, 7, 100, 1000)):
                    rd = {"mode": "readany", "first_sleep": 1.0}
                    out.append(targeted_flow(direction, buf, framing, tail, rd))
    # --- flow control, random: several chunks, k-byte / random segments, incremental consumers
    for _ in range(70 if ctx.quick else 1500):
        buf = rng.choice(BUFS)
        H = 2 * buf
        n = rng.choice([H + 1, 3 * H, 5 * H + 17, 8 * H, 12 * H + 3])
        nw = rng.choice([1, 1, 2, 3, 7])
        writes = [max(1, n // nw + rng.randint(-5, 5)) for _ in range(nw)]
        r = rng.random()
        if r < 0.35:
            seg = ["k", rng.choice([buf // 2 + 1, buf, H - 1, H + 3, 3 * buf + 11])]
        elif r < 0.7:
            cuts = sorted(rng.sample(range(1, n + 20), min(rng.choice([1, 2, 3, 5]), n)))
            seg = ["bodycuts", cuts]
        else:
            seg = ["rand", rng.randrange(1 << 30), rng.choice([buf, 3 * buf])]
        out.append({"kind": "flow", "dir": rng.choice(["down", "up"]), "bufsize": buf,
                    "framing": rng.choice(["chunked", "chunked", "length"]), "n": n, "writes": writes, "seg": seg,
                    "reader": dict(rng.choice(READERS)), "server_yield": rng.random() < 0.3, "client_yield": rng.random() < 0.3})
    # --- sock_read timer while aiohttp itself paused the transport
    for buf in BUFS:
        for framing in ("length", "chunked"):
            for T in ((0.5,) if ctx.quick else (0.1, 0.5, 3.0)):
                H = 2 * buf
                for n in (3 * H, 10 * H + 5):
                    out.append({"kind": "timer", "dir": "down", "bufsize": buf, "framing": framing, "n": n, "writes": [buf, n],
                                "seg": rng.choice([["k", buf], ["whole"], ["k", 3 * buf + 1]]), "sock_read": T,
                                "reader": {"mode": "read_n", "size": 64, "every": 1, "sleep": 2.5 * T + 0.3}
                                if n == 3 * H else {"mode": "readany", "first_sleep": 3 * T, "every": 2, "sleep": 1.5 * T}})
    # --- uploads whose source fails part-way
    for framing in ("chunked", "length"):
        for exc in ("OSError", "RuntimeError", "TimeoutError", "ValueError"):
            for k, nparts in ((1, 3), (2, 5), (0, 2)):
                n = 1000 * nparts
                out.append({"kind": "upfail", "dir": "up", "source": "agen", "framing": framing, "n": n, "writes": [1000] * nparts,
                            "fail_after": k, "exc": exc, "seg": rng.choice([["whole"], ["k", 300], ["k", 1]]),
                            "client_yield": rng.random() < 0.5, "reader": {"mode": "readany"}})
        for exc in ("OSError", "RuntimeError"):
            for ok_reads in (1, 2):
                from aiohttp.helpers import DEFAULT_CHUNK_SIZE
                n = DEFAULT_CHUNK_SIZE * 2 + 100      # three read() calls of the payload
                out.append({"kind": "upfail", "dir": "up", "source": "filelike", "framing": framing, "n": n,
                            "fail_after": ok_reads, "exc": exc, "seg": ["k", 150000], "reader": {"mode": "readany"}})
        # healthy controls
        out.append({"kind": "upfail", "dir": "up", "source": "agen", "framing": framing, "n": 3000, "writes": [1000] * 3,
                    "seg": ["k", 700], "reader": {"mode": "readany"}})
        out.append({"kind": "upfail", "dir": "up", "source": "filelike", "framing": framing, "n": 70000,
                    "seg": ["k", 50000], "reader": {"mode": "readany"}})
    return out


def check(ctx, stop, extra=()):
    cases = list(extra) + gen_cases(ctx)
    done = []
    for i, case in enumerate(cases):
        if stop():
            ctx.notes.append(f"flow scenarios: stopped after {i} of {len(cases)}: time budget")
            break
        try:
            obs = run_case(case)
            oracle(ctx, case, obs)
        except Exception as e:  # noqa: whatever the code under test did must come out as a verdict, never as a crash
            from .guard import MachineryError
            if isinstance(e, MachineryError):
                raise
            import traceback
            tb = traceback.extract_tb(e.__traceback__)
            where = "; ".join(f"{os.path.basename(f.filename)}:{f.lineno} {f.name}" for f in tb[-3:])
            ctx.violation(f"C02/exchange-broke-the-observer/{case['kind']}/{type(e).__name__}", case,
                          f"running or judging this exchange raised {type(e).__name__}: {e!s:.200} ({where})")
            ctx.hit("observer-exception:" + type(e).__name__)
            continue
        done.append((case, obs))
        p = obs.get("pauses") or [(0, 0)]
        paused = p[0][0] if case.get("dir", "down") == "down" else p[0][1]
        ctx.hit(f"{case['kind']}:{case.get('dir', 'down')}:{case.get('framing')}", f"{case['kind']}:transport-paused={'yes' if paused else 'no'}")
        if obs.get("cli", {}).get("exc"):
            ctx.hit(f"{case['kind']}:client-exc:{obs['cli']['exc']}")
        if case["kind"] == "upfail":
            ctx.hit("upfail:handler-" + ("complete" if obs.get("srv", {}).get("complete") else "incomplete:" + str(obs.get("srv", {}).get("read_exc"))))
        ctx.case(("flow", case), nontrivial=True,
                 sample={"case": case, "pauses": obs.get("pauses"), "client": obs.get("cli", {}).get("exc") or obs.get("cli", {}).get("status")} if i % 61 == 0 else None)
    return done
