"""C02 helper — a real ClientSession wired to a real AppRunner(app).server() through two
in-memory transports with a programmable segmenter in each direction (DESIGN-prototypes §F).

Nothing of aiohttp is replaced except the socket: `PipeConnector._create_connection` builds
the client protocol with the connector's own factory and the server protocol with
`runner.server()`, and joins them by two `PipeT` transports.
"""
import asyncio, random


class Segmenter:
    """decides how many of the buffered bytes the next `data_received` call gets.
    spec: ["whole"] | ["k", n] | ["rand", seed, maxlen] | ["cuts", [absolute offsets…]]
          | ["bodycuts", [offsets counted from the end of the first header block…]]"""

    def __init__(self, spec):
        self.spec = list(spec) if spec else ["whole"]
        self.kind = self.spec[0]
        self.pos = 0            # bytes delivered so far
        if self.kind == "rand":
            self.rng = random.Random(self.spec[1])
            self.maxlen = self.spec[2] if len(self.spec) > 2 else 64
        elif self.kind == "cuts":
            self.cuts = sorted(set(int(c) for c in self.spec[1]))
        elif self.kind == "chunkcuts":
            # cuts derived from the chunked framing of the FIRST message of the stream:
            # mode "size": after every chunk-size line; "all": also after each chunk's data and after its CRLF
            self.mode = self.spec[1] if len(self.spec) > 1 else "size"
            self.seen = bytearray()      # everything delivered or available so far
            self.cutlist = []
            self.parse_pos = None        # where the next chunk-size line starts (absolute)
            self.done_parsing = False
        elif self.kind == "cutafter":
            self.marker = bytes.fromhex(self.spec[1])
            self.hist = bytearray()
            self.cut = None
        elif self.kind == "bodycuts":
            self.rel = sorted(set(int(c) for c in self.spec[1]))
            self.hist = bytearray()   # bytes seen so far, until the first blank line is found
            self.head_end = None

    def _chunk_layout(self):
        data = bytes(self.seen)
        if self.parse_pos is None:
            j = data.find(b"\r\n\r\n")
            if j < 0:
                return
            self.parse_pos = j + 4
        while not self.done_parsing:
            k = data.find(b"\r\n", self.parse_pos)
            if k < 0:
                return
            try:
                size = int(data[self.parse_pos:k].split(b";")[0], 16)
            except ValueError:
                self.done_parsing = True
                return
            self.cutlist.append(k + 2)
            if size == 0:
                self.done_parsing = True
                return
            if self.mode == "all":
                self.cutlist += [k + 2 + size, k + 2 + size + 2]
            self.parse_pos = k + 2 + size + 2

    def take(self, avail, buf=b""):
        if self.kind == "chunkcuts":
            have = self.pos + avail
            if len(self.seen) < have:
                self.seen += bytes(buf[len(self.seen) - self.pos:avail])
            self._chunk_layout()
            nxt = [c for c in self.cutlist if c > self.pos]
            n = min(avail, nxt[0] - self.pos) if nxt else avail
            self.pos += n
            return n
        if self.kind == "cutafter":
            # one cut, right after the first occurrence of the marker (e.g. between the CR and LF of a line)
            if self.cut is None and self.hist is not None:
                allb = bytes(self.hist) + bytes(buf)
                j = allb.find(self.marker)
                if j >= 0:
                    self.cut = j + len(self.marker)
                    self.hist = None
            if self.cut is not None and self.cut > self.pos:
                n = min(avail, self.cut - self.pos)
            else:
                n = avail
                if self.hist is not None:
                    self.hist += bytes(buf[:n])
            self.pos += n
            return n
        if self.kind == "bodycuts":
            if self.head_end is None:
                j = (bytes(self.hist) + bytes(buf)).find(b"\r\n\r\n")
                if j >= 0:
                    self.head_end = j + 4
                    self.hist = None
            if self.head_end is None:
                n = avail
                self.hist += bytes(buf[:n])
            else:
                nxt = [self.head_end + c for c in self.rel if self.head_end + c > self.pos]
                n = min(avail, nxt[0] - self.pos) if nxt else avail
            self.pos += n
            return n
        if self.kind == "whole":
            n = avail
        elif self.kind == "k":
            n = min(avail, max(1, int(self.spec[1])))
        elif self.kind == "rand":
            n = min(avail, self.rng.choice([1, 1, 2, 3, self.rng.randint(1, self.maxlen), self.rng.randint(1, 4 * self.maxlen)]))
        elif self.kind == "cuts":
            nxt = [c for c in self.cuts if c > self.pos]
            n = min(avail, nxt[0] - self.pos) if nxt else avail
        else:
            raise ValueError(self.kind)
        self.pos += n
        return n


class PipeT(asyncio.Transport):
    def __init__(self, loop, name, seg=None):
        super().__init__()
        self.loop, self.name = loop, name
        self.peer = None          # the transport of the other end
        self.proto = None         # the protocol reading from this transport
        self.closing = False      # close() called locally, or peer EOF processed
        self.closed = False       # connection_lost delivered
        self.closed_by = None     # "self" | "peer"
        self.paused = False
        self.buf = bytearray()    # bytes written by the peer, not yet delivered to proto
        self.log = bytearray()    # everything this side wrote
        self.seg = Segmenter(seg)
        self.deliveries = 0
        self._pump_scheduled = False

    # ---- writing side
    def write(self, data):
        if self.closing:
            return
        data = bytes(data)
        if not data:
            return
        self.log += data
        self.peer.buf += data
        self.peer._schedule()

    def writelines(self, l):
        for d in l:
            self.write(d)

    def can_write_eof(self):
        return False

    # ---- reading side
    def _schedule(self):
        if not self._pump_scheduled:
            self._pump_scheduled = True
            self.loop.call_soon(self._pump)

    def _pump(self):
        self._pump_scheduled = False
        if self.closed or self.paused or not self.buf:
            return
        n = self.seg.take(len(self.buf), self.buf)
        kill = getattr(self, "kill_at", None)     # fault injection: the peer vanishes after this many bytes
        if kill is not None:
            n = min(n, max(0, kill - getattr(self, "delivered", 0)))
        d = bytes(self.buf[:n]); del self.buf[:n]
        self.delivered = getattr(self, "delivered", 0) + n
        if d:
            self.deliveries += 1
            self.proto.data_received(d)
        if kill is not None and self.delivered >= kill:
            # clean end of the connection (FIN) exactly here; whatever the peer wrote beyond is lost
            self.buf.clear()
            self.peer.closing = True
            if not self.closing:
                self.closing = True
                self.closed_by = "peer"
                self.loop.call_soon(self._lost)
            self.loop.call_soon(self.peer._lost)
            return
        if self.buf:
            self._schedule()

    def is_closing(self):
        return self.closing

    def close(self):
        if self.closing:
            return
        self.closing = True
        self.closed_by = self.closed_by or "self"
        self.loop.call_soon(self._lost)
        self.loop.call_soon(self.peer._peer_closed)

    abort = close

    def _peer_closed(self):
        # deliver what is still buffered, then EOF
        if self.buf and not self.paused and not self.closed:
            self.loop.call_soon(self._peer_closed)
            return
        if not self.closing:
            self.closing = True
            self.closed_by = "peer"
            self.loop.call_soon(self._lost)

    def _lost(self):
        if not self.closed:
            self.closed = True
            self.proto.connection_lost(None)

    def pause_reading(self):
        self.paused = True
        self.pauses = getattr(self, "pauses", 0) + 1
        # how many bytes of the stream had been delivered when the reader asked for the pause
        self.pause_at = getattr(self, "pause_at", []) + [self.seg.pos]

    def resume_reading(self):
        self.paused = False
        if self.buf:
            self._schedule()

    def is_reading(self):
        return not self.paused

    def get_extra_info(self, n, d=None):
        if n == "peername":
            return ("127.0.0.1", 1)
        return d

    def get_write_buffer_size(self):
        return 0

    def get_write_buffer_limits(self):
        return (0, 0)

    def set_write_buffer_limits(self, high=None, low=None):
        pass


def make_connector(server_factory, seg_c2s=None, seg_s2c=None, kill_s2c=None, kill_c2s=None, **kw):
    from aiohttp.connector import BaseConnector

    class PipeConnector(BaseConnector):
        def __init__(self):
            super().__init__(**kw)
            self.pairs = []
            self.release_log = []     # the client's keep/close decision at the real decision point
            self.seg_c2s, self.seg_s2c = seg_c2s, seg_s2c

        def _release(self, key, protocol, *, should_close=False):
            if not self._closed:
                self.release_log.append({"force": bool(self._force_close), "arg": bool(should_close),
                                         "proto": bool(protocol.should_close),
                                         # the peer's close was already delivered: should_close then only restates it
                                         "lost": bool(getattr(protocol, "_connection_lost_called", False))})
            super()._release(key, protocol, should_close=should_close)

        async def _create_connection(self, req, traces, timeout):
            cp = self._factory()
            sp = server_factory()
            # ct: client's transport (client reads server→client bytes from it)
            ct = PipeT(self._loop, "c", self.seg_s2c)
            stt = PipeT(self._loop, "s", self.seg_c2s)
            ct.peer, stt.peer = stt, ct
            ct.proto, stt.proto = cp, sp
            sp.connection_made(stt)
            cp.connection_made(ct)
            if kill_s2c is not None and not self.pairs:
                ct.kill_at = kill_s2c
            if kill_c2s is not None and not self.pairs:
                stt.kill_at = kill_c2s
            self.pairs.append((ct, stt))
            return cp

    return PipeConnector()


class RealTimeBudgetExceeded(Exception):
    pass


def run_budgeted(main_factory, obs, seconds=None):
    """vloop.run(main_factory) under a REAL-time budget: virtual time makes every timeout of the code under
    test instantaneous, so an exchange that is still running after `seconds` of wall clock is spinning
    (timers re-arming for ever, a cancelled task that refuses to finish, ...) — that is a stall of the
    implementation, reported through obs like quiescence, never a hang or crash of the check."""
    import os, signal
    from . import vloop
    if seconds is None:
        seconds = float(os.environ.get("C02_CASE_BUDGET_S", "90"))

    def on_alarm(signum, frame):
        raise RealTimeBudgetExceeded(f"exchange still running after {seconds:.0f}s of wall-clock time")
    try:
        old = signal.signal(signal.SIGALRM, on_alarm)
    except ValueError:          # not in the main thread: no budget available
        old = None
    if old is not None:
        signal.setitimer(signal.ITIMER_REAL, seconds)
    try:
        _, excs, quiescent = vloop.run(main_factory)
        obs["quiescent"] = quiescent
        obs["loop_excs_raw"] = excs
    except RealTimeBudgetExceeded as e:
        obs["quiescent"] = True
        obs["budget_exceeded"] = str(e)
    except asyncio.CancelledError:
        obs["quiescent"] = True
        obs["budget_exceeded"] = "main task cancelled"
    finally:
        if old is not None:
            signal.setitimer(signal.ITIMER_REAL, 0)
            signal.signal(signal.SIGALRM, old)
    return obs
