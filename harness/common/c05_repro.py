"""standalone reproduction of the five C05 deviations (PYTHONPATH=<repo> AIOHTTP_NO_EXTENSIONS=1 python repro_c05.py)"""
import asyncio, aiohttp
from aiohttp import web

class T(asyncio.Transport):
    def __init__(s): super().__init__(); s.out = b""; s.closed = False; s.proto = None
    def write(s, d): s.out += bytes(d)
    def writelines(s, l): [s.write(d) for d in l]
    def is_closing(s): return s.closed
    def close(s):
        if not s.closed: s.closed = True; asyncio.get_running_loop().call_soon(s.proto.connection_lost, None)
    def pause_reading(s): pass
    def resume_reading(s): pass
    def get_extra_info(s, n, d=None): return d
    def get_write_buffer_size(s): return 0

async def run(handler, reads, wait=0.05):
    app = web.Application(); app.router.add_route("*", "/{t:.*}", handler)
    runner = web.AppRunner(app, access_log=None); await runner.setup()
    proto = runner.server(); tr = T(); tr.proto = proto; proto.connection_made(tr)
    task = proto._task_handler
    for r in reads:
        if not tr.closed: proto.data_received(r)
        await asyncio.sleep(wait)
    return tr, task, proto

async def ok(request): return web.Response(text="ok:" + request.path)
async def stream_then_403(request):
    r = web.StreamResponse(); await r.prepare(request); await r.write(b"xxxxx"); raise web.HTTPForbidden()
async def stream(request):
    r = web.StreamResponse(); await r.prepare(request); await r.write(b"xxxxx"); await r.write_eof(); return r

async def main():
    G = lambda p, extra=b"", v=b"HTTP/1.1": b"GET " + p + b" " + v + b"\r\nHost: x\r\n" + extra + b"\r\n"
    tr, _, _ = await run(stream_then_403, [G(b"/0") + G(b"/1")])
    print("G1 second header block inside a chunked body, connection kept open:", tr.out.count(b"HTTP/1.1 "), "status lines, closed =", tr.closed)
    tr, task, _ = await run(ok, [b"CONNECT h:70000 HTTP/1.1\r\nHost: h\r\n\r\n"])
    print("G2 start() task dead:", task.done() and repr(task.exception()), "| bytes written:", len(tr.out), "| transport closed:", tr.closed)
    tr, _, _ = await run(ok, [G(b"/0") + b"BAD\r\n\r\n"])
    print("G3 one read  :", __import__("re").findall(rb"HTTP/1\.[01] \d\d\d", tr.out))
    tr, _, _ = await run(ok, [G(b"/0"), b"BAD\r\n\r\n"])
    print("G3 two reads :", __import__("re").findall(rb"HTTP/1\.[01] \d\d\d", tr.out))
    tr, _, _ = await run(stream, [G(b"/0", b"Connection: keep-alive\r\n", b"HTTP/1.0") + G(b"/1")])
    print("G4 close-delimited body followed by another response:", [l for l in tr.out.split(b"\r\n") if b"HTTP/" in l], "closed =", tr.closed)
    up = G(b"/0", b"Connection: Upgrade\r\nUpgrade: websocket\r\nContent-Length: 3\r\n")
    tr, _, proto = await run(ok, [up + b"a", b"bc" + G(b"/1") + G(b"/2")])
    print("G5 responses:", tr.out.count(b"HTTP/1.1 "), "of 3 requests; closed =", tr.closed, "| upgraded =", proto._upgraded, "| buffered tail =", len(proto._message_tail), "| waiter pending =", proto._waiter is not None and not proto._waiter.done())

asyncio.run(main())
